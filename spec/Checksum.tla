------------------------------ MODULE Checksum ------------------------------
(***************************************************************************)
(* C11 - checksummed text encodings: Base58 / Base58Check (address, WIF    *)
(* private key, BIP32 extended key, BIP38 key) and Bech32 / Bech32m segwit *)
(* addresses (BIP173, BIP350).  Written from the protocol documents.       *)
(*                                                                         *)
(* A string is a sequence of character codes.  Everything structural is    *)
(* computed here (alphabet, big-number conversion, leading-zero rule,      *)
(* payload length per kind, version tables, Bech32 polymod, bit            *)
(* regrouping, padding rule, case rule).  The only primitive left outside  *)
(* is the double-SHA256 of Base58Check: decoders take an operator H(_)     *)
(* that gives the first four bytes of sha256d of a byte string (the        *)
(* harness supplies it as oracle facts computed with harness/ref.py; the   *)
(* bounded model uses a toy function).                                     *)
(*                                                                         *)
(* Named deviations (what the implementation is known to do instead) are   *)
(* members of a set D handed to the decoders; with D = {} the decoders are *)
(* the property.                                                           *)
(***************************************************************************)
EXTENDS Bytes, Bitwise, FiniteSets

Range(f) == {f[i] : i \in DOMAIN f}
Min2(a, b) == IF a < b THEN a ELSE b

(* ------------------------------------------------------------------------ *)
(* Base58                                                                    *)
(* ------------------------------------------------------------------------ *)
\* 123456789ABCDEFGHJKLMNPQRSTUVWXYZabcdefghijkmnopqrstuvwxyz
B58Alphabet == <<49, 50, 51, 52, 53, 54, 55, 56, 57, 65, 66, 67, 68, 69, 70, 71, 72, 74, 75, 76, 77, 78, 80, 81, 82, 83,
                 84, 85, 86, 87, 88, 89, 90, 97, 98, 99, 100, 101, 102, 103, 104, 105, 106, 107, 109, 110, 111, 112, 113,
                 114, 115, 116, 117, 118, 119, 120, 121, 122>>
B58Val == [c \in 0..127 |-> IF \E i \in 1..58 : B58Alphabet[i] = c
                            THEN (CHOOSE i \in 1..58 : B58Alphabet[i] = c) - 1 ELSE 0 - 1]
B58Digit(c) == IF c \in 0..127 THEN B58Val[c] ELSE 0 - 1
B58Chars(s) == \A i \in 1..Len(s) : B58Digit(s[i]) >= 0

RECURSIVE LeadCount(_, _)
LeadCount(s, x) == IF s = <<>> \/ s[1] # x THEN 0 ELSE 1 + LeadCount(Tail(s), x)

\* big number given by base-58 digits (most significant first) -> minimal little-endian bytes.
\* Horner's rule, three digits per step (58^3 * 255 + 58^3 < 2^31).
RECURSIVE B58Horner(_, _, _)
B58Horner(ds, i, acc) ==
    IF i > Len(ds) THEN acc
    ELSE LET k == Min2(3, Len(ds) - i + 1)
             v == IF k = 1 THEN ds[i] ELSE IF k = 2 THEN ds[i] * 58 + ds[i + 1]
                  ELSE (ds[i] * 58 + ds[i + 1]) * 58 + ds[i + 2]
             m == IF k = 1 THEN 58 ELSE IF k = 2 THEN 3364 ELSE 195112
         IN B58Horner(ds, i + k, MulSmall(acc, m, v, 256))

\* Decoding: every character must be in the alphabet; each leading '1' is one leading zero byte; the rest is the
\* big-endian base-256 form (without leading zero bytes) of the base-58 number.
B58Decode(s) ==
    IF ~B58Chars(s) THEN [ok |-> FALSE, b |-> <<>>]
    ELSE LET z  == LeadCount(s, 49)
             ds == [i \in 1..(Len(s) - z) |-> B58Digit(s[z + i])]
         IN [ok |-> TRUE, b |-> Rep(0, z) \o Rev(B58Horner(ds, 1, <<>>))]

\* Encoding: one '1' per leading zero byte, then the base-58 digits of the remaining number.
B58Encode(b) ==
    LET z  == LeadCount(b, 0)
        ds == Rev(ConvBEtoLE(Drop(b, z), 256, 58))
    IN Rep(49, z) \o [i \in 1..Len(ds) |-> B58Alphabet[ds[i] + 1]]

\* canonical: the string is exactly the encoding of what it decodes to (true for every alphabet string by
\* construction of the leading-zero rule; stated as an invariant of the bounded model and used as the definition of
\* "missing or extra leading 1")
B58Canonical(s) == LET d == B58Decode(s) IN d.ok /\ B58Encode(d.b) = s

(* ------------------------------------------------------------------------ *)
(* Reference tables (chain parameters, SLIP-132; bitcoinlib_test/doge HRPs are the library's own networks)      *)
(* ------------------------------------------------------------------------ *)
AddrNets == [v \in 0..255 |->
    CASE v = 0   -> {"bitcoin", "regtest"}
      [] v = 5   -> {"bitcoin", "regtest", "litecoin_legacy"}
      [] v = 111 -> {"testnet", "testnet4", "signet", "litecoin_testnet"}
      [] v = 196 -> {"testnet", "testnet4", "signet", "dogecoin_testnet"}
      [] v = 48  -> {"litecoin", "litecoin_legacy"}
      [] v = 50  -> {"litecoin"}
      [] v = 58  -> {"litecoin_testnet"}
      [] v = 30  -> {"dogecoin"}
      [] v = 22  -> {"dogecoin"}
      [] v = 113 -> {"dogecoin_testnet"}
      [] v = 144 -> {"bitcoinlib_test"}
      [] v = 149 -> {"bitcoinlib_test"}
      [] OTHER   -> {}]
WifNets == [v \in 0..255 |->
    CASE v = 128 -> {"bitcoin", "regtest"}
      [] v = 239 -> {"testnet", "testnet4", "signet", "litecoin_testnet"}
      [] v = 176 -> {"litecoin", "litecoin_legacy"}
      [] v = 158 -> {"dogecoin"}
      [] v = 241 -> {"dogecoin_testnet"}
      [] v = 153 -> {"bitcoinlib_test"}
      [] OTHER   -> {}]
\* human readable parts (lower case): bc tb bcrt ltc tltc blt doge tdoge
HrpNets(h) ==
    CASE h = <<98, 99>>                     -> {"bitcoin"}
      [] h = <<116, 98>>                    -> {"testnet", "testnet4", "signet"}
      [] h = <<98, 99, 114, 116>>           -> {"regtest"}
      [] h = <<108, 116, 99>>               -> {"litecoin", "litecoin_legacy"}
      [] h = <<116, 108, 116, 99>>          -> {"litecoin_testnet"}
      [] h = <<98, 108, 116>>               -> {"bitcoinlib_test"}
      [] h = <<100, 111, 103, 101>>         -> {"dogecoin"}
      [] h = <<116, 100, 111, 103, 101>>    -> {"dogecoin_testnet"}
      [] OTHER                              -> {}
\* extended key versions: <<4 bytes>> -> private?
XPrv == { <<4, 136, 173, 228>>, <<4, 157, 120, 120>>, <<2, 149, 176, 5>>, <<4, 178, 67, 12>>, <<2, 170, 122, 153>>,   \* xprv yprv Yprv zprv Zprv
          <<4, 53, 131, 148>>, <<4, 74, 78, 40>>, <<2, 66, 133, 181>>, <<4, 95, 24, 188>>, <<2, 87, 80, 72>>,         \* tprv uprv Uprv vprv Vprv
          <<1, 157, 156, 254>>, <<1, 178, 103, 146>>, <<4, 54, 239, 125>>,                                            \* Ltpv Mtpv ttpv
          <<47, 255, 173, 221>>, <<47, 255, 179, 0>>, <<47, 255, 181, 0>>, <<47, 255, 185, 0>>, <<47, 255, 186, 0>> } \* bitcoinlib_test
XPub == { <<4, 136, 178, 30>>, <<4, 157, 124, 178>>, <<2, 149, 180, 63>>, <<4, 178, 71, 70>>, <<2, 170, 126, 211>>,   \* xpub ypub Ypub zpub Zpub
          <<4, 53, 135, 207>>, <<4, 74, 82, 98>>, <<2, 66, 137, 239>>, <<4, 95, 28, 246>>, <<2, 87, 84, 131>>,        \* tpub upub Upub vpub Vpub
          <<1, 157, 164, 98>>, <<1, 178, 110, 246>>, <<4, 54, 246, 225>>,                                             \* Ltub Mtub ttub
          <<47, 255, 172, 204>>, <<47, 255, 174, 238>>, <<47, 255, 177, 0>>, <<47, 255, 182, 102>>, <<47, 255, 184, 0>> }
XVersions == XPrv \cup XPub
\* networks sharing an extended key version
XNets(v) ==
    CASE v \in {<<4, 136, 173, 228>>, <<4, 136, 178, 30>>} -> {"bitcoin", "regtest", "dogecoin"}
      [] v \in {<<4, 53, 131, 148>>, <<4, 53, 135, 207>>}  -> {"testnet", "testnet4", "signet", "dogecoin_testnet"}
      [] v[1] = 4 /\ v[2] \in {157, 178}                  -> {"bitcoin", "regtest"}
      [] v[1] = 2 /\ v[2] \in {149, 170}                  -> {"bitcoin", "regtest"}
      [] v[1] = 4 /\ v[2] \in {74, 95}                    -> {"testnet", "testnet4", "signet"}
      [] v[1] = 2 /\ v[2] \in {66, 87}                    -> {"testnet", "testnet4", "signet"}
      [] v[1] = 1                                         -> {"litecoin", "litecoin_legacy"}
      [] v[1] = 4 /\ v[2] = 54                            -> {"litecoin_testnet"}
      [] v[1] = 47                                        -> {"bitcoinlib_test"}
      [] OTHER                                            -> {}
\* import without a network argument resolves a shared version to the default network (bitcoin), else to testnet, else
\* refuses (documented behaviour of check_network_and_key)
Ambiguous(nets) == Cardinality(nets) > 1 /\ ~("bitcoin" \in nets) /\ ~("testnet" \in nets)

(* ------------------------------------------------------------------------ *)
(* Base58Check per kind                                                      *)
(* ------------------------------------------------------------------------ *)
Kinds == {"addr", "wif", "xkey", "bip38"}

Payload(b) == SubSeq(b, 1, Len(b) - 4)
Check4(b)  == SubSeq(b, Len(b) - 3, Len(b))

LenOk(kind, p) ==
    CASE kind = "addr"  -> Len(p) = 21                              \* version + 20-byte hash
      [] kind = "wif"   -> Len(p) = 33 \/ (Len(p) = 34 /\ p[34] = 1) \* version + key (+ 01 = compressed public key)
      [] kind = "xkey"  -> Len(p) = 78                              \* BIP32 serialization
      [] kind = "bip38" -> Len(p) = 39                              \* 0142|0143 flag addresshash(4) 32 bytes
VersionOk(kind, p) ==
    CASE kind = "addr"  -> AddrNets[p[1]] # {}
      [] kind = "wif"   -> WifNets[p[1]] # {}
      [] kind = "xkey"  -> SubSeq(p, 1, 4) \in XVersions
      [] kind = "bip38" -> p[1] = 1 /\ p[2] \in {66, 67}

Reject(why) == [ok |-> FALSE, why |-> why, p |-> <<>>]
Accept(p)   == [ok |-> TRUE, why |-> "", p |-> p]

\* BIP32: private versions carry 00 || ser256(k), public versions carry serP(K) (02 / 03 || x)
XKeyDataOk(p) == \/ (SubSeq(p, 1, 4) \in XPrv /\ p[46] = 0)
                 \/ (SubSeq(p, 1, 4) \in XPub /\ p[46] \in {2, 3})

\* named deviations of the Base58 side (what the implementation does instead; each is switched on by membership in D)
DevPad     == "b58-address-zero-padded"          \* address decoders left-pad the decoded bytes with 00 to 25 bytes
DevFold    == "b58-upper-I-O-folded"             \* the characters I and O (not in the alphabet) are read as i and o
DevAddrLen == "address-hash-length-not-checked"  \* deserialize_address: everything between version byte and checksum is
                                                 \* the hash, however long (payload longer than 21 bytes)
DevAddrVer == "address-unknown-version-accepted" \* decoders without network knowledge return the hash for any version byte
DevWifLen  == "wif-length-not-checked"           \* Key(wif): whatever lies between version byte and checksum is the key
DevWif01   == "wif-trailing-01-taken-as-compression-marker"  \* an uncompressed WIF (33-byte payload) whose key ends in
                                                 \* 01 is read as a compressed key of 31 bytes
DevXCheck  == "xkey-checksum-not-verified"       \* HDKey import slices the decoded bytes, last four never compared
DevXLen    == "xkey-length-not-checked"          \* HDKey(import_key) slices decoded bytes of any length >= 78
DevXData   == "xkey-keydata-not-checked"         \* private/public is decided by byte 46 alone (00 = private, anything else
                                                 \* = public key of 33 bytes), whatever the version says
Dev38      == "bip38-checksum-not-verified"      \* bip38_decrypt drops the last four bytes without comparing them
B58Devs == {DevPad, DevFold, DevAddrLen, DevAddrVer, DevWifLen, DevWif01, DevXCheck, DevXLen, DevXData, Dev38}

Fold(s) == [i \in 1..Len(s) |-> IF s[i] = 73 THEN 105 ELSE IF s[i] = 79 THEN 111 ELSE s[i]]
HasIO(s) == \E i \in 1..Len(s) : s[i] \in {73, 79}

\* decoded bytes -> verdict.  H(m): first four bytes of sha256d(m).
CheckBytesD(b0, kind, H(_), D) ==
    LET b == IF kind = "addr" /\ DevPad \in D THEN PadBE(b0, 25) ELSE b0 IN
    IF Len(b) < 5 THEN Reject("length")
    ELSE LET p == Payload(b) IN
         IF ~(\/ LenOk(kind, p)
              \/ (kind = "addr" /\ DevAddrLen \in D /\ Len(p) > 21)
              \/ (kind = "xkey" /\ DevXLen \in D /\ Len(p) >= 74)
              \/ (kind = "wif" /\ DevWifLen \in D /\ Len(p) >= 2)) THEN Reject("length")
         ELSE IF ~(VersionOk(kind, p) \/ (kind = "addr" /\ DevAddrVer \in D)) THEN Reject("version")
         ELSE IF kind = "xkey" /\ ~XKeyDataOk(p) /\ ~(DevXData \in D) THEN Reject("key-data")
         ELSE IF H(p) # Check4(b) /\ ~(kind = "xkey" /\ DevXCheck \in D) /\ ~(kind = "bip38" /\ Dev38 \in D)
              THEN Reject("checksum")
         ELSE Accept(p)

B58CheckDecodeD(s, kind, H(_), D) ==
    LET d == B58Decode(IF DevFold \in D THEN Fold(s) ELSE s) IN
    IF ~d.ok THEN Reject("alphabet") ELSE CheckBytesD(d.b, kind, H, D)

B58CheckDecode(s, kind, H(_)) == B58CheckDecodeD(s, kind, H, {})
B58CheckEncode(p, H(_)) == B58Encode(p \o H(p))

(* ------------------------------------------------------------------------ *)
(* Bech32 / Bech32m (BIP173, BIP350)                                         *)
(* ------------------------------------------------------------------------ *)
\* qpzry9x8gf2tvdw0s3jn54khce6mua7l
B32Alphabet == <<113, 112, 122, 114, 121, 57, 120, 56, 103, 102, 50, 116, 118, 100, 119, 48, 115, 51, 106, 110, 53, 52,
                 107, 104, 99, 101, 54, 109, 117, 97, 55, 108>>
B32Val == [c \in 0..127 |-> IF \E i \in 1..32 : B32Alphabet[i] = c
                            THEN (CHOOSE i \in 1..32 : B32Alphabet[i] = c) - 1 ELSE 0 - 1]
B32Digit(c) == IF c \in 0..127 THEN B32Val[c] ELSE 0 - 1

Gen == <<996825010, 642813549, 513874426, 1027748829, 705979059>>    \* 3b6a57b2 26508e6d 1ea119fa 3d4233dd 2a1462b3
Bech32Const  == 1
Bech32mConst == 734539939                                            \* 2bc830a3

PolyStep(chk, v) ==
    LET top == chk \div 33554432                                     \* chk >> 25
        c0  == ((chk % 33554432) * 32) ^^ v
        c1  == IF (top % 2) = 1 THEN c0 ^^ Gen[1] ELSE c0
        c2  == IF ((top \div 2) % 2) = 1 THEN c1 ^^ Gen[2] ELSE c1
        c3  == IF ((top \div 4) % 2) = 1 THEN c2 ^^ Gen[3] ELSE c2
        c4  == IF ((top \div 8) % 2) = 1 THEN c3 ^^ Gen[4] ELSE c3
    IN IF ((top \div 16) % 2) = 1 THEN c4 ^^ Gen[5] ELSE c4
RECURSIVE PolyFrom(_, _, _)
PolyFrom(vs, i, chk) == IF i > Len(vs) THEN chk ELSE PolyFrom(vs, i + 1, PolyStep(chk, vs[i]))
Polymod(vs) == PolyFrom(vs, 1, 1)

HrpExpand(h) == [i \in 1..Len(h) |-> h[i] \div 32] \o <<0>> \o [i \in 1..Len(h) |-> h[i] % 32]

IsUpper(c) == c \in 65..90
IsLower(c) == c \in 97..122
ToLower(s) == [i \in 1..Len(s) |-> IF IsUpper(s[i]) THEN s[i] + 32 ELSE s[i]]
ToUpper(s) == [i \in 1..Len(s) |-> IF IsLower(s[i]) THEN s[i] - 32 ELSE s[i]]
MixedCase(s) == (\E i \in 1..Len(s) : IsUpper(s[i])) /\ (\E i \in 1..Len(s) : IsLower(s[i]))
AllUpper(s)  == (\E i \in 1..Len(s) : IsUpper(s[i])) /\ ~(\E i \in 1..Len(s) : IsLower(s[i]))

RECURSIVE LastIndex(_, _, _)
LastIndex(s, x, i) == IF i = 0 THEN 0 ELSE IF s[i] = x THEN i ELSE LastIndex(s, x, i - 1)

Bits5(v) == <<(v \div 16) % 2, (v \div 8) % 2, (v \div 4) % 2, (v \div 2) % 2, v % 2>>
RECURSIVE Bits5Of(_)
Bits5Of(vs) == IF vs = <<>> THEN <<>> ELSE Bits5(vs[1]) \o Bits5Of(Tail(vs))

\* 8 -> 5 bit regrouping with zero padding (encoder)
To5(bytes) == LET bits == BytesBits(bytes)
                  pad  == (5 - (Len(bits) % 5)) % 5
              IN Group(bits \o Rep(0, pad), 5)
\* 5 -> 8 bit regrouping (decoder): fewer than 5 left-over bits, all zero
From5(vs) == LET bits == Bits5Of(vs)
                 rem  == Len(bits) % 8
                 tail == SubSeq(bits, Len(bits) - rem + 1, Len(bits))
             IN IF rem >= 5 \/ (\E i \in 1..rem : tail[i] # 0) THEN [ok |-> FALSE, b |-> <<>>]
                ELSE [ok |-> TRUE, b |-> Group(SubSeq(bits, 1, Len(bits) - rem), 8)]

B32Reject(why) == [ok |-> FALSE, why |-> why, hrp |-> <<>>, ver |-> 0, prog |-> <<>>, upper |-> FALSE]

\* generic Bech32 layer: <<ok, hrp, data (5-bit values without checksum), constant>>
Bech32Parse(s0) ==
    IF \E i \in 1..Len(s0) : ~(s0[i] \in 33..126) THEN [ok |-> FALSE, why |-> "character-range", hrp |-> <<>>, data |-> <<>>, const |-> 0]
    ELSE IF MixedCase(s0) THEN [ok |-> FALSE, why |-> "mixed-case", hrp |-> <<>>, data |-> <<>>, const |-> 0]
    ELSE IF Len(s0) > 90 THEN [ok |-> FALSE, why |-> "too-long", hrp |-> <<>>, data |-> <<>>, const |-> 0]
    ELSE LET s   == ToLower(s0)
             pos == LastIndex(s, 49, Len(s))
         IN IF pos < 2 \/ pos + 6 > Len(s) THEN [ok |-> FALSE, why |-> "separator", hrp |-> <<>>, data |-> <<>>, const |-> 0]
            ELSE LET hrp == SubSeq(s, 1, pos - 1)
                     dp  == SubSeq(s, pos + 1, Len(s))
                 IN IF \E i \in 1..Len(dp) : B32Digit(dp[i]) < 0
                    THEN [ok |-> FALSE, why |-> "charset", hrp |-> <<>>, data |-> <<>>, const |-> 0]
                    ELSE LET vals == [i \in 1..Len(dp) |-> B32Digit(dp[i])]
                         IN [ok |-> TRUE, why |-> "", hrp |-> hrp, data |-> SubSeq(vals, 1, Len(vals) - 6),
                             const |-> Polymod(HrpExpand(hrp) \o vals)]

\* named deviations of the Bech32 side
DevHrp == "bech32-unknown-hrp-accepted"     \* decoders without network knowledge accept any human readable part
B32Devs == {DevHrp}

\* segwit address (BIP173 + BIP350)
SegwitDecodeD(s, D) ==
    LET r == Bech32Parse(s) IN
    IF ~r.ok THEN B32Reject(r.why)
    ELSE IF r.const # Bech32Const /\ r.const # Bech32mConst THEN B32Reject("checksum")
    ELSE IF r.data = <<>> THEN B32Reject("no-witness-version")
    ELSE IF r.data[1] > 16 THEN B32Reject("witness-version")
    ELSE IF (r.data[1] = 0) # (r.const = Bech32Const) THEN B32Reject("checksum-constant")
    ELSE LET c == From5(Tail(r.data)) IN
         IF ~c.ok THEN B32Reject("padding")
         ELSE IF Len(c.b) < 2 \/ Len(c.b) > 40 THEN B32Reject("program-length")
         ELSE IF r.data[1] = 0 /\ ~(Len(c.b) \in {20, 32}) THEN B32Reject("v0-program-length")
         ELSE IF HrpNets(r.hrp) = {} /\ ~(DevHrp \in D) THEN B32Reject("hrp")
         ELSE [ok |-> TRUE, why |-> "", hrp |-> r.hrp, ver |-> r.data[1], prog |-> c.b, upper |-> AllUpper(s)]
SegwitDecode(s) == SegwitDecodeD(s, {})

Checksum6(hrp, data, const) ==
    LET pm == Polymod(HrpExpand(hrp) \o data \o <<0, 0, 0, 0, 0, 0>>) ^^ const
    IN <<(pm \div 33554432) % 32, (pm \div 1048576) % 32, (pm \div 32768) % 32, (pm \div 1024) % 32, (pm \div 32) % 32, pm % 32>>
\* raw encoder (any 5-bit data, any constant) - used to construct invalid strings with a "valid" checksum
Bech32EncodeRaw(hrp, data, const) ==
    LET all == data \o Checksum6(hrp, data, const)
    IN hrp \o <<49>> \o [i \in 1..Len(all) |-> B32Alphabet[all[i] + 1]]
SegwitEncode(hrp, ver, prog) ==
    Bech32EncodeRaw(hrp, <<ver>> \o To5(prog), IF ver = 0 THEN Bech32Const ELSE Bech32mConst)

(* ------------------------------------------------------------------------ *)
(* Mutation operators (the damage classes of the property)                   *)
(* ------------------------------------------------------------------------ *)
Subst(s, i, c)  == [s EXCEPT ![i] = c]
Insert(s, i, c) == SubSeq(s, 1, i - 1) \o <<c>> \o SubSeq(s, i, Len(s))        \* i in 1..Len+1
Delete(s, i)    == SubSeq(s, 1, i - 1) \o SubSeq(s, i + 1, Len(s))
Swap(s, i)      == [s EXCEPT ![i] = s[i + 1], ![i + 1] = s[i]]                 \* i in 1..Len-1
CaseFlip(s, i)  == [s EXCEPT ![i] = IF IsUpper(s[i]) THEN s[i] + 32 ELSE IF IsLower(s[i]) THEN s[i] - 32 ELSE s[i]]
Truncate(s, n)  == SubSeq(s, 1, n)
DropFront(s, n) == SubSeq(s, n + 1, Len(s))
=============================================================================
