SPECIFICATION Spec
CONSTANTS
  Has <- NoHas
  Val <- NoVal
  MaxSteps = 4
INVARIANT SpecGeneratorNeverBlamed
INVARIANT JudgeExact
INVARIANT SameJudge
INVARIANT ExplicitNeverBlamed
CHECK_DEADLOCK FALSE
