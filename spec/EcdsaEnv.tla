----------------------------- MODULE EcdsaEnv -----------------------------
(***************************************************************************)
(* C13, the ENVIRONMENT of a sign call.  "The nonce is never shared        *)
(* between different messages or keys" is a statement about every          *)
(* execution of the program that calls the library, and that program owns  *)
(* ambient state the library can see: the process-wide pseudo-random       *)
(* generators (Python's `random` module, numpy.random).  The application   *)
(* may seed them, save and restore their state, and fork children that     *)
(* inherit it.  This module makes that state a variable, gives the         *)
(* environment its actions                                                 *)
(*     Seed(x)   SaveState   RestoreState   Sign   ForkSign                *)
(* (ForkSign: the sign call runs in a forked child that inherits the       *)
(* ambient state; the parent's state is not touched by the child), and     *)
(* states the property for every interleaving of them with sign calls:     *)
(*  - library-chosen nonces (RFC 6979 mode and random mode): two calls     *)
(*    with different (key, message) never share r;                         *)
(*  - RFC 6979 mode: equal (key, message) give the equal signature (the    *)
(*    API has no extra-entropy argument), whatever the ambient state;      *)
(*  - explicit nonce k (the API has one): r is determined by k - equal k   *)
(*    give equal r, and k' not in {k, n-k} gives another r.                *)
(* The judge is the ledger of Ecdsa.tla plus the explicit-nonce clause.    *)
(* The bounded model MC_EcdsaEnv runs an abstract signer in this           *)
(* environment: the specification's signer (random mode draws OS entropy,  *)
(* which never repeats) is never blamed; a signer that draws the nonce     *)
(* from the ambient generator is blamed exactly on the interleavings in    *)
(* which the ambient state repeats between two sign calls.                 *)
(* The same behaviours (Behaviours(L)) are replayed into the               *)
(* implementation and the recorded r, s are judged by EnvJudge.            *)
(***************************************************************************)
EXTENDS Ecdsa, TLC

\* ------------------------------------------------------------------ behaviours of the environment
Seeds == {1, 2}
EnvActs == {"seed1", "seed2", "save", "restore", "sign", "forksign"}
IsSign(a) == a \in {"sign", "forksign"}
NSigns(b) == Cardinality({i \in 1..Len(b) : IsSign(b[i])})
\* all action sequences of length L with at least two sign calls, restore only after a save
WellFormed(b) == /\ NSigns(b) >= 2
                 /\ \A i \in 1..Len(b) : b[i] = "restore" => \E j \in 1..(i - 1) : b[j] = "save"
Behaviours(L) == {b \in [1..L -> EnvActs] : WellFormed(b)}

\* arguments of the i-th sign call of a behaviour: (key index, message index), so that consecutive calls differ in the
\* message only, then in the key only, and the fourth call repeats the first pair
PairOf(i) == CASE i % 4 = 1 -> <<1, 1>> [] i % 4 = 2 -> <<1, 2>> [] i % 4 = 3 -> <<2, 2>> [] OTHER -> <<1, 1>>
\* nonce-mode of the i-th sign call under a mode plan
Plans == {"random", "det", "explicit", "mixed"}
ModeOf(plan, i) == IF plan = "mixed" THEN (IF i % 2 = 1 THEN "random" ELSE "det") ELSE plan
\* explicit nonce index of the i-th call: k1, k1, k2, k1 (the same k for different pairs: r must repeat)
KOf(i) == IF i % 4 = 3 THEN 2 ELSE 1

\* ------------------------------------------------------------------ judge of a recorded behaviour
\* events: [mode, key, z, rep, r, s, k]  (k: explicit nonce as a scalar, <<>> otherwise)
ExplicitFails(prev, ev, n) ==
    IF ev.mode # "explicit" THEN <<>>
    ELSE IF \E e \in prev : Norm(e.k) = Norm(ev.k) /\ Norm(e.r) # Norm(ev.r)
         THEN <<Bad("explicit-nonce-not-used", "", <<>>)>>                   \* same k, other r
    ELSE IF \E e \in prev : Norm(e.k) # Norm(ev.k) /\ Norm(e.k) # Twin(ev.k, n) /\ Norm(e.r) = Norm(ev.r)
         THEN <<Bad("explicit-nonce-not-used", "", <<>>)>>                   \* other k, same r
    ELSE <<>>
RECURSIVE EnvRun(_, _, _, _, _, _)
EnvRun(st, prev, evs, i, acc, n) ==
    IF i > Len(evs) THEN acc
    ELSE EnvRun(LedgerNext(st, evs[i]), IF evs[i].mode = "explicit" THEN prev \cup {evs[i]} ELSE prev, evs, i + 1,
                Append(acc, LedgerFails(st, evs[i]) \o ExplicitFails(prev, evs[i], n)), n)
EnvJudge(evs, n) == EnvRun(LedgerInit, {}, evs, 1, <<>>, n)

\* ------------------------------------------------------------------ abstract signers in the environment (for the model)
\* ambient generator state: <<seed id, draws since>>;  os: OS entropy consumed so far (never repeats)
EnvInit == [prng |-> <<0, 0>>, saved |-> <<>>, os |-> 0, nsign |-> 0]
\* scalars of the abstract signatures: tuples that start with a non-zero tag (so that Norm leaves them alone)
NonceOs(c) == <<1, c>>
NoncePrng(g) == <<2, g[1], g[2]>>
NonceRfc(p) == <<3, p[1], p[2]>>
NonceK(k) == <<4, k>>
\* signer "spec": RFC 6979 / OS entropy / the explicit k.   signer "ambient": random mode draws from the ambient generator.
\* Returns [st (next environment state), ev (the event)], for action a of a behaviour under a mode plan.
EnvStep(st, a, plan, signer) ==
    CASE a = "seed1" -> [st |-> [st EXCEPT !.prng = <<1, 0>>], ev |-> <<>>]
      [] a = "seed2" -> [st |-> [st EXCEPT !.prng = <<2, 0>>], ev |-> <<>>]
      [] a = "save" -> [st |-> [st EXCEPT !.saved = st.prng], ev |-> <<>>]
      [] a = "restore" -> [st |-> [st EXCEPT !.prng = st.saved], ev |-> <<>>]
      [] IsSign(a) ->
           LET i == st.nsign + 1
               p == PairOf(i)
               mode == ModeOf(plan, i)
               nonce == IF mode = "det" THEN NonceRfc(p)
                        ELSE IF mode = "explicit" THEN NonceK(KOf(i))
                        ELSE IF signer = "ambient" THEN NoncePrng(st.prng) ELSE NonceOs(st.os)
               drawsAmbient == mode = "random" /\ signer = "ambient"
               drawsOs == mode = "random" /\ signer = "spec"
           IN [st |-> [st EXCEPT !.nsign = i,
                                 !.os = IF drawsOs THEN @ + 1 ELSE @,
                                 \* a forked child advances its own copy only
                                 !.prng = IF drawsAmbient /\ a = "sign" THEN <<@[1], @[2] + 1>> ELSE @],
               ev |-> <<[mode |-> mode, key |-> p[1], z |-> p[2], rep |-> "bytes", r |-> nonce, s |-> nonce \o <<p[1], p[2]>>,
                         k |-> IF mode = "explicit" THEN <<KOf(i)>> ELSE <<>>]>>]
\* events of a whole behaviour
RECURSIVE EnvEvents(_, _, _, _, _)
EnvEvents(st, b, i, plan, signer) ==
    IF i > Len(b) THEN <<>>
    ELSE LET x == EnvStep(st, b[i], plan, signer) IN x.ev \o EnvEvents(x.st, b, i + 1, plan, signer)
Blamed(fs) == \E i \in 1..Len(fs) : fs[i] # <<>>
\* toy order for the model: Twin(<<k>>, <<5>>) of k = 1, 2 is 4, 3 - never another index
ToyN == <<5>>
=============================================================================
