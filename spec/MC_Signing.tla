----------------------------- MODULE MC_Signing -----------------------------
(* All action sequences up to MaxSteps on small input configurations.  Invariants: the verdict rules are consistent     *)
(* (never both), completeness after honest signing, tamper evidence, monotonicity of signing.                           *)
EXTENDS Signing, TLC
CONSTANTS MaxSteps
VARIABLES cfg, s, steps, honest
vars == <<cfg, s, steps, honest>>
Cfgs == { <<[n |-> 1, m |-> 1, segwit |-> FALSE]>>, <<[n |-> 1, m |-> 1, segwit |-> TRUE]>>,
          <<[n |-> 3, m |-> 2, segwit |-> FALSE]>>, <<[n |-> 3, m |-> 2, segwit |-> TRUE]>>,
          <<[n |-> 2, m |-> 1, segwit |-> TRUE], [n |-> 1, m |-> 1, segwit |-> FALSE]>>,
          <<[n |-> 3, m |-> 2, segwit |-> FALSE], [n |-> 1, m |-> 1, segwit |-> TRUE]>> }
KeySeqs(n) == UNION {[1..k -> 0..n] : k \in 1..2}
Actions(c) == {[op |-> "sign", j |-> j, keys |-> ks, f |-> "", pos |-> 0] : j \in 1..Len(c), ks \in KeySeqs(3)}
        \cup {[op |-> "tamper", j |-> j, keys |-> <<>>, f |-> f, pos |-> 0] : j \in 1..Len(c), f \in TamperFields}
        \cup {[op |-> o, j |-> j, keys |-> <<>>, f |-> "", pos |-> p] : o \in {"corrupt", "drop"}, j \in 1..Len(c), p \in 1..3}
        \cup {[op |-> o, j |-> j, keys |-> <<>>, f |-> "", pos |-> 0] : o \in {"foreign", "duplicate", "roundtrip"}, j \in 1..Len(c)}
Legal(c, a) == a.op # "sign" \/ \A i \in 1..Len(a.keys) : a.keys[i] <= c[a.j].n
Init == cfg \in Cfgs /\ s = InitS(cfg) /\ steps = 0 /\ honest = TRUE
Next == /\ steps < MaxSteps
        /\ \E a \in Actions(cfg) : /\ Legal(cfg, a)
                                   /\ s' = Act(cfg, s, a)
                                   /\ honest' = (honest /\ a.op \in {"sign", "roundtrip"} /\ (a.op = "sign" => \A i \in 1..Len(a.keys) : a.keys[i] # 0))
        /\ steps' = steps + 1 /\ UNCHANGED cfg
Spec == Init /\ [][Next]_vars
VerdictConsistent == ~(MustFail(cfg, s) /\ MustPass(cfg, s))
\* honestly signed with >= m distinct listed keys per input, nothing else done: must verify
Complete == (honest /\ \A j \in 1..Len(cfg) : Cardinality(s.valid[j]) >= cfg[j].m) => MustPass(cfg, s)
\* nothing signed: must fail
EmptyFails == (\A j \in 1..Len(cfg) : s.valid[j] = {}) => MustFail(cfg, s)
SigningMonotone == [][\A j \in 1..Len(cfg) : (honest' /\ honest) => s.valid[j] \subseteq s'.valid[j]]_vars
=============================================================================
