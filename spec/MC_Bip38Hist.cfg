SPECIFICATION Spec
CONSTANTS
  MaxSteps = 3
INVARIANT SpecNeverBlamed
INVARIANT SameJudge
INVARIANT OneCallIsFine
CHECK_DEADLOCK FALSE
