------------------------------ MODULE ScriptVM ------------------------------
(***************************************************************************)
(* Bitcoin script evaluation for the opcodes bitcoinlib implements,        *)
(* transcribed from the consensus interpreter (script/interpreter.cpp,     *)
(* EvalScript with the consensus flags P2SH|DERSIG|CLTV|CSV; policy-only   *)
(* flags such as MINIMALDATA, NULLDUMMY, MINIMALIF are not applied).       *)
(*                                                                         *)
(* State: [st: stack (sequence of byte sequences, top = last),             *)
(*         cond: condition stack (sequence of BOOLEAN),                    *)
(*         ok: FALSE once the script has failed]                           *)
(* One step = one script item (Step).  Exec folds Step over a program and  *)
(* applies the final success rule.                                         *)
(*                                                                         *)
(* Primitives outside TLC are "oracle facts" in the environment env:       *)
(*   env.hashes : sequence of <<name, input, output>>   (hash functions)   *)
(*   env.sigs   : sequence of <<sig, pubkey, class>>, class in             *)
(*                "valid" | "invalid" | "badder" (non-empty, not strict    *)
(*                DER: the script fails, BIP66)                            *)
(* A missing fact yields the status "need" and the harness supplies it.    *)
(*                                                                         *)
(* D is the set of *named deviations* in force.  With D = {} this is the   *)
(* consensus semantics (the property C19).  Each deviation describes what  *)
(* bitcoinlib does instead; they are used only to attribute an observed    *)
(* disagreement to an entry of known_findings.json.                        *)
(***************************************************************************)
EXTENDS Wire

Deviations == {"sub-operands-reversed", "compare-ops-not-dispatched", "within-operands", "tuck-as-over",
               "2swap-order", "pick-roll-index", "truthiness-nonempty", "numequal-bytes",
               "checkmultisig-result-handling", "csv-always-true", "cltv-deviations", "checksig-bad-encoding-fails",
               "checkmultisig-lenient"}

\* ---------------------------------------------------------------- helpers
Top(st, k) == st[Len(st) + 1 - k]                  \* k = 1: top
PopN(st, k) == SubSeq(st, 1, Len(st) - k)
BoolV(b) == IF b THEN <<1>> ELSE <<>>
\* CastToBool: false iff every byte is zero, or is a negative zero (last byte 0x80, rest zero)
CastToBool(v) == \E i \in 1..Len(v) : v[i] # 0 /\ ~(i = Len(v) /\ v[i] = 128)
Truthy(v, D) == IF "truthiness-nonempty" \in D THEN v # <<>> ELSE CastToBool(v)
IsNum(v) == Len(v) <= 4
Num(v) == NumDec(v)

Fail(s) == [s EXCEPT !.ok = FALSE]
Need(s, what) == [s EXCEPT !.ok = FALSE, !.need = what]
PushV(s, v) == [s EXCEPT !.st = Append(@, v)]
Set(s, st) == [s EXCEPT !.st = st]

RECURSIVE LookupHash(_, _, _, _)
LookupHash(tab, name, v, i) == IF i > Len(tab) THEN <<FALSE, <<>>>>
                               ELSE IF tab[i][1] = name /\ tab[i][2] = v THEN <<TRUE, tab[i][3]>>
                               ELSE LookupHash(tab, name, v, i + 1)
RECURSIVE LookupSig(_, _, _, _)
LookupSig(tab, sig, pk, i) == IF i > Len(tab) THEN "?"
                              ELSE IF tab[i][1] = sig /\ tab[i][2] = pk THEN tab[i][3]
                              ELSE LookupSig(tab, sig, pk, i + 1)
\* class of (sig, pubkey):  "valid" | "invalid" (well-formed, does not verify) | "unparsable" (empty signature, or a
\* public key that is not a curve point: consensus just answers false) | "badder" | "?" (fact missing)
SigClass(env, sig, pk) == IF sig = <<>> THEN "unparsable" ELSE LookupSig(env.sigs, sig, pk, 1)

\* opcode numbers
OP_0 == 0            OP_1NEGATE == 79     OP_1 == 81           OP_16 == 96
OP_NOP == 97         OP_IF == 99          OP_NOTIF == 100      OP_ELSE == 103       OP_ENDIF == 104
OP_VERIFY == 105     OP_RETURN == 106
OP_2DROP == 109      OP_2DUP == 110       OP_3DUP == 111       OP_2OVER == 112      OP_2ROT == 113
OP_2SWAP == 114      OP_IFDUP == 115      OP_DEPTH == 116      OP_DROP == 117       OP_DUP == 118
OP_NIP == 119        OP_OVER == 120       OP_PICK == 121       OP_ROLL == 122       OP_ROT == 123
OP_SWAP == 124       OP_TUCK == 125       OP_SIZE == 130
OP_EQUAL == 135      OP_EQUALVERIFY == 136
OP_1ADD == 139       OP_1SUB == 140       OP_NEGATE == 143     OP_ABS == 144        OP_NOT == 145
OP_0NOTEQUAL == 146  OP_ADD == 147        OP_SUB == 148
OP_BOOLAND == 154    OP_BOOLOR == 155     OP_NUMEQUAL == 156   OP_NUMEQUALVERIFY == 157
OP_NUMNOTEQUAL == 158 OP_LESSTHAN == 159  OP_GREATERTHAN == 160 OP_LESSTHANOREQUAL == 161
OP_GREATERTHANOREQUAL == 162 OP_MIN == 163 OP_MAX == 164       OP_WITHIN == 165
OP_RIPEMD160 == 166  OP_SHA1 == 167       OP_SHA256 == 168     OP_HASH160 == 169    OP_HASH256 == 170
OP_CHECKSIG == 172   OP_CHECKSIGVERIFY == 173 OP_CHECKMULTISIG == 174 OP_CHECKMULTISIGVERIFY == 175
OP_NOP1 == 176       OP_CLTV == 177       OP_CSV == 178        OP_NOP4 == 179       OP_NOP10 == 185

Implemented == {OP_0, OP_1NEGATE} \cup (OP_1..OP_16) \cup {OP_NOP, OP_IF, OP_NOTIF, OP_ELSE, OP_ENDIF, OP_VERIFY, OP_RETURN}
               \cup (OP_2DROP..OP_TUCK) \cup {OP_SIZE, OP_EQUAL, OP_EQUALVERIFY, OP_1ADD, OP_1SUB, OP_NEGATE, OP_ABS, OP_NOT,
               OP_0NOTEQUAL, OP_ADD, OP_SUB} \cup (OP_BOOLAND..OP_WITHIN) \cup (OP_RIPEMD160..OP_HASH256)
               \cup {OP_CHECKSIG, OP_CHECKSIGVERIFY, OP_CHECKMULTISIG, OP_CHECKMULTISIGVERIFY} \cup (OP_NOP1..OP_NOP10)

HashName(c) == CASE c = OP_RIPEMD160 -> "ripemd160" [] c = OP_SHA1 -> "sha1" [] c = OP_SHA256 -> "sha256"
                 [] c = OP_HASH160 -> "hash160" [] OTHER -> "hash256"

\* --------------------------------------------------- unary / binary numeric
Unary(c, a, D) ==
  CASE c = OP_1ADD -> NumEnc(a + 1)
    [] c = OP_1SUB -> NumEnc(a - 1)
    [] c = OP_NEGATE -> NumEnc(0 - a)
    [] c = OP_ABS -> NumEnc(Abs(a))
    [] c = OP_NOT -> BoolV(a = 0)
    [] OTHER -> BoolV(a # 0)                \* OP_0NOTEQUAL

\* a = second item, b = top item (for "a b OP")
Binary(c, a, b, D) ==
  CASE c = OP_ADD -> NumEnc(a + b)
    [] c = OP_SUB -> IF "sub-operands-reversed" \in D THEN NumEnc(b - a) ELSE NumEnc(a - b)
    [] c = OP_BOOLAND -> BoolV(a # 0 /\ b # 0)
    [] c = OP_BOOLOR -> BoolV(a # 0 \/ b # 0)
    [] c \in {OP_NUMEQUAL, OP_NUMEQUALVERIFY} -> BoolV(a = b)
    [] c = OP_NUMNOTEQUAL -> BoolV(a # b)
    [] c = OP_LESSTHAN -> BoolV(a < b)
    [] c = OP_GREATERTHAN -> BoolV(a > b)
    [] c = OP_LESSTHANOREQUAL -> BoolV(a <= b)
    [] c = OP_GREATERTHANOREQUAL -> BoolV(a >= b)
    [] c = OP_MIN -> NumEnc(IF a < b THEN a ELSE b)
    [] OTHER -> NumEnc(IF a > b THEN a ELSE b)     \* OP_MAX

\* -------------------------------------------------------------- multisig
\* consensus matching: signatures and keys are walked from the top of the stack downwards
\* sigs, keys: sequences in stack order (first = deepest).  Returns "true" | "false" | "fail" | "need"
RECURSIVE MatchSigs(_, _, _, _, _)
MatchSigs(env, sigs, keys, is, ik) ==
    \* is, ik: number of signatures / keys still to be matched (the top-most ones are consumed first)
    IF is = 0 THEN "true"
    ELSE IF is > ik THEN "false"
    ELSE LET cls == SigClass(env, sigs[is], keys[ik]) IN
         IF cls = "?" THEN "need"
         ELSE IF cls = "badder" THEN "fail"
         ELSE IF cls = "valid" THEN MatchSigs(env, sigs, keys, is - 1, ik - 1)
         ELSE MatchSigs(env, sigs, keys, is, ik - 1)

\* a number of up to 5 bytes: sign, whether the magnitude is >= 2^31, bit 31 of the magnitude, and the low 31 bits
Num5(v) ==
    IF Len(v) <= 4 THEN LET x == Num(v) IN [neg |-> x < 0, big |-> FALSE, bit31 |-> FALSE, low |-> Abs(x)]
    ELSE LET top == v[5] % 128                                   \* bits 32..38 of the magnitude
             b4 == v[4] IN
         [neg |-> v[5] >= 128 /\ (top # 0 \/ b4 # 0 \/ v[3] # 0 \/ v[2] # 0 \/ v[1] # 0),
          big |-> top # 0 \/ b4 >= 128, bit31 |-> b4 >= 128,
          low |-> v[1] + 256 * v[2] + 65536 * v[3] + 16777216 * (b4 % 128)]
\* ------------------------------------------------------------ lock times
\* env.locktime: Nat (< 2^31), env.seqfinal: BOOLEAN (sequence = 0xffffffff), env.version: Nat,
\* env.seqdisable: BOOLEAN (bit 31 of the sequence), env.seqtype: BOOLEAN (bit 22), env.seqval: 0..65535
Threshold == 500000000
CltvOK(env, n) == /\ n >= 0
                  /\ ((n < Threshold) = (env.locktime < Threshold))
                  /\ n <= env.locktime
                  /\ ~env.seqfinal
\* operands are < 2^31 in this model, so the disable flag (bit 31) of the operand is never set
CsvOK(env, n) == /\ n >= 0
                 /\ env.version >= 2
                 /\ ~env.seqdisable
                 /\ LET ntype == (n \div 4194304) % 2 = 1
                        nval == n % 65536 IN
                    /\ ntype = env.seqtype
                    /\ nval <= env.seqval
\* what bitcoinlib's op_checklocktimeverify does (named deviation "cltv-deviations"):
\* fails when the transaction locktime is 0, uses 50,000,000 as the height/time threshold
CltvDev(env, n) == /\ env.locktime # 0
                   /\ ~env.seqfinal
                   /\ n >= 0
                   /\ ~((n < 50000000 /\ 50000000 < env.locktime) \/ (n > 50000000 /\ 50000000 > env.locktime))
                   /\ env.locktime >= n

\* ------------------------------------------------------------------ Step
StepOp(s, c, env, D) ==
  LET st == s.st  n == Len(s.st) IN
  \* constants
  IF c = OP_0 THEN PushV(s, <<>>)
  ELSE IF c = OP_1NEGATE THEN PushV(s, <<129>>)
  ELSE IF c \in OP_1..OP_16 THEN PushV(s, <<c - 80>>)
  ELSE IF c \in {OP_NOP, OP_NOP1} \cup (OP_NOP4..OP_NOP10) THEN s
  ELSE IF c = OP_VERIFY THEN
       IF n < 1 THEN Fail(s) ELSE IF Truthy(Top(st, 1), D) THEN Set(s, PopN(st, 1)) ELSE Fail(s)
  ELSE IF c = OP_RETURN THEN Fail(s)
  \* stack manipulation
  ELSE IF c = OP_2DROP THEN IF n < 2 THEN Fail(s) ELSE Set(s, PopN(st, 2))
  ELSE IF c = OP_2DUP THEN IF n < 2 THEN Fail(s) ELSE Set(s, st \o <<Top(st, 2), Top(st, 1)>>)
  ELSE IF c = OP_3DUP THEN IF n < 3 THEN Fail(s) ELSE Set(s, st \o <<Top(st, 3), Top(st, 2), Top(st, 1)>>)
  ELSE IF c = OP_2OVER THEN IF n < 4 THEN Fail(s) ELSE Set(s, st \o <<Top(st, 4), Top(st, 3)>>)
  ELSE IF c = OP_2ROT THEN IF n < 6 THEN Fail(s)
                           ELSE Set(s, PopN(st, 6) \o <<Top(st, 4), Top(st, 3), Top(st, 2), Top(st, 1), Top(st, 6), Top(st, 5)>>)
  ELSE IF c = OP_2SWAP THEN
       IF "2swap-order" \in D
       THEN \* self[-2:-2] = [self.pop(), self.pop()]: the two top items are re-inserted, top first, in front of the
            \* last two remaining items; works (without failing) from two items on
            IF n < 2 THEN Fail(s)
            ELSE LET r == PopN(st, 2)  k == IF Len(r) >= 2 THEN Len(r) - 2 ELSE 0 IN
                 Set(s, SubSeq(r, 1, k) \o <<Top(st, 1), Top(st, 2)>> \o SubSeq(r, k + 1, Len(r)))
       ELSE IF n < 4 THEN Fail(s)
            ELSE Set(s, PopN(st, 4) \o <<Top(st, 2), Top(st, 1), Top(st, 4), Top(st, 3)>>)
  ELSE IF c = OP_IFDUP THEN IF n < 1 THEN Fail(s) ELSE IF Truthy(Top(st, 1), D) THEN PushV(s, Top(st, 1)) ELSE s
  ELSE IF c = OP_DEPTH THEN PushV(s, NumEnc(n))
  ELSE IF c = OP_DROP THEN IF n < 1 THEN Fail(s) ELSE Set(s, PopN(st, 1))
  ELSE IF c = OP_DUP THEN IF n < 1 THEN Fail(s) ELSE PushV(s, Top(st, 1))
  ELSE IF c = OP_NIP THEN IF n < 2 THEN Fail(s) ELSE Set(s, PopN(st, 2) \o <<Top(st, 1)>>)
  ELSE IF c = OP_OVER THEN IF n < 2 THEN Fail(s) ELSE PushV(s, Top(st, 2))
  ELSE IF c \in {OP_PICK, OP_ROLL} THEN
       IF n < 2 \/ ~IsNum(Top(st, 1)) THEN Fail(s)
       ELSE LET k == Num(Top(st, 1))  r == PopN(st, 1)  m == n - 1 IN
            IF "pick-roll-index" \in D
            THEN \* Python indexing r[-k]: k = 0 is the bottom item, k >= 1 counts from the top starting at 1,
                 \* negative k counts from the bottom
                 LET pos == IF k = 0 THEN 1 ELSE IF k > 0 THEN m + 1 - k ELSE 1 - k IN
                 IF pos < 1 \/ pos > m THEN Fail(s)
                 ELSE IF c = OP_PICK THEN Set(s, r \o <<r[pos]>>)
                      ELSE Set(s, SubSeq(r, 1, pos - 1) \o SubSeq(r, pos + 1, m) \o <<r[pos]>>)
            ELSE IF k < 0 \/ k >= m THEN Fail(s)
                 ELSE LET pos == m - k IN
                      IF c = OP_PICK THEN Set(s, r \o <<r[pos]>>)
                      ELSE Set(s, SubSeq(r, 1, pos - 1) \o SubSeq(r, pos + 1, m) \o <<r[pos]>>)
  ELSE IF c = OP_ROT THEN IF n < 3 THEN Fail(s) ELSE Set(s, PopN(st, 3) \o <<Top(st, 2), Top(st, 1), Top(st, 3)>>)
  ELSE IF c = OP_SWAP THEN IF n < 2 THEN Fail(s) ELSE Set(s, PopN(st, 2) \o <<Top(st, 1), Top(st, 2)>>)
  ELSE IF c = OP_TUCK THEN IF n < 2 THEN Fail(s)
                           ELSE IF "tuck-as-over" \in D THEN PushV(s, Top(st, 2))
                                ELSE Set(s, PopN(st, 2) \o <<Top(st, 1), Top(st, 2), Top(st, 1)>>)
  ELSE IF c = OP_SIZE THEN IF n < 1 THEN Fail(s) ELSE PushV(s, NumEnc(Len(Top(st, 1))))
  ELSE IF c \in {OP_EQUAL, OP_EQUALVERIFY} THEN
       IF n < 2 THEN Fail(s)
       ELSE LET eq == Top(st, 1) = Top(st, 2) IN
            IF c = OP_EQUAL THEN Set(s, PopN(st, 2) \o <<BoolV(eq)>>)
            ELSE IF eq THEN Set(s, PopN(st, 2)) ELSE Fail(s)
  \* numeric
  ELSE IF c \in {OP_1ADD, OP_1SUB, OP_NEGATE, OP_ABS, OP_NOT, OP_0NOTEQUAL} THEN
       IF n < 1 \/ ~IsNum(Top(st, 1)) THEN Fail(s)
       ELSE IF c \in {OP_NOT, OP_0NOTEQUAL} /\ "truthiness-nonempty" \in D
            THEN Set(s, PopN(st, 1) \o <<BoolV((Top(st, 1) = <<>>) = (c = OP_NOT))>>)
            ELSE Set(s, PopN(st, 1) \o <<Unary(c, Num(Top(st, 1)), D)>>)
  ELSE IF c \in {OP_ADD, OP_SUB} \cup (OP_BOOLAND..OP_MAX) THEN
       IF c \in OP_LESSTHAN..OP_GREATERTHANOREQUAL /\ "compare-ops-not-dispatched" \in D THEN Fail(s)
       ELSE IF c = OP_NUMEQUALVERIFY /\ "numequal-bytes" \in D /\ n >= 2 /\ (~IsNum(Top(st, 1)) \/ ~IsNum(Top(st, 2)))
            THEN \* the "not arithmetic" answer of op_numequal is ignored and op_verify consumes the top item
                 (IF Top(st, 1) # <<>> THEN Set(s, PopN(st, 1)) ELSE Fail(s))
       ELSE IF n < 2 \/ ~IsNum(Top(st, 1)) \/ ~IsNum(Top(st, 2)) THEN Fail(s)
       ELSE LET a == Top(st, 2)  b == Top(st, 1)
                res == IF c \in {OP_BOOLAND, OP_BOOLOR} /\ "truthiness-nonempty" \in D
                       THEN BoolV(IF c = OP_BOOLAND THEN a # <<>> /\ b # <<>> ELSE a # <<>> \/ b # <<>>)
                       ELSE IF c \in {OP_NUMEQUAL, OP_NUMEQUALVERIFY, OP_NUMNOTEQUAL} /\ "numequal-bytes" \in D
                       THEN BoolV((a = b) = (c # OP_NUMNOTEQUAL))
                       ELSE Binary(c, Num(a), Num(b), D) IN
            IF c = OP_NUMEQUALVERIFY
            THEN (IF Truthy(res, D) THEN Set(s, PopN(st, 2)) ELSE Fail(s))
            ELSE Set(s, PopN(st, 2) \o <<res>>)
  ELSE IF c = OP_WITHIN THEN
       IF n < 3 \/ ~IsNum(Top(st, 1)) \/ ~IsNum(Top(st, 2)) \/ ~IsNum(Top(st, 3)) THEN Fail(s)
       ELSE LET x == Num(Top(st, 3))  lo == Num(Top(st, 2))  hi == Num(Top(st, 1)) IN
            IF "within-operands" \in D
            THEN Set(s, PopN(st, 3) \o <<BoolV(lo <= hi /\ hi < x)>>)      \* x := top, min := second, max := third
            ELSE Set(s, PopN(st, 3) \o <<BoolV(lo <= x /\ x < hi)>>)
  \* hashes (oracle facts)
  ELSE IF c \in OP_RIPEMD160..OP_HASH256 THEN
       IF n < 1 THEN Fail(s)
       ELSE LET h == LookupHash(env.hashes, HashName(c), Top(st, 1), 1) IN
            IF h[1] THEN Set(s, PopN(st, 1) \o <<h[2]>>)
            ELSE Need(s, [kind |-> "hash", name |-> HashName(c), a |-> Top(st, 1), b |-> <<>>])
  \* signatures
  ELSE IF c \in {OP_CHECKSIG, OP_CHECKSIGVERIFY} THEN
       IF n < 2 THEN Fail(s)
       ELSE LET cls == SigClass(env, Top(st, 2), Top(st, 1)) IN
            IF cls = "?" THEN Need(s, [kind |-> "sig", name |-> "", a |-> Top(st, 2), b |-> Top(st, 1)])
            ELSE IF cls = "badder" THEN Fail(s)
            ELSE IF cls = "unparsable" /\ "checksig-bad-encoding-fails" \in D THEN Fail(s)
            ELSE IF c = OP_CHECKSIG THEN Set(s, PopN(st, 2) \o <<BoolV(cls = "valid")>>)
            ELSE IF cls = "valid" THEN Set(s, PopN(st, 2)) ELSE Fail(s)
  ELSE IF c \in {OP_CHECKMULTISIG, OP_CHECKMULTISIGVERIFY} THEN
       IF n < 1 \/ ~IsNum(Top(st, 1)) THEN Fail(s)
       ELSE LET nk == Num(Top(st, 1)) IN
       IF nk < 0 \/ nk > 20 \/ n < nk + 2 \/ ~IsNum(Top(st, nk + 2)) THEN Fail(s)
       ELSE LET ns == Num(Top(st, nk + 2)) IN
       IF ns < 0 \/ ns > nk \/ n < nk + ns + 2 THEN Fail(s)
       ELSE IF n < nk + ns + 3 /\ ~("checkmultisig-lenient" \in D) THEN Fail(s)        \* the dummy element is required
       ELSE IF ns = 0 /\ nk > 0 /\ "checkmultisig-lenient" \in D THEN Fail(s)           \* IndexError in the implementation
       ELSE LET keys == SubSeq(st, n - nk, n - 1)
                sigs == SubSeq(st, n - nk - 1 - ns, n - nk - 2)
                rest == PopN(st, IF n < nk + ns + 3 THEN nk + ns + 2 ELSE nk + ns + 3)
                res  == MatchSigs(env, sigs, keys, ns, nk) IN
            IF res = "need" THEN Need(s, [kind |-> "sigs", name |-> "", a |-> <<>>, b |-> <<>>])
            ELSE IF res = "fail" THEN Fail(s)
            ELSE IF "checkmultisig-result-handling" \in D
                 THEN \* the result is verified and consumed, then env_data['redeemscript'] is pushed (missing: KeyError)
                      IF res = "true" /\ env.hasredeem THEN Set(s, rest \o <<env.redeem>>) ELSE Fail(s)
                 ELSE IF c = OP_CHECKMULTISIG THEN Set(s, rest \o <<BoolV(res = "true")>>)
                      ELSE IF res = "true" THEN Set(s, rest) ELSE Fail(s)
  \* lock times
  \* lock-time operands are numbers of up to 5 bytes (values up to 2^39-1): Num5 decomposes them without leaving the
  \* 32-bit integer range of TLC
  ELSE IF c = OP_CLTV THEN
       IF "cltv-deviations" \in D
       THEN (IF n < 1 \/ Len(Top(st, 1)) > 4 THEN Fail(s) ELSE IF CltvDev(env, Num(Top(st, 1))) THEN s ELSE Fail(s))
       ELSE IF n < 1 \/ Len(Top(st, 1)) > 5 THEN Fail(s)
            ELSE LET v == Num5(Top(st, 1)) IN
                 \* a value >= 2^31 exceeds every transaction lock time of this model (env.locktime < 2^31)
                 IF v.neg \/ v.big THEN Fail(s)
                 ELSE IF CltvOK(env, v.low) THEN s ELSE Fail(s)
  ELSE IF c = OP_CSV THEN
       IF "csv-always-true" \in D THEN s
       ELSE IF n < 1 \/ Len(Top(st, 1)) > 5 THEN Fail(s)
            ELSE LET v == Num5(Top(st, 1)) IN
                 IF v.neg THEN Fail(s)
                 ELSE IF v.bit31 THEN s                        \* disable flag of the operand: behaves as a NOP
                 ELSE IF CsvOK(env, v.low) THEN s ELSE Fail(s)
  ELSE Fail(s)      \* not an implemented opcode

Step(s, it, env, D) ==
  IF ~s.ok THEN s
  ELSE LET exec == \A i \in 1..Len(s.cond) : s.cond[i] IN
       IF it.t = "data" THEN (IF exec THEN PushV(s, it.d) ELSE s)
       ELSE LET c == it.c IN
            IF c \in {OP_IF, OP_NOTIF} THEN
                 IF exec THEN IF Len(s.st) < 1 THEN Fail(s)
                              ELSE LET v == CastToBool(Top(s.st, 1)) IN
                                   [s EXCEPT !.st = PopN(@, 1), !.cond = Append(@, IF c = OP_IF THEN v ELSE ~v)]
                 ELSE [s EXCEPT !.cond = Append(@, FALSE)]
            ELSE IF c = OP_ELSE THEN
                 IF s.cond = <<>> THEN Fail(s) ELSE [s EXCEPT !.cond[Len(s.cond)] = ~@]
            ELSE IF c = OP_ENDIF THEN
                 IF s.cond = <<>> THEN Fail(s) ELSE [s EXCEPT !.cond = SubSeq(@, 1, Len(@) - 1)]
            ELSE IF exec THEN StepOp(s, c, env, D) ELSE s

InitVM == [st |-> <<>>, cond |-> <<>>, ok |-> TRUE, need |-> [kind |-> "", name |-> "", a |-> <<>>, b |-> <<>>]]

RECURSIVE Run(_, _, _, _, _)
Run(s, prog, i, env, D) == IF i > Len(prog) \/ ~s.ok THEN s ELSE Run(Step(s, prog[i], env, D), prog, i + 1, env, D)

\* final verdict: success iff no failure, balanced conditionals, non-empty stack with a true top element.
\* Result: [ok, stack] where stack is the stack left after evaluation (the implementation pops the top on success;
\* so does this result, to make the comparison direct)
Exec(prog, env, D) ==
  LET s == Run(InitVM, prog, 1, env, D) IN
  IF s.need.kind # "" THEN [status |-> "need", ok |-> FALSE, stack |-> <<>>, need |-> s.need]
  ELSE IF ~s.ok \/ s.cond # <<>> \/ s.st = <<>> \/ ~Truthy(Top(s.st, 1), D)
       THEN [status |-> "done", ok |-> FALSE, stack |-> <<>>, need |-> s.need]
       ELSE [status |-> "done", ok |-> TRUE, stack |-> PopN(s.st, 1), need |-> s.need]
=============================================================================
