SPECIFICATION Spec
CONSTANTS
  MaxSteps = 4
INVARIANT SpecNeverBlamed
INVARIANT SameJudge
INVARIANT OneCallIsFine
CHECK_DEADLOCK FALSE
