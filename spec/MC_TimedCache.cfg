CONSTANTS
  TtlCount = 2
  TtlFee = 3
  MaxTime = 4
  Vals = {1, 2}
SPECIFICATION Spec
INVARIANT DesignConforms
INVARIANT NeverStalerThanTtl
INVARIANT AnswersOwnQuestion
CHECK_DEADLOCK FALSE
