------------------------------ MODULE WireEval ------------------------------
(***************************************************************************)
(* Conformance binding for Wire: TLC reads records (inputs handed to the   *)
(* implementation together with what the implementation answered) and      *)
(* judges each one against the specification.  The verdict is total: it    *)
(* names the failing clause, gives the expected value, and - where the     *)
(* observed value is exactly what a *named deviation* of the spec yields - *)
(* names that deviation (used only to match entries of known_findings).    *)
(***************************************************************************)
EXTENDS Wire, Json, IOUtils, TLC

Recs == ndJsonDeserialize(IOEnv.IN_FILE)

Ok == [v |-> "ok", dev |-> "", exp |-> <<>>]
Bad(clause, dev, exp) == [v |-> clause, dev |-> dev, exp |-> exp]

\* named deviation: "<" instead of "<=" at the upper end of the 2- and 4-byte forms
DevCSWider(v) == LET t == Trim(v) IN
                 IF t = <<255, 255>> THEN CSForm(v, 4) ELSE IF t = <<255, 255, 255, 255>> THEN CSForm(v, 8) ELSE <<>>

\* named deviation: a whole script of a "blob" shape is reported as one data item
BlobShape(b) == \/ Len(b) = 64
                \/ (Len(b) = 33 /\ b[1] \in {2, 3})
                \/ (Len(b) = 65 /\ b[1] = 4)
                \/ (Len(b) \in 69..74 /\ b[1] = 48)

JItem(it) == IF it.t = "op" THEN [t |-> "op", c |-> it.c, d |-> <<>>] ELSE [t |-> "data", c |-> 0, d |-> it.d]
JItems(s) == [i \in 1..Len(s) |-> JItem(s[i])]
RECURSIVE FromJ(_)
FromJ(s) == [i \in 1..Len(s) |-> IF s[i].t = "op" THEN Op(s[i].c)
                                  ELSE IF s[i].t = "data" THEN Data(s[i].d)
                                  ELSE [t |-> "list", items |-> FromJ(s[i].items)]]

\* named deviation: a data item that is not of a "protected" shape and that itself parses as a script is reported
\* as that script (a nested list; the only item of a script is replaced by the sub-script's items)
KeyShape(d) == (Len(d) = 33 /\ d[1] \in {2, 3}) \/ (Len(d) = 65 /\ d[1] = 4)
SigShape(d) == Len(d) \in 69..74 /\ d[1] = 48
Protected(d) == Len(d) \in {1, 2, 3, 4, 20, 32, 64} \/ KeyShape(d) \/ SigShape(d)
SubParse(d) == ParseScriptG(d, FALSE)      \* the implementation has no OP_PUSHDATA4: inside a sub-script 78 is an opcode
\* the documented strict mode may refuse a script "not understood"; the only such refusal accepted here is for a
\* script containing a signature-shaped push (length 69..74, first byte 30) that need not be a DER signature
SigShapedPushIn(b) == \E i \in 1..(Len(b) - 1) : b[i] \in 69..74 /\ b[i + 1] = 48
Eligible(items, i, strict) ==
    /\ items[i].t = "data" /\ ~Protected(items[i].d)
    /\ ~(i >= 2 /\ items[i - 1] = Op(106))
    \* (whether the implementation's own sub-parse succeeds is its business: where it keeps the item, obs[i] = items[i])
\* obs: items reported by the implementation.  The deviation covers exactly the eligible positions: every other
\* position must be as specified; what the eligible item is replaced by (the sub-script, itself subject to the
\* implementation's inner quirks) is not prescribed.
SubScriptDev(obs, items, strict) ==
    IF Len(items) = 1 THEN Eligible(items, 1, strict)
    ELSE /\ Len(obs) = Len(items)
         /\ \A i \in 1..Len(items) :
              \/ obs[i] = items[i]
              \/ (Eligible(items, i, strict) /\ obs[i].t = "list")

Judge(r) ==
  CASE r.k = "cs_enc" ->
         IF r.got = CSEnc(r.v) THEN Ok
         ELSE Bad("compactsize-encode", IF r.got = DevCSWider(r.v) THEN "compactsize-wider-at-ffff" ELSE "", CSEnc(r.v))
    [] r.k = "cs_dec" ->       \* r.b: bytes handed to the decoder; r.v, r.n: value and consumed length it reported
         LET d == CSDec(r.b) IN
         IF d.ok /\ Trim(r.v) = d.v /\ r.n = d.n THEN Ok ELSE Bad("compactsize-decode", "", <<d.v, <<d.n>>>>)
    [] r.k = "cs_valid" ->     \* r.got: encoding produced by the implementation for value r.v (code -> spec)
         LET d == CSDec(r.got) IN
         IF ~(d.ok /\ d.v = Trim(r.v) /\ d.n = Len(r.got)) THEN Bad("compactsize-not-decodable-to-value", "", CSEnc(r.v))
         ELSE IF ~CSCanonical(r.got) THEN
              Bad("compactsize-not-shortest", IF r.got = DevCSWider(r.v) THEN "compactsize-wider-at-ffff" ELSE "", CSEnc(r.v))
         ELSE Ok
    [] r.k = "varstr" ->       \* r.d: string, r.got: length-prefixed string
         IF r.got = VarStr(r.d) THEN Ok
         ELSE Bad("varstr", IF r.d = <<0>> /\ r.got = <<0>> THEN "varstr-single-zero-byte"
                            ELSE IF DevCSWider(LenLE(r.d)) # <<>> /\ r.got = DevCSWider(LenLE(r.d)) \o r.d
                                 THEN "compactsize-wider-at-ffff" ELSE "", VarStr(r.d))
    [] r.k = "num_enc" ->
         IF r.got = NumEnc(r.i) THEN Ok ELSE Bad("scriptnum-encode", "", NumEnc(r.i))
    [] r.k = "num_dec" ->
         IF r.got = NumDec(r.b) THEN Ok ELSE Bad("scriptnum-decode", "", <<NumDec(r.b)>>)
    [] r.k = "push" ->         \* r.n: length of the data item, r.got: the prefix the implementation put before it
         IF r.got = PushPrefix(r.n) THEN Ok ELSE Bad("push-prefix", "", PushPrefix(r.n))
    [] r.k = "ser" ->          \* r.items serialized by the implementation to r.got
         LET s == FromJ(r.items) IN
         IF r.got = SerScript(s) THEN Ok ELSE Bad("script-serialize", "", SerScript(s))
    [] r.k = "parse" ->        \* r.b parsed by the implementation to r.items, re-serialized to r.ser
         LET p == ParseScript(r.b) IN
         IF ~p.ok THEN Bad("spec-cannot-parse", "", <<>>)
         \* (a whole script of blob shape is taken for a signature / key: in strict mode it is then refused as a malformed one -
         \* the same named deviation as reporting it as one data item)
         ELSE IF r.strict_refused /\ ~SigShapedPushIn(r.b)
              THEN Bad("strict-parse-refused-wellformed-script", IF BlobShape(r.b) THEN "script-blob-heuristic" ELSE "", JItems(p.items))
         ELSE IF FromJ(r.items) = p.items /\ r.ser = r.b THEN Ok
         ELSE Bad(IF FromJ(r.items) # p.items THEN "script-parse-items" ELSE "script-reserialize",
                  IF BlobShape(r.b) /\ FromJ(r.items) = <<Data(r.b)>> THEN "script-blob-heuristic"
                  ELSE IF SubScriptDev(FromJ(r.items), p.items, ~r.strict_refused) THEN "script-data-reparsed-as-subscript" ELSE "",
                  JItems(p.items))
    [] r.k = "gen_ser" ->      \* (G) expected serialization of r.items
         [v |-> "ok", dev |-> "", exp |-> SerScript(FromJ(r.items))]
    [] OTHER -> Bad("unknown-record-kind", "", <<>>)

Out == [i \in 1..Len(Recs) |-> Judge(Recs[i])]
ASSUME ndJsonSerialize(IOEnv.OUT_FILE, Out)
=============================================================================
