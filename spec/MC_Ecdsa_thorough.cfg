SPECIFICATION Spec
CONSTANTS
  P = 79
  Q = 67
  Gx = 1
  Gy = 18
  Tab <- Tab79
  KeySeq <- MCKeys3
  DigestSeq <- MCDigests3
  NRandom = 3
  ExplicitK = {1, 2}
  HashTypes = {1, 131}
  SignHashTypes = {1, 131}
  VerifyDigests = {5, 0, 66}
  MaxEvents = 2
INVARIANT SpecSignerNeverBlamed
INVARIANT JudgeExact
INVARIANT NoKeyLeak
INVARIANT PubKeyExact
INVARIANT DerRoundTrip
INVARIANT DerClasses
INVARIANT VerdictExact
INVARIANT ReducingVerifierCaught
INVARIANT TwinVerifies
CHECK_DEADLOCK FALSE
