--------------------------- MODULE TimedCacheEval ---------------------------
(* (V) trace validation for TimedCache: one record = one history of blockcount() / estimatefee() calls against a real    *)
(* Service with a sqlite cache, a scripted provider and a VIRTUAL clock (the harness replaces the time sources the       *)
(* service layer reads).  TLC carries the set of specification states consistent with the prefix; the verdict names     *)
(* every event no specification behaviour explains and why, and goes on from the state the clock alone implies.          *)
EXTENDS TimedCache, Json, IOUtils, TLC
Recs == ndJsonDeserialize(IOEnv.IN_FILE)

RECURSIVE Run(_, _, _, _)
Run(S, evs, i, issues) ==
    IF i > Len(evs) THEN issues
    ELSE LET e == evs[i]
             N == UNION {Succ(s, e) : s \in S}
         IN IF N # {} THEN Run(N, evs, i + 1, issues)
            ELSE LET all == [now |-> (CHOOSE s \in S : TRUE).now, seen |-> UNION {s.seen : s \in S}]
                     why == Why(all, e)
                     \* go on: the clock moves, and an answer a provider gave now is on record
                     G == {IF e.ok /\ e.asked /\ e.prov = "ok"
                           THEN [s EXCEPT !.now = @ + e.dt, !.seen = @ \cup {[x |-> e.x, t |-> s.now + e.dt, v |-> e.pval]}]
                           ELSE [s EXCEPT !.now = @ + e.dt] : s \in S}
                 IN Run(G, evs, i + 1, Append(issues, [at |-> i, why |-> why]))
Out == [k \in 1..Len(Recs) |-> [issues |-> Run({InitState}, Recs[k].events, 1, <<>>)]]
ASSUME ndJsonSerialize(IOEnv.OUT_FILE, Out)
=============================================================================
