SPECIFICATION Spec
CONSTANTS
  Has <- ToyHas
  Val <- ToyVal
  Keys <- MCKeys
  Nets = {"bitcoin", "litecoin", "testnet", "dogecoin"}
  PWs <- MCPWsThorough
  Pool <- MCPool
  LotSeqs <- MCLotSeqsThorough
  MaxGen = 2
INVARIANT RoundTrip
INVARIANT WrongPassFails
INVARIANT Fresh
INVARIANT ExplicitHonoured
INVARIANT TokenShape
CHECK_DEADLOCK FALSE
