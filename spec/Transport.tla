------------------------------ MODULE Transport ------------------------------
(***************************************************************************)
(* What counts as "a provider answered" one level below ServiceFailover:   *)
(* the HTTP exchange of BaseClient.request and the client code that reads  *)
(* the body.  C20: "providers that raise, time out or answer empty are     *)
(* skipped"; ServiceFailover.tla takes the kind of each provider's         *)
(* response as given - this module says which exchanges are of which kind. *)
(*                                                                         *)
(* An exchange is [fault, status, body]: fault is "" or a transport fault  *)
(* (no HTTP response at all); body is how the payload relates to the       *)
(* question asked.                                                         *)
(***************************************************************************)
EXTENDS Naturals, FiniteSets

Statuses == {200, 201, 202, 203, 204, 205, 206, 301, 302, 304, 400, 401, 403, 404, 429, 500, 502, 503}
Faults == {"timeout", "connection-error", "ssl-error", "too-many-redirects"}
Bodies == {"valid",          \* the payload a healthy provider sends for this question
           "empty",          \* zero bytes
           "garbage",        \* not JSON (an HTML error page)
           "null",           \* the JSON value null
           "error-object"}   \* a JSON object that reports an error instead of the data

Exchanges == [fault : {""}, status : Statuses, body : Bodies] \cup [fault : Faults, status : {0}, body : {"empty"}]

\* "success" of an exchange is exactly: a response arrived, with status 200 (OK) or 201 (Created)
Delivered(x) == x.fault = "" /\ x.status \in {200, 201}
\* the provider answered the question
Answers(x) == Delivered(x) /\ x.body = "valid"

\* Kinds of ServiceFailover!Resp an exchange may appear as.  An exchange that was not delivered is an error of that
\* provider ("raise": counted against max_errors).  A delivered exchange without content - zero bytes, or the JSON value
\* null - is a provider that "answers empty": skipped; whether the client code notices by an exception that is counted
\* ("raise"), by one that is not ("raiseattr") or by an empty result ("false") is left open.  A delivered exchange with
\* content that is not the data asked for (an error page, an error object) is "malformed": the statement of C20 lets it
\* be treated as a failure in one of these three ways or be handed on exactly as the provider sent it ("ok" with the
\* payload as value) - what it excludes is a third outcome: a query that fails although a provider answers, or data that
\* no provider sent.
Emptyish(x) == Delivered(x) /\ x.body \in {"empty", "null"}
Malformed(x) == Delivered(x) /\ x.body \in {"garbage", "error-object"}
Kinds(x) == IF Answers(x) THEN {"ok"}
            ELSE IF ~Delivered(x) THEN {"raise"}
            ELSE IF Emptyish(x) THEN {"raise", "raiseattr", "false"}
            ELSE {"raise", "raiseattr", "false", "ok"}
Realizations(k) == {x \in Exchanges : k \in Kinds(x)}
Exact(x) == Cardinality(Kinds(x)) = 1
=============================================================================
