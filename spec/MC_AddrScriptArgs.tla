-------------------------- MODULE MC_AddrScriptArgs --------------------------
(***************************************************************************)
(* Bounded model of the argument space: every abstract call x every base   *)
(* destination type.  One step (Resolve) computes the candidate set.       *)
(***************************************************************************)
EXTENDS AddrScriptArgs, TLC
VARIABLES c, d0, phase, cands
vars == <<c, d0, phase, cands>>
P(n, t) == [i \in 1..n |-> (i * t + n) % 256]
Bases == {PKH(P(20, 7)), SH(P(20, 7)), Wit(0, P(20, 7)), Wit(0, P(32, 7)), Wit(1, P(32, 7)), Wit(5, P(32, 7)), Wit(2, P(20, 7))}
D1(d) == [d EXCEPT !.p = P(Len(d.p), 11)]
K1 == P(20, 13)
G(cc, dd, dfor) == ArgConcrete(cc, dd, D1(dd), dfor, K1)
Init == c \in ArgCalls /\ d0 \in Bases /\ ArgApplies(c, d0) /\ phase = "call" /\ cands = {}
Resolve == phase = "call" /\ cands' = ArgCands(G(c, d0, NoDest)) /\ phase' = "resolved" /\ UNCHANGED <<c, d0>>
Next == Resolve
Spec == Init /\ [][Next]_vars
NoOther == ArgOthers(c) = 0
\* arguments that all agree with d0 leave d0 as a candidate; a full source (address, script) leaves nothing else
AgreeingKeepsBase == (phase = "resolved" /\ NoOther) => d0 \in cands
FullSourceDecides == (phase = "resolved" /\ NoOther /\ (c.addr # "none" \/ c.lock # "none")) => cands = {d0}
\* every candidate agrees with every argument, in particular nothing but the named payloads is ever paid
CandidatesNamed == phase = "resolved" => \A d \in cands : d.p \in ArgPayloads(G(c, d0, NoDest)) /\ ValidDest(d)
\* an argument that names something else excludes the base destination
OtherExcludesBase == (phase = "resolved" /\ ~NoOther) => d0 \notin cands
\* an address that is not one of the network named must be refused, whatever else is given; shared prefixes are fine
ForeignRefused == c.addr = "foreign" => ArgMustRefuse(G(c, d0, NoDest)) /\ ~ArgMustRefuse(G(c, d0, d0))
\* type + payload (hash or key) decide without any full source
TypedHashDecides == (phase = "resolved" /\ NoOther /\ c.st = "match" /\ (c.hash = "match" \/ c.key = "match")
                     /\ (d0.k = "wit" /\ d0.v >= 1 => c.wv = "match")) => cands = {d0}
\* witness_type never decides: the candidates are the same whatever hint is given
HintIsNoSource == phase = "resolved" => cands = ArgCands(G([c EXCEPT !.wt = "none"], d0, NoDest))
=============================================================================
