--------------------------- MODULE WalletKeysEval ---------------------------
(***************************************************************************)
(* Conformance binding of C09.  Two kinds of records:                      *)
(*                                                                         *)
(*  trace  the history of one wallet database: its configuration, every    *)
(*         call (new_key(s), new_key_change, get_key(s), key_for_path,     *)
(*         new_account, funds arriving at a key, close + reopen) with the  *)
(*         keys it handed out (position fields and path text) and, after   *)
(*         it, the address keys the wallet lists; at the end the complete  *)
(*         key table (every level of the tree: id, parent, path, address,  *)
(*         public key) and the tables of wallets restored from the same    *)
(*         seed / mnemonic / master key or from an account public key.     *)
(*         TLC folds WalletKeys over the history: index bookkeeping,       *)
(*         documented path of every key, refusals, distinct addresses,     *)
(*         tree shape, restored wallets list identical addresses.          *)
(*         For a multisig wallet the key tables of its cosigner wallets:   *)
(*         tree shape, documented path (BIP45 / BIP48) of every key, every *)
(*         position of the multisig wallet present.                        *)
(*  object what a caller's key object says about itself before and after  *)
(*         it was used (wallets created from it, exports, histories).      *)
(*  restore the key table of a wallet and the tables of the wallets        *)
(*         restored from its material (for conforming histories).          *)
(*  key    one key of such a table with the key it hangs under: TLC        *)
(*         decides with the operators of Bip32 (CKDpriv / CKDpub, master   *)
(*         key generation) whether its private key, public key, chain      *)
(*         code, depth, fingerprint and child number are what BIP32        *)
(*         defines for the last element of its path, and whether its       *)
(*         address is the P2PKH / P2SH-P2WPKH / P2WPKH address of that     *)
(*         public key in its network (prefix table of AddrScript).  By     *)
(*         induction over the tree (the trace record checks that every     *)
(*         path is the parent's path plus one element, down from m) every  *)
(*         key is the BIP32 derivation of its documented path.             *)
(*         Primitives are oracle facts exactly as in Bip32Eval.            *)
(***************************************************************************)
EXTENDS WalletKeys, Bytes, Json, IOUtils, TLC

Recs == ndJsonDeserialize(IOEnv.IN_FILE)

Secp256k1N == <<255, 255, 255, 255, 255, 255, 255, 255, 255, 255, 255, 255, 255, 255, 255, 254,
                186, 174, 220, 230, 175, 72, 160, 59, 191, 210, 94, 140, 208, 54, 65, 65>>
FactHas(F, q) == \E i \in 1..Len(F) : F[i].f = q.f /\ F[i].a = q.a
FactVal(F, q) == F[CHOOSE i \in 1..Len(F) : F[i].f = q.f /\ F[i].a = q.a].o
B == INSTANCE Bip32 WITH Has <- FactHas, Val <- FactVal, OrderN <- Secp256k1N, W <- 32
A == INSTANCE AddrScript

\* devs: the named deviations that explain the disagreement exactly (<<>>: none - a violation)
Verdict(v, devs, at, exp) == [v |-> v, dev |-> IF devs = <<>> THEN "" ELSE devs[1], devs |-> devs, at |-> at, exp |-> exp, need |-> <<>>]
Good == Verdict("ok", <<>>, 0, <<>>)
Ask(qs) == [v |-> "need", dev |-> "", devs |-> <<>>, at |-> 0, exp |-> <<>>, need |-> qs]

(* =============================== trace ==================================== *)
PosObs(o) == [net |-> o.net, wt |-> o.wt, acct |-> o.acct, ch |-> o.ch, idx |-> o.idx]
Cfg(c) == [net |-> c.net, wt |-> c.wt, acct |-> c.acct, ms |-> c.ms, cos |-> c.cos, watch |-> c.watch, kwt |-> c.kwt]
Req(a) == [op |-> a.op, net |-> a.net, wt |-> a.wt, acct |-> a.acct, ch |-> a.ch, n |-> a.n, idx |-> a.idx, form |-> a.form, acctin |-> a.acctin]
LeafPos(l) == [net |-> l[1], wt |-> l[2], acct |-> l[3], ch |-> l[4], idx |-> l[5]]
\* rows the wallet lists: <<net, wt, acct, change (-1: none), index, used (0 | 1), depth>>; the address keys are those at key depth
Leafs(cfg, ls) == SelectSeq(ls, LAMBDA l : l[7] = KeyDepth(cfg.ms, l[2]))
LeafSet(ls) == {LeafPos(ls[i]) : i \in 1..Len(ls)}
UsedSet(ls) == {LeafPos(ls[i]) : i \in {j \in 1..Len(ls) : ls[j][6] = 1}}
Flat(p) == <<p.net, p.wt, p.acct, p.ch, p.idx>>
FlatSeq(q) == [i \in 1..Len(q) |-> Flat(q[i])]

\* positions a deterministic request must hand out (shown with a verdict)
Expected(s, a) ==
    LET c == ChainA(a) IN
    CASE a.op = "key_for_path" -> [k \in 1..a.n |-> Flat(Pos(c, a.idx + k - 1))]
      [] a.op = "new_keys" -> [k \in 1..a.n |-> Flat(Pos(c, MaxOf(NextSet(s, c)) + k - 1))]
      [] OTHER -> <<>>

OutPathsWhy(cfg, a, e) ==
    IF a.op \in {"new_account", "export"}
    THEN (IF TextTokens(e.out[1].path) # (IF cfg.watch THEN <<UpperM>> ELSE AcctTokens(cfg, Acct(a.net, a.wt, e.out[1].acct)))
          THEN "account-key-path-differs-from-documented-path" ELSE "ok")
    ELSE IF \E k \in 1..Len(e.out) : TextTokens(e.out[k].path) # PosTokens(cfg, PosObs(e.out[k])) THEN "path-differs-from-documented-path"
    ELSE "ok"

\* the position a key's path text denotes (change and index: its last two elements)
PathPos(o) == LET toks == TextTokens(o.path)  n == Len(toks) IN
              IF n >= 3 /\ IsDec(toks[n]) /\ IsDec(toks[n - 1]) THEN [PosObs(o) EXCEPT !.ch = DecVal(toks[n - 1]), !.idx = DecVal(toks[n])]
              ELSE PosObs(o)
\* DevMsColumns explains a disallowed answer: the keys are at the paths of an allowed answer, and exactly the newly created
\* ones carry the change / index arguments of the call in their columns
MsColumnsExplain(cfg, s, a, e) ==
    LET out   == [k \in 1..Len(e.out) |-> PosObs(e.out[k])]
        outp  == [k \in 1..Len(e.out) |-> PathPos(e.out[k])]
        wrong == {k \in 1..Len(out) : out[k] # outp[k]}
        new   == SelectSeq(outp, LAMBDA p : p \notin s.keys)
        chArg == IF a.op = "key_for_path" /\ a.form = "path" THEN 0 ELSE a.ch
        ixArg == IF a.op = "key_for_path" THEN (IF a.form = "path" THEN 0 ELSE a.idx) ELSE IF new = <<>> THEN 0 ELSE new[1].idx
    IN /\ cfg.ms /\ a.op \in {"new_keys", "get_keys", "key_for_path"}
       /\ (a.n > 1 \/ (a.op = "key_for_path" /\ a.form = "path"))
       /\ wrong # {}
       /\ \A k \in wrong : out[k].ch = chArg /\ out[k].idx = ixArg /\ outp[k] \notin s.keys
       /\ \A k \in 1..Len(outp) : TextTokens(e.out[k].path) = PosTokens(cfg, outp[k])
       /\ Allowed(cfg, s, a, outp) = "ok"
MsForeignExplain(cfg, s, a, out) ==
    /\ cfg.ms /\ (a.net # cfg.net \/ a.wt # cfg.wt) /\ KnownNet(a.net) /\ NetHasWt(a.net, a.wt)
    /\ a.op \in {"new_keys", "get_keys", "key_for_path"}
    /\ Allowed(cfg, s, a, out) = "ok"

\* DevWatchAcct: the answer is the own account's chain from index 0 (key_for_path: from the index asked for), whatever
\* account label the keys carry
WatchAcctExplain(cfg, s, a, out) ==
    /\ cfg.watch /\ ~cfg.ms /\ a.net = cfg.net /\ a.wt = cfg.wt /\ a.acct # cfg.acct
    /\ a.op \in {"new_keys", "get_keys", "key_for_path"} /\ Len(out) = a.n
    /\ \A k \in 1..Len(out) : [out[k] EXCEPT !.acct = cfg.acct]
                                = Pos(Chain(cfg.net, cfg.wt, cfg.acct, a.ch), (IF a.op = "key_for_path" THEN a.idx ELSE 0) + k - 1)
\* DevClashServed: apart from the coin type being taken the request is servable and the answer is the allowed one
ClashExplain(cfg, s, a, out) ==
    /\ ~cfg.watch /\ ~cfg.ms /\ a.op \in {"key_for_path", "new_keys", "get_keys"} /\ CoinClash(s, a.net) /\ KnownNet(a.net) /\ NetHasWt(a.net, a.wt)
    /\ Allowed(cfg, s, a, out) = "ok"
\* DevPathAcct: the keys are those of the position asked for (path text), stored under the default account
PathAcctExplain(cfg, s, a, e, out) ==
    LET fixed == [k \in 1..Len(out) |-> [out[k] EXCEPT !.acct = a.acct]] IN
    /\ ~cfg.watch /\ ~cfg.ms /\ a.acctin = "path" /\ a.net = cfg.net /\ a.acct # s.dflt
    /\ a.op \in {"key_for_path", "export"} /\ Len(out) >= 1
    \* keys that existed are handed out as they are; every key the call created carries the default account
    /\ \A k \in 1..Len(out) : out[k].acct = a.acct \/ (out[k].acct = s.dflt /\ (a.op = "export" \/ fixed[k] \notin s.keys))
    /\ \E k \in 1..Len(out) : out[k].acct # a.acct
    /\ (s.dflt = 0 => a.n > 1 /\ out[1].acct = a.acct)        \* default account 0: only the later keys of a bulk call
    /\ Allowed(cfg, s, a, fixed) = "ok"
    /\ IF a.op = "export" THEN TextTokens(e.out[1].path) = AcctTokens(cfg, Acct(a.net, a.wt, a.acct))
       ELSE \A k \in 1..Len(out) : TextTokens(e.out[k].path) = PosTokens(cfg, fixed[k])
RefusalDevs(cfg, s, a, out) == IF MsForeignExplain(cfg, s, a, out) THEN <<DevMsForeign>>
                               ELSE IF WatchAcctExplain(cfg, s, a, out) THEN <<DevWatchAcct>>
                               ELSE IF ClashExplain(cfg, s, a, out) THEN <<DevClashServed>>
                               ELSE <<>>

RECURSIVE Fold(_, _, _, _)
Fold(cfg, s, evs, i) ==
    IF i > Len(evs) THEN [v |-> "ok", at |-> 0, s |-> s, exp |-> <<>>, devs |-> <<>>]
    ELSE LET e   == evs[i]
             a   == Req(e.a)
             out == IF a.op \in {"new_account", "export"} /\ Len(e.out) = 1
                    THEN <<[net |-> e.out[1].net, wt |-> e.out[1].wt, acct |-> e.out[1].acct, ch |-> 0, idx |-> 0]>>
                    ELSE [k \in 1..Len(e.out) |-> PosObs(e.out[k])]
             bad(c, x) == [v |-> c, at |-> i, s |-> s, exp |-> x, devs |-> <<>>]
             lf  == Leafs(cfg, e.leafs)
             obs(s2) == IF LeafSet(lf) # s2.keys THEN "wallet-lists-other-address-keys-than-were-issued"
                        ELSE IF Len(lf) # Cardinality(s2.keys) THEN "wallet-lists-a-position-twice"
                        ELSE IF UsedSet(lf) # s2.used THEN "used-flags-differ"
                        ELSE "ok"
         IN IF ~e.ok
            THEN (IF ~(MustRefuse(cfg, s, a) \/ MayRefuse(cfg, s, a)) THEN bad("refused-a-valid-request", Expected(s, a))
                  ELSE IF obs(s) # "ok" THEN bad(obs(s), FlatSeq(<<>>))
                  ELSE Fold(cfg, s, evs, i + 1))
            ELSE IF MustRefuse(cfg, s, a)
                 THEN [bad("answered-a-request-it-cannot-serve", FlatSeq(out)) EXCEPT !.devs = RefusalDevs(cfg, s, a, out)]
            ELSE LET why == Allowed(cfg, s, a, out) IN
                 IF why # "ok" THEN [bad(why, Expected(s, a)) EXCEPT !.devs = IF PathAcctExplain(cfg, s, a, e, out) THEN <<DevPathAcct>>
                                                                                  ELSE IF MsColumnsExplain(cfg, s, a, e) THEN <<DevMsColumns>>
                                                                                  ELSE Attribution(cfg, s, a, out)]
                 ELSE IF OutPathsWhy(cfg, a, e) # "ok" THEN bad(OutPathsWhy(cfg, a, e), Expected(s, a))
                 ELSE LET s2 == After(cfg, s, a, out) IN
                      IF obs(s2) # "ok" THEN bad(obs(s2), <<>>) ELSE Fold(cfg, s2, evs, i + 1)

\* ---- the key table at the end
RowPos(k) == [net |-> k.net, wt |-> k.wt, acct |-> k.acct, ch |-> k.ch, idx |-> k.idx]
RowById(T, id) == T[CHOOSE i \in 1..Len(T) : T[i].id = id]
IsLeaf(cfg, k) == k.depth = KeyDepth(cfg.ms, k.wt)
HasId(T, id) == \E i \in 1..Len(T) : T[i].id = id
TreeWhy(cfg, T, i) ==
    LET k    == T[i]
        toks == TextTokens(k.path)
        base == IF cfg.watch THEN PubMasterDepth(cfg.ms, cfg.wt) ELSE 0
        kc   == [cfg EXCEPT !.cos = k.cos]          \* BIP45: the cosigner index is part of the path, stored with the key
    IN IF k.kt = "multisig"                         \* the script keys of a multisig wallet: no tree, the path of the own cosigner
       THEN (IF ~cfg.ms THEN "multisig-key-in-a-single-signature-wallet"
             ELSE IF k.depth # KeyDepth(TRUE, k.wt) THEN "depth-differs-from-path-length"
             ELSE IF toks # PosTokens(cfg, RowPos(k)) THEN "path-differs-from-documented-path"
             ELSE IF k.purpose # Purpose(k.wt, TRUE) THEN "stored-purpose-differs-from-witness-type"
             ELSE "ok")
       ELSE IF k.depth # base + Len(toks) - 1 THEN "depth-differs-from-path-length"
       ELSE IF k.parent = 0 THEN (IF toks # <<IF cfg.watch THEN UpperM ELSE LowerM>> THEN "root-key-path" ELSE "ok")
       ELSE IF ~HasId(T, k.parent) THEN "parent-key-missing"
       ELSE LET par == RowById(T, k.parent) IN
            IF Len(toks) < 2 \/ SubSeq(toks, 1, Len(toks) - 1) # TextTokens(par.path) THEN "path-is-not-parent-path-plus-one-element"
            ELSE IF k.net # par.net /\ par.depth >= 2 THEN "network-differs-from-parent"
            ELSE IF IsLeaf(cfg, k) /\ toks # PosTokens(kc, RowPos(k)) THEN "path-differs-from-documented-path"
            ELSE IF ~cfg.watch /\ k.depth = PubMasterDepth(cfg.ms, k.wt) /\ toks # AcctTokens(kc, Acct(k.net, k.wt, k.acct))
                 THEN "account-key-path-differs-from-documented-path"
            \* the key of a chain (one level above the address keys): its stored account and change flag are those of its path
            ELSE IF k.depth = KeyDepth(cfg.ms, k.wt) - 1 /\ k.depth > base /\ k.ch >= 0
                    /\ toks # SubSeq(PosTokens(kc, [RowPos(k) EXCEPT !.idx = 0]), 1, Len(toks))
                 THEN "chain-key-path-differs-from-its-stored-account-and-change"
            \* the stored purpose is the one of the key's witness type
            ELSE IF k.depth >= base + 1 /\ k.purpose # Purpose(k.wt, cfg.ms) THEN "stored-purpose-differs-from-witness-type"
            ELSE "ok"
FirstBad(n, Why(_)) == IF \E i \in 1..n : Why(i) # "ok" THEN CHOOSE i \in 1..n : Why(i) # "ok" /\ \A j \in 1..(i - 1) : Why(j) = "ok" ELSE 0

LeafRows(cfg, T) == {i \in 1..Len(T) : IsLeaf(cfg, T[i])}
\* ---- restored wallets: identical address (and public key) at every position
RestoredWhy(cfg, T, R) ==
    LET rc   == IF R.kind = "xpub" THEN [cfg EXCEPT !.watch = TRUE] ELSE cfg
        mine == {i \in LeafRows(cfg, T) : R.kind # "xpub" \/ (T[i].net = R.net /\ T[i].wt = R.wt /\ T[i].acct = R.acct)}
        \* a wallet made from an account public key does not know the number of its account: it is compared by
        \* (change, index) under the account the key was exported for
        rpos(x) == IF R.kind = "xpub" THEN [net |-> x.net, wt |-> x.wt, acct |-> R.acct, ch |-> x.ch, idx |-> x.idx] ELSE PosObs(x)
        rk == [j \in 1..Len(R.keys) |-> [R.keys[j] EXCEPT !.acct = rpos(R.keys[j]).acct]]
        at(p) == {j \in 1..Len(rk) : PosObs(rk[j]) = p}
    IN IF \E i \in mine : at(RowPos(T[i])) = {} THEN "restored-wallet-misses-a-position"
       ELSE IF \E i \in mine : \E j \in at(RowPos(T[i])) : rk[j].addr # T[i].addr THEN "restored-wallet-address-differs"
       ELSE IF \E i \in mine : \E j \in at(RowPos(T[i])) : rk[j].P # T[i].P THEN "restored-wallet-public-key-differs"
       ELSE IF \E j \in 1..Len(rk) : TextTokens(rk[j].path) # PosTokens(rc, PosObs(rk[j]))
            THEN "restored-wallet-path-differs-from-documented-path"
       ELSE "ok"

\* ---- the cosigner wallets of a multisig wallet: each a tree of its own (from the cosigner's master key, or from the
\* account public key that was given); for every position of the multisig wallet it holds the key at the documented path
CoTreeWhy(mcfg, C, want) ==
    LET cfg  == [mcfg EXCEPT !.watch = C.watch]
        T    == C.keys
        tb   == FirstBad(Len(T), LAMBDA i : TreeWhy(cfg, T, i))
        \* (BIP45: the cosigner index of the multisig wallet is part of the path)
        have == {RowPos(T[i]) : i \in {j \in LeafRows(cfg, T) : cfg.wt = "legacy" => T[j].cos = cfg.cos}}
    IN IF tb # 0 THEN "cosigner-wallet: " \o TreeWhy(cfg, T, tb)
       ELSE IF ~(want \subseteq have) THEN "cosigner-wallet-misses-a-position-of-the-multisig-wallet"
       ELSE IF \E i, j \in 1..Len(T) : i < j /\ T[i].P = T[j].P THEN "cosigner-wallet-holds-a-key-twice"
       ELSE "ok"

JTrace(r) ==
    LET cfg == Cfg(r.cfg)
        f   == Fold(cfg, InitS(cfg), r.events, 1)
        T   == r.keys
        tb  == FirstBad(Len(T), LAMBDA i : TreeWhy(cfg, T, i))
        rb  == FirstBad(Len(r.restored), LAMBDA i : RestoredWhy(cfg, T, r.restored[i]))
        \* the table is the closure of what was asked for: an account key belongs to an account of the state, a chain key
        \* has an address key of the state below it
        Stray(k) == /\ k.kt # "multisig" /\ ~cfg.ms
                    /\ \/ (~cfg.watch /\ k.depth = PubMasterDepth(FALSE, k.wt) /\ Acct(k.net, k.wt, k.acct) \notin f.s.accts)
                       \/ (k.depth = KeyDepth(FALSE, k.wt) - 1 /\ k.ch >= 0
                           /\ ~\E p \in f.s.keys : p.net = k.net /\ p.wt = k.wt /\ p.acct = k.acct /\ p.ch = k.ch)
        sb  == FirstBad(Len(T), LAMBDA i : IF Stray(T[i]) THEN "stray" ELSE "ok")
        cb  == FirstBad(Len(r.cotrees), LAMBDA i : CoTreeWhy(cfg, r.cotrees[i], f.s.keys))
    IN IF f.v # "ok" THEN Verdict(f.v, f.devs, f.at, f.exp)
       ELSE IF {RowPos(T[i]) : i \in LeafRows(cfg, T)} # f.s.keys \/ Cardinality(LeafRows(cfg, T)) # Cardinality(f.s.keys)
            THEN Verdict("key-table-differs-from-issued-positions", <<>>, 0, <<>>)
       ELSE IF tb # 0 THEN Verdict(TreeWhy(cfg, T, tb), <<>>, T[tb].id, <<>>)
       ELSE IF sb # 0 THEN Verdict("key-that-no-request-asked-for", <<>>, T[sb].id, <<>>)
       ELSE IF \E i, j \in 1..Len(T) : i < j /\ T[i].addr = T[j].addr THEN Verdict("two-keys-share-an-address", <<>>, 0, <<>>)
       ELSE IF rb # 0 THEN Verdict(RestoredWhy(cfg, T, r.restored[rb]), <<>>, rb, <<>>)
       ELSE IF cb # 0 THEN Verdict(CoTreeWhy(cfg, r.cotrees[cb], f.s.keys), <<>>, cb, <<>>)
       ELSE Good

\* ---- restored wallets (judged for wallets whose histories conform): identical address at every position
JRestore(r) ==
    LET cfg == Cfg(r.cfg)
        rb  == FirstBad(Len(r.restored), LAMBDA i : RestoredWhy(cfg, r.keys, r.restored[i]))
    IN IF rb # 0 THEN Verdict(RestoredWhy(cfg, r.keys, r.restored[rb]), <<>>, rb, <<>>) ELSE Good

(* =============================== key ====================================== *)
FromObs(F, o) ==
    IF o.priv THEN B!MkPriv(F, o.k, o.c, o.depth, o.fp, o.idx)
    ELSE B!Stage(F, <<B!QPoint(o.P)>>,
                 IF FactVal(F, B!QPoint(o.P)) = <<>> THEN B!Fail ELSE B!Ok(B!MkPub(FactVal(F, B!QPoint(o.P)), o.c, o.depth, o.fp, o.idx)))
FirstDiff(key, g) ==
    IF g.priv # key.priv THEN "is-private"
    ELSE IF g.priv /\ g.k # key.k THEN "private-key"
    ELSE IF g.P # B!SerP(key.K) THEN "public-key"
    ELSE IF g.c # key.c THEN "chain-code"
    ELSE IF g.depth # key.depth THEN "depth"
    ELSE IF g.fp # key.fp THEN "parent-fingerprint"
    ELSE IF g.idx # key.idx THEN "child-number"
    ELSE ""
FlatKey(key) == <<key.k, B!SerP(key.K), key.c, <<key.depth>>, key.fp, key.idx>>

QSeed(words, pass) == B!Q("bip39_seed", <<words, pass>>)
\* the key the specification defines for the record
ExpectedKey(F, r) ==
    CASE r.root = "seed" -> B!Master(F, r.seed)
      [] r.root = "mnemonic" -> B!Stage(F, <<QSeed(r.words, r.pass)>>, B!Master(F, FactVal(F, QSeed(r.words, r.pass))))
      [] r.root = "pub" -> LET x == FromObs(F, r.parent) IN IF x.st = "ok" THEN B!Ok(B!Neuter(x.val)) ELSE x
      \* a wallet made from a private account key: its top key is that very key of the wallet it was exported from
      [] r.root = "acct" -> FromObs(F, r.parent)
      [] OTHER -> LET x == FromObs(F, r.parent) IN
                  IF x.st # "ok" THEN x
                  ELSE B!ApplyStep(F, x.val, B!ElemStep(x.val.priv, B!ParseElem(r.tok), {}))

\* the address of public key P (SEC1 compressed) for a witness type in a network
AddrWhy(F, net, wt, P, addr) ==
    IF net \notin A!NetNames THEN [st |-> "ok", why |-> "network-unknown-to-the-reference-table", need |-> <<>>]
    ELSE LET q1 == B!QHash160(P) IN
    IF ~FactHas(F, q1) THEN [st |-> "need", why |-> "", need |-> <<q1>>]
    ELSE LET h == FactVal(F, q1) IN
    IF wt = "segwit" THEN [st |-> "ok", why |-> IF A!SegwitEncode(A!NetOf(net).hrp, 0, h) = addr THEN "" ELSE "address", need |-> <<>>]
    ELSE LET q2 == B!QHash160(<<0, 20>> \o h)
             nest == wt = "p2sh-segwit" IN
         IF nest /\ ~FactHas(F, q2) THEN [st |-> "need", why |-> "", need |-> <<q2>>]
         ELSE LET payload == IF nest THEN <<A!NetOf(net).sh>> \o FactVal(F, q2) ELSE <<A!NetOf(net).pkh>> \o h
                  full == B!Base58CheckBytes(F, payload) IN
              IF full.st = "need" THEN [st |-> "need", why |-> "", need |-> full.need]
              ELSE [st |-> "ok", why |-> IF B!IsB58Of(addr, full.val) THEN "" ELSE "address", need |-> <<>>]

\* the bytes a Base58Check text commits to (asked for ahead of time: if the address is right this is the application the
\* judgement needs; if it is not, the judgement asks for its own)
AddrPayload(addr) ==
    IF ~B!IsB58(addr) THEN <<>>
    ELSE LET n1 == B!LeadCount(addr, 49)
             rest == Drop(addr, n1)
             bytes == Rep(0, n1) \o Rev(B!LimbsToBytesLE(B!B58Fold([i \in 1..Len(rest) |-> B!B58Digit(rest[i])], <<>>)))
         IN IF Len(bytes) > 4 THEN SubSeq(bytes, 1, Len(bytes) - 4) ELSE <<>>
ObsQs(o) == (IF o.priv THEN <<B!QMulG(o.k)>> ELSE <<B!QPoint(o.P)>>) \o <<B!QHash160(o.P)>>
Prefetch(r) ==
    LET st == IF r.root = "child" THEN B!ElemStep(r.parent.priv, B!ParseElem(r.tok), {}) ELSE B!ErrStep IN
    ObsQs(r.child)
    \o (IF r.wt # "segwit" THEN <<B!QSha256d(AddrPayload(r.child.addr))>> ELSE <<>>)
    \o (IF r.root \in {"child", "pub", "acct"} THEN ObsQs(r.parent) ELSE <<>>)
    \o (IF r.root = "seed" THEN <<B!QHmac(B!BitcoinSeed, r.seed)>> ELSE <<>>)
    \o (IF r.root = "mnemonic" THEN <<QSeed(r.words, r.pass)>> ELSE <<>>)
    \o (IF st.act = "err" THEN <<>>
        ELSE <<B!QHmac(r.parent.c, (IF r.parent.priv /\ st.hard THEN <<0>> \o r.parent.k ELSE r.parent.P) \o st.idx)>>)

\* A third deviation concerns key material: DevPublicOnly - after the account public key was exported from a wallet object
\* (public_master), keys that object derives directly below the exported key are stored without their private key.
DevPublicOnly == "keys-derived-after-public-master-export-are-public-only"
JKey(r) ==
    LET F == r.facts
        g == r.child
        e == ExpectedKey(F, r)
        \* (the single keys of a cosigner wallet are never paid to: their address column is not judged)
        ad == IF r.noaddr THEN [st |-> "ok", why |-> "", need |-> <<>>] ELSE AddrWhy(F, r.net, r.wt, g.P, g.addr)
        alts == {w \in VersionClass(r.net, r.wt) : w # r.wt}
        alt(w) == AddrWhy(F, r.net, w, g.P, g.addr)
        altneed == IF ad.st = "ok" /\ ad.why = "address" THEN {w \in alts : alt(w).st = "need"} ELSE {}
    IN IF F = <<>> THEN Ask(Prefetch(r))
       ELSE IF e.st = "need" \/ ad.st = "need" THEN Ask((IF e.st = "need" THEN e.need ELSE <<>>) \o ad.need)
       ELSE IF altneed # {} THEN Ask(alt(CHOOSE w \in altneed : TRUE).need)
       ELSE IF e.st = "err" THEN Verdict("key-at-a-path-that-has-no-key", <<>>, 0, <<>>)
       ELSE IF FirstDiff(e.val, g) # ""
            THEN Verdict(FirstDiff(e.val, g),
                         IF r.exported /\ e.val.priv /\ ~g.priv /\ FirstDiff(B!Neuter(e.val), g) = "" THEN <<DevPublicOnly>> ELSE <<>>,
                         0, FlatKey(e.val))
       ELSE IF g.Pdb # g.P \/ (g.priv /\ g.kdb # g.k) THEN Verdict("stored-key-bytes-differ-from-stored-extended-key", <<>>, 0, <<>>)
       ELSE IF ad.why # "" THEN Verdict(ad.why, IF \E w \in alts : alt(w).why = "" THEN <<DevBulkWt>> ELSE <<>>, 0, <<>>)
       ELSE Good

\* ---- the caller's key object: its description before anything was done with it and after an action; reuse: the
\* configuration under which the wallet made later from the same object with default settings is judged (a trace record
\* of its own) - it has to be the one the ORIGINAL description gives
JObject(r) ==
    IF ObjChanged(r.before, r.after) # {} \/ Len(r.before) # Len(r.after)
    THEN Verdict("callers-key-object-changed", <<>>, 0, [i \in 1..Len(r.after) |-> IF i > Len(r.before) \/ r.before[i] # r.after[i] THEN r.after[i] ELSE <<>>])
    ELSE IF r.reuse.wt # "" /\ (r.reuse.wt # ReuseCfg(r.before).wt \/ r.reuse.net # ReuseCfg(r.before).net)
    THEN Verdict("reuse-wallet-judged-under-another-configuration", <<>>, 0, <<>>)
    ELSE Good

Judge(r) == CASE r.k = "trace" -> JTrace(r)
              [] r.k = "object" -> JObject(r)
              [] r.k = "restore" -> JRestore(r)
              [] r.k = "key" -> JKey(r)
              [] OTHER -> Verdict("unknown-record-kind", <<>>, 0, <<>>)

\* reference tables against the documents: BIP44/49/84/45/48 examples
P0 == [net |-> "bitcoin", wt |-> "segwit", acct |-> 0, ch |-> 0, idx |-> 0]
C0(ms, watch) == [net |-> "bitcoin", wt |-> "segwit", acct |-> 0, ms |-> ms, cos |-> 2, watch |-> watch, kwt |-> "segwit"]
Txt(toks) == [i \in 1..Len(toks) |-> toks[i]]
ASSUME PosTokens(C0(FALSE, FALSE), [P0 EXCEPT !.idx = 17, !.ch = 1, !.acct = 3]) = TextTokens(<<109, 47, 56, 52, 39, 47, 48, 39, 47, 51, 39, 47, 49, 47, 49, 55>>)        \* m/84'/0'/3'/1/17
ASSUME PosTokens(C0(FALSE, TRUE), [P0 EXCEPT !.idx = 17, !.ch = 1]) = TextTokens(<<77, 47, 49, 47, 49, 55>>)                                                               \* M/1/17
ASSUME PosTokens(C0(FALSE, FALSE), [P0 EXCEPT !.wt = "legacy", !.net = "litecoin"]) = TextTokens(<<109, 47, 52, 52, 39, 47, 50, 39, 47, 48, 39, 47, 48, 47, 48>>)          \* m/44'/2'/0'/0/0
ASSUME PosTokens(C0(FALSE, FALSE), [P0 EXCEPT !.wt = "p2sh-segwit", !.net = "testnet"]) = TextTokens(<<109, 47, 52, 57, 39, 47, 49, 39, 47, 48, 39, 47, 48, 47, 48>>)     \* m/49'/1'/0'/0/0
ASSUME PosTokens(C0(TRUE, FALSE), [P0 EXCEPT !.wt = "legacy", !.idx = 5]) = TextTokens(<<109, 47, 52, 53, 39, 47, 50, 47, 48, 47, 53>>)                                    \* m/45'/2/0/5
ASSUME PosTokens(C0(TRUE, FALSE), [P0 EXCEPT !.wt = "p2sh-segwit"]) = TextTokens(<<109, 47, 52, 56, 39, 47, 48, 39, 47, 48, 39, 47, 49, 39, 47, 48, 47, 48>>)              \* m/48'/0'/0'/1'/0/0
ASSUME PosTokens(C0(TRUE, FALSE), P0) = TextTokens(<<109, 47, 52, 56, 39, 47, 48, 39, 47, 48, 39, 47, 50, 39, 47, 48, 47, 48>>)                                           \* m/48'/0'/0'/2'/0/0
ASSUME Dec(0) = <<48>> /\ Dec(9999999) = <<57, 57, 57, 57, 57, 57, 57>> /\ Dec(10) = <<49, 48>>

Out == [i \in 1..Len(Recs) |-> Judge(Recs[i])]
ASSUME ndJsonSerialize(IOEnv.OUT_FILE, Out)
=============================================================================
