-------------------------- MODULE ServiceCacheEval --------------------------
(* (V) trace validation for ServiceCache: each input record is one history recorded from a real Service object       *)
(* (events = query, provider behaviour, what was returned).  TLC computes the set of specification states consistent  *)
(* with every prefix; the verdict names the first event that no specification behaviour explains.  Steps explained     *)
(* only by a named deviation are reported with the deviation's name and the run continues from the deviating state.   *)
EXTENDS ServiceCache, Json, IOUtils
Recs == ndJsonDeserialize(IOEnv.IN_FILE)

RECURSIVE Run(_, _, _, _)
Run(S, evs, i, devs) ==
    IF i > Len(evs) THEN [v |-> "ok", at |-> 0, devs |-> devs]
    ELSE LET e == evs[i]
             N == UNION {Succ(s, e) : s \in S}
         IN IF N # {} THEN Run(N, evs, i + 1, devs)
            ELSE LET D == UNION {SuccDevFeeDefault(s, e) : s \in S}
                     B == UNION {SuccDevBalanceZero(s, e) : s \in S}
                     P == UNION {SuccDevIsSpentFalse(s, e) : s \in S}
                     A == UNION {SuccDevAfterInsideBlock(s, e) : s \in S}
                 IN IF D # {} THEN Run(D, evs, i + 1, devs \cup {"estimatefee-default-on-failure"})
                    ELSE IF B # {} THEN Run(B, evs, i + 1, devs \cup {"getbalance-zero-on-failure"})
                    ELSE IF P # {} THEN Run(P, evs, i + 1, devs \cup {"isspent-unspent-on-failure"})
                    ELSE IF A # {} THEN Run(A, evs, i + 1, devs \cup {"cache-after-txid-inside-a-block"})
                    ELSE [v |-> "rejected", at |-> i, devs |-> devs]
Out == [k \in 1..Len(Recs) |-> Run({InitState}, Recs[k].events, 1, {})]
ASSUME ndJsonSerialize(IOEnv.OUT_FILE, Out)
=============================================================================
