----------------------------- MODULE AmountEval -----------------------------
(***************************************************************************)
(* Conformance binding for Amount (C17).  TLC reads records - a text or an *)
(* integer handed to the implementation together with what it answered -   *)
(* and judges each against Amount.tla with digit arithmetic.  The verdict  *)
(* names the failing clause, the expected value and, where the observed    *)
(* value is exactly what a NAMED DEVIATION predicts, that deviation.       *)
(*                                                                         *)
(* Named deviations (what the implementation does instead):                *)
(*  parse-float-off-by-one   binary floating point: for an amount of at    *)
(*        least 10^15 units written in one of the denominators             *)
(*        FloatParseDens the result is the accepted integer +-1 (never for *)
(*        smaller amounts: four roundings of relative size 2^-53 cannot    *)
(*        reach half a unit below 10^15; never for BTC, sat, c, usat)      *)
(*  format-float-off-by-one  same, formatting (FloatFormatDens): the text  *)
(*        denotes n +- 1                                                   *)
(*  from-satoshi-float-off-by-one  same, for the integer read back from    *)
(*        Value.from_satoshi(n, <denominator>) (FloatFromSatDens)          *)
(*  format-subunit-noise     the text carries non-zero digits finer than   *)
(*        the smallest unit (float expansion), less than one unit from n   *)
(*  format-default-decimals-capped   default formatting prints 8 decimals  *)
(*        even where the denominator needs more (da, h, k, M, ...): the    *)
(*        text is n rounded to 8 decimals of that denominator              *)
(*  parse-da-refused         a text with the deca symbol is refused        *)
(*  parse-shared-code-network-replaced   the caller's network shares its   *)
(*        currency code with another one (testnet4/testnet, litecoin_legacy*)
(*        /litecoin): a text without unit or naming that code is attributed*)
(*        to the other network (right amount); validating APIs refuse it   *)
(*  output-constructor-fraction-truncated   Output(value=<non-integer>) is *)
(*        accepted and serialized as its integer part                      *)
(*  input-value-not-checked   Input(value=<number>) keeps the amount as it  *)
(*        was given: fractional amounts and non-integer carrier types stay *)
(*  amount-fraction-below-float-resolution-truncated   Output / add_output *)
(*        test float(amount).is_integer(): a Decimal / Fraction amount     *)
(*        whose fraction is lost in the nearest double is accepted and     *)
(*        truncated (123456789012.99999999 -> 123456789012)                *)
(*  add-output-value-object-read-as-coins   add_output(Value) stores the   *)
(*        whole number of COINS of the Value as smallest units             *)
(*  value-arithmetic-float-off-by-one   Value + - * on whole amounts: the  *)
(*        result is one unit off, only for results >= 10^15                *)
(*  update-totals-reports-negative-fee   update_totals() of an ordinary     *)
(*        transaction whose outputs exceed its known inputs sets the       *)
(*        negative difference as fee                                       *)
(*  negative-fee-argument-stored   Transaction(..., fee=<negative>) keeps  *)
(*        that fee and skips the inputs-versus-outputs test                *)
(*  parse-unit-read-as-currency-code   a unit that case-folds to a whole   *)
(*        currency code (TBTC, TDOGE) is read as that currency with no     *)
(*        denominator (or refused when a different network was supplied)   *)
(***************************************************************************)
EXTENDS Amount, Json, IOUtils, SequencesExt, TLC

Recs == ndJsonDeserialize(IOEnv.IN_FILE)

Ok == [v |-> "ok", dev |-> "", exp |-> <<>>]
Skip(why) == [v |-> "skip", dev |-> why, exp |-> <<>>]
Bad(clause, dev, exp) == [v |-> clause, dev |-> dev, exp |-> exp]

IsNeg(neg, digits) == neg /\ Norm(digits) # <<>>
DenName(p) == Denominators[p.den].name
OneDen == DenByName("one")
FloatParseDens   == {"msat", "n", "fin", "u", "m", "d", "h", "k", "M", "G", "T", "P", "E", "Z", "Y"}
FloatFormatDens  == {"fin", "u", "d"}
FloatFromSatDens == {"msat", "n", "u", "m", "c", "da", "k", "M", "G", "T", "P", "E", "Z"}
\* the network the implementation attached to the result ("" = that API does not reveal it)
NetSeen(gnet, nets) == gnet = "" \/ gnet \in nets

(* ---------------- parse ------------------------------------------------ *)
\* the unit token, folded, is a whole currency code although the specification reads a denominator in it
FoldsToCode(p) == {c \in Codes : FoldSeq(p.unit) = FoldSeq(c) /\ p.unit # c}
AsCodeUnits(p) == ShiftPoint(p.num, 0 - Networks[1].exp)       \* read with denominator "one"

JudgeParse(text, netArg, validate, got, gnet) ==
  LET p == ParseText(text) IN
  IF ~p.ok THEN Skip("not-an-amount-text")
  ELSE IF validate /\ ~NetAgrees(p, netArg) THEN      \* the caller's network contradicts the currency code
       (IF ~got.ok THEN Ok
        ELSE Bad("parse-other-network-accepted",
                 IF \E c \in FoldsToCode(p) : netArg \in NetsOfCode(c) /\ p.den # OneDen /\ NetSeen(gnet, NetsOfCode(c))
                                               /\ Norm(got.d) \in Accepted(AsCodeUnits(p))
                 THEN "parse-unit-read-as-currency-code" ELSE "", <<>>))
  ELSE
  LET nets == IF validate /\ netArg # "" THEN {netArg} ELSE TextNets(p, netArg)
      \* networks that share the currency code of the caller's network
      twins == IF netArg = "" THEN {} ELSE NetsOfCode(NetByName(netArg).code) \ {netArg}
      u    == Units(p, CHOOSE x \in nets : TRUE)
      acc  == Accepted(u)
      signOK(a) == IsNeg(got.neg, got.d) = IsNeg(p.neg, a)
      hit  == got.ok /\ NetSeen(gnet, nets) /\ \E a \in acc : Norm(got.d) = a /\ signOK(a)
      exp  == [neg |-> p.neg, accepted |-> SetToSeq(acc)]
  IN
  IF Cmp(Floor(u), Supply) > 0 THEN Skip("above-total-supply")
  ELSE IF hit THEN Ok
  ELSE LET clause == IF ~got.ok THEN "parse-refused"
                     ELSE IF ~NetSeen(gnet, nets) THEN "parse-network"
                     ELSE IF Exact(u) THEN "parse-exact" ELSE "parse-envelope"
           fc == FoldsToCode(p)
           dev == IF DenName(p) = "da" /\ ~got.ok THEN "parse-da-refused"
                  ELSE IF twins # {} /\ (p.unit = <<>> \/ p.code = NetByName(netArg).code) /\
                          (IF validate THEN ~got.ok
                           ELSE got.ok /\ gnet \in twins /\ \E a \in acc : Norm(got.d) = a /\ signOK(a))
                       THEN "parse-shared-code-network-replaced"
                  ELSE IF fc # {} /\ p.den # OneDen /\
                          (LET c == CHOOSE x \in fc : TRUE IN
                           IF validate /\ netArg # "" /\ netArg \notin NetsOfCode(c) THEN ~got.ok
                           ELSE got.ok /\ NetSeen(gnet, NetsOfCode(c)) /\ Norm(got.d) \in Accepted(AsCodeUnits(p))
                                /\ IsNeg(got.neg, got.d) = IsNeg(p.neg, got.d))
                       THEN "parse-unit-read-as-currency-code"
                  ELSE IF got.ok /\ NetSeen(gnet, nets) /\ Cmp(Floor(u), Threshold15) >= 0
                          /\ DenName(p) \in FloatParseDens
                          /\ \E a \in acc : Differ1(got.d, a) /\ signOK(a)
                       THEN "parse-float-off-by-one"
                  ELSE ""
       IN Bad(clause, dev, exp)

(* ---------------- format ----------------------------------------------- *)
\* t (a decimal number of smallest units) is not an integer and less than one unit away from the integer n
NearInt(t, n) == ~AllZero(t.f) /\ (Norm(t.i) = Norm(n) \/ Inc(Norm(t.i)) = Norm(n))

JudgeFormat(n, denName, dflt, dec, net, fok, text) ==
  LET d == DenByName(denName)
      k == Places(d, net)
      p == ParseText(text)
      realDec == IF dflt THEN Sufficient(d, net) ELSE dec
      nb  == Neighbours(n, d, net, realDec)
      exp == SetToSeq(nb)
  IN
  IF ~fok THEN Bad("format-refused", "", exp)
  ELSE IF ~p.ok THEN Bad("format-text-unreadable", "", exp)
  ELSE IF ~(p.den = d /\ (p.code = NetByName(net).code \/ (p.code = <<>> /\ net = DefaultNet)))
       THEN Bad("format-unit", "", exp)
  ELSE
  LET t == Units(p, net)
      good == ~IsNeg(p.neg, p.num.i \o p.num.f) /\ \E x \in nb : SameNumber(p.num, x)
      mustBeExact == Representable(n, d, net, realDec)
      dev == IF p.neg THEN ""
             ELSE IF dflt /\ k > 8 /\ \E x \in Neighbours(n, d, net, 8) : SameNumber(p.num, x)
                  THEN "format-default-decimals-capped"
             ELSE IF mustBeExact /\ NearInt(t, n) THEN "format-subunit-noise"
             ELSE IF mustBeExact /\ AllZero(t.f) /\ Differ1(t.i, n) /\ Cmp(n, Threshold15) >= 0
                     /\ denName \in FloatFormatDens
                  THEN "format-float-off-by-one"
             ELSE ""
  IN IF good THEN Ok ELSE Bad(IF mustBeExact THEN "format-exact" ELSE "format-envelope", dev, exp)

(* ---------------- amounts placed in transactions ----------------------- *)
\* r.kind: "int" (non-negative integer r.d), "neg" (negative integer), "frac" (not an integer)
JudgePlace(r) ==
  IF r.kind = "int"
  THEN IF r.got.accepted /\ r.got.isint /\ ~r.got.neg /\ Norm(r.got.d) = Norm(r.d) /\ r.got.ser = LE8(r.d) THEN Ok
       ELSE Bad("placed-integer", "", LE8(r.d))
  ELSE IF ~r.got.accepted THEN Ok
       ELSE Bad("placed-" \o r.kind \o "-amount-serialized",
                IF r.kind = "frac" /\ r.api = "Output" /\ r.got.ser = LE8(r.d) THEN "output-constructor-fraction-truncated" ELSE "",
                <<>>)

\* r: an amount of carrier type r.ty with the exact value r.num / r.den (r.neg: negative) handed to entry point r.api.
\* r.got: accepted (nothing refused up to and including raw()), the stored amount (isint: of an integer type,
\* num/den: its exact value, den = 0 if it has none), ser: the 8 bytes raw() wrote (<<>> for Input), fee: the fee of a
\* transaction built around it (whole: of an integer type, num: digits, neg).  r.other: the fixed amount on the other
\* side of that transaction (input value for Output/add_output, output value for Input).
\* r.route: how the fee came about; r.ins / r.outs: the whole amounts (digits) of the inputs and outputs; r.tys: the
\* carrier types used; r.coinbase; r.got: refused (an exception anywhere on the route), nofee (fee is None), else the
\* reported fee (isint: of an integer type, neg, num / den: its exact value)
JudgeFee(r) ==
  LET f == FeeOf(r.ins, r.outs)
      g == r.got
      documented == \A j \in 1..Len(r.tys) : r.tys[j] \in DocumentedCarriers
      positive == f.pays /\ f.fee # <<>>
      inputsKnown == SumBE(r.ins) # <<>>
  IN
  IF r.route = "calculate_fee" THEN
       IF g.refused \/ (~g.nofee /\ g.isint /\ g.den = 1 /\ ~IsNeg(g.neg, g.num)) THEN Ok
       ELSE Bad("calculated-fee-not-a-non-negative-integer", "", <<>>)
  ELSE IF g.refused THEN
       IF positive /\ documented THEN Bad("fee-paying-transaction-refused", "", f.fee) ELSE Ok
  ELSE IF g.nofee THEN
       IF positive /\ r.reports THEN Bad("fee-not-reported", "", f.fee) ELSE Ok
  ELSE IF ~(g.isint /\ g.den = 1) THEN Bad("fee-not-an-integer", "", f.fee)
  ELSE IF IsNeg(g.neg, g.num) THEN
       Bad("fee-negative",
           IF ~f.pays /\ ~r.coinbase /\ r.route \in {"add_update", "ctor_update", "parse_update"}
              /\ Norm(g.num) = FeeOf(r.outs, r.ins).fee THEN "update-totals-reports-negative-fee"
           ELSE IF ~f.pays /\ r.route = "fee_arg" /\ Norm(g.num) = FeeOf(r.outs, r.ins).fee THEN "negative-fee-argument-stored"
           ELSE "", f.fee)
  ELSE IF f.pays /\ Norm(g.num) = f.fee THEN Ok
  ELSE IF r.coinbase /\ Norm(g.num) = <<>> THEN Ok
  ELSE Bad("fee-differs-from-inputs-minus-outputs", "", f.fee)

InApi(r) == r.api \in {"Input", "add_input"}
JudgeTyped(r) ==
  LET whole == RatWhole(r.num, r.den)
      q     == RatInt(r.num, r.den)
      nonneg == ~IsNeg(r.neg, r.num)
      g     == r.got
      \* deviation: Input keeps the amount exactly as it was given (no check, no conversion)
      asGiven == InApi(r) /\ g.den = r.den /\ Norm(g.num) = Norm(r.num) /\ g.neg = IsNeg(r.neg, r.num)
      \* deviation: the whole-number test is made on the nearest double (oracle fact r.floatwhole: that double is an
      \* integer although the exact value is not), then the exact value is truncated
      floatTrunc == ~InApi(r) /\ r.floatwhole /\ nonneg /\ g.isint /\ g.den = 1 /\ Norm(g.num) = q /\ g.ser = LE8(q)
      fee   == IF InApi(r) THEN SubLE(Rev(q), Rev(r.other), 10) ELSE SubLE(Rev(r.other), Rev(q), 10)
  IN
  IF ~g.accepted THEN
       IF whole /\ nonneg /\ MustAccept(r.api, r.ty) THEN Bad("typed-whole-amount-refused", "", q) ELSE Ok
  ELSE IF ~whole THEN
       Bad("typed-fractional-amount-accepted",
           IF asGiven THEN "input-value-not-checked" ELSE IF floatTrunc THEN "amount-fraction-below-float-resolution-truncated" ELSE "",
           <<>>)
  ELSE IF ~nonneg THEN
       Bad("typed-negative-amount-accepted", IF asGiven THEN "input-value-not-checked" ELSE "", <<>>)
  ELSE IF ~(g.den = 1 /\ ~g.neg /\ Norm(g.num) = q) THEN
       Bad("typed-stored-amount-differs",
           IF r.api = "add_output" /\ r.ty = "Value" /\ g.isint /\ g.den = 1 /\ Norm(g.num) \o Rep(0, 8) = q /\ g.ser = LE8(g.num)
           THEN "add-output-value-object-read-as-coins" ELSE "", q)
  ELSE IF ~g.isint THEN
       Bad("typed-stored-amount-not-integer-type", IF asGiven THEN "input-value-not-checked" ELSE "", q)
  ELSE IF ~InApi(r) /\ g.ser # LE8(q) THEN Bad("typed-serialized-differs-from-stored", "", LE8(q))
  ELSE IF ~(g.fee.whole /\ ~g.fee.neg /\ Norm(g.fee.num) = Norm(Tup(Rev(fee)))) THEN Bad("typed-fee-not-integer", "", Tup(Rev(fee)))
  ELSE Ok

\* a wallet-created transaction paying r.text: the paid output is the accepted integer; every output and the fee
\* are non-negative integers
JudgeWallet(r) ==
  LET p == ParseText(r.text) IN
  IF ~p.ok THEN Skip("not-an-amount-text")
  ELSE LET u == Units(p, r.net)
           exp == SetToSeq(Accepted(u)) IN
       IF ~r.created THEN Bad("wallet-refused", "", exp)
       ELSE IF ~(r.paid.isint /\ ~r.paid.neg /\ Norm(r.paid.d) \in Accepted(u)) THEN Bad("wallet-paid-amount", "", exp)
       ELSE IF \E j \in 1..Len(r.outs) : ~r.outs[j].isint \/ IsNeg(r.outs[j].neg, r.outs[j].d)
            THEN Bad("wallet-output-not-nonneg-integer", "", exp)
       ELSE IF ~r.fee.isint \/ IsNeg(r.fee.neg, r.fee.d) THEN Bad("wallet-fee-not-nonneg-integer", "", exp)
       ELSE Ok

Judge(r) ==
  CASE r.k = "parse"  -> JudgeParse(r.text, r.net, r.validate, r.got, r.gnet)
    [] r.k = "format" -> JudgeFormat(r.n, r.den, r.dflt, r.dec, r.net, r.fok, r.text)
    [] r.k = "rt" ->     \* format with default decimals, then parse the text: the same integer
         LET f == JudgeFormat(r.n, r.den, TRUE, 0, r.net, r.fok, r.text) IN
         IF f.v # "ok" THEN f
         ELSE LET q == JudgeParse(r.text, "", FALSE, r.got, r.gnet) IN
              IF q.v # "ok" THEN q
              ELSE IF Norm(r.got.d) = Norm(r.n) /\ ~IsNeg(r.got.neg, r.got.d) THEN Ok
              ELSE Bad("roundtrip", "", r.n)
    [] r.k = "ident" ->  \* integer -> Value (held in denominator r.den) -> integer
         IF r.got.ok /\ Norm(r.got.d) = Norm(r.n) /\ ~IsNeg(r.got.neg, r.got.d) /\ NetSeen(r.gnet, {r.net}) THEN Ok
         ELSE Bad("from-satoshi-identity",
                  IF r.got.ok /\ ~r.got.neg /\ r.gnet = r.net /\ Differ1(r.got.d, r.n) /\ Cmp(r.n, Threshold15) >= 0
                     /\ r.den \in FloatFromSatDens THEN "from-satoshi-float-off-by-one" ELSE "", r.n)
    [] r.k = "place"  -> JudgePlace(r)
    [] r.k = "typed"  -> JudgeTyped(r)
    [] r.k = "fee"    -> JudgeFee(r)
    [] r.k = "arith" ->  \* Value arithmetic on whole amounts: from_satoshi(a) (+|-) from_satoshi(b), from_satoshi(a) * m
         LET e == IF r.op = "add" THEN AddLE(Rev(r.a), Rev(r.b), 10)
                  ELSE IF r.op = "sub" THEN SubLE(Rev(r.a), Rev(r.b), 10)
                  ELSE MulSmall(Rev(r.a), r.m, 0, 10)
             exp == Norm(Tup(Rev(e)))
         IN IF Cmp(exp, Supply) > 0 THEN Skip("above-total-supply")
            ELSE IF r.got.ok /\ ~IsNeg(r.got.neg, r.got.d) /\ Norm(r.got.d) = exp THEN Ok
            ELSE Bad("value-arithmetic",
                     IF r.got.ok /\ ~r.got.neg /\ Differ1(r.got.d, exp) /\ Cmp(exp, Threshold15) >= 0
                     THEN "value-arithmetic-float-off-by-one" ELSE "", exp)
    [] r.k = "wallet" -> JudgeWallet(r)
    [] r.k = "gen" ->    \* (G) the canonical texts of r.n in denominator r.den with r.dec decimals
         [v |-> "ok", dev |-> "", exp |-> SetToSeq(FormatTexts(r.n, DenByName(r.den), r.net, r.dec))]
    [] OTHER -> Bad("unknown-record-kind", "", <<>>)

Out == [i \in 1..Len(Recs) |-> Judge(Recs[i])]
ASSUME ndJsonSerialize(IOEnv.OUT_FILE, Out)
=============================================================================
