SPECIFICATION Spec
CONSTANTS
  Vers = {0, 1, 2, 3, 4, 5, 6, 7, 8, 9, 10, 11, 12, 13, 14, 15, 16}
  Lens = {2, 20, 32, 40}
  Pats = {0, 7}
INVARIANT DecodeInverse
INVARIANT CrossNetwork
INVARIANT ClassifyInverse
INVARIANT RoundTrip
INVARIANT ClassifySound
INVARIANT DamagedNonStandard
CHECK_DEADLOCK FALSE
