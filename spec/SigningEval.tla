----------------------------- MODULE SigningEval -----------------------------
(* Replay binding: a record is an input configuration, a sequence of actions performed on a real Transaction object    *)
(* and, after each action, the verification verdicts observed (library verify(), reference verifier).  TLC steps the   *)
(* specification along and reports the first step where an observed verdict is not allowed.                            *)
EXTENDS Signing, Json, IOUtils, TLC
Recs == ndJsonDeserialize(IOEnv.IN_FILE)
Cfg(c) == [j \in 1..Len(c) |-> [n |-> c[j].n, m |-> c[j].m, segwit |-> c[j].segwit]]
A(a) == [op |-> a.op, j |-> a.j, keys |-> a.keys, f |-> a.f, pos |-> a.pos]
\* C: set of candidate specification states [st, dev] consistent with everything observed so far (a round trip may or
\* may not have lost partial multisig signatures; dev records that the named deviation is needed for the explanation)
Consistent(cfg, st, lib) == (MustFail(cfg, st) => ~lib) /\ (MustPass(cfg, st) => lib)
RECURSIVE Walk(_, _, _, _)
Walk(cfg, C, steps, i) ==
    IF i > Len(steps) THEN [v |-> "ok", at |-> 0, dev |-> IF \E c \in C : c.dev = "" THEN "" ELSE "raw-omits-partial-multisig"]
    ELSE LET a == A(steps[i].a)
             N == UNION { LET s1 == Act(cfg, c.st, a) IN
                          IF a.op = "roundtrip" THEN {[st |-> x, dev |-> c.dev] : x \in RoundTripSet(cfg, s1)}
                                                     \cup {[st |-> RoundTripDev(cfg, s1), dev |-> "raw-omits-partial-multisig"]}
                          ELSE {[st |-> s1, dev |-> c.dev]} : c \in C }
             K == {c \in N : Consistent(cfg, c.st, steps[i].lib)}
         IN IF K # {} THEN Walk(cfg, K, steps, i + 1)
            ELSE [v |-> IF \A c \in N : MustFail(cfg, c.st) THEN "verified-without-enough-valid-signatures"
                        ELSE "correctly-signed-does-not-verify", at |-> i, dev |-> ""]
Out == [k \in 1..Len(Recs) |-> Walk(Cfg(Recs[k].cfg), {[st |-> InitS(Cfg(Recs[k].cfg)), dev |-> ""]}, Recs[k].steps, 1)]
ASSUME ndJsonSerialize(IOEnv.OUT_FILE, Out)
=============================================================================
