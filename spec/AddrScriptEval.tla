--------------------------- MODULE AddrScriptEval ---------------------------
(***************************************************************************)
(* Conformance binding for AddrScript (C05).  TLC reads ndjson records and *)
(* answers one record each.  Record kinds:                                 *)
(*   build  the harness names an abstract destination / damaged template / *)
(*          key; TLC builds the concrete address string or script bytes    *)
(*          the implementation is driven with (spec -> code), and lists    *)
(*          the primitive applications ("facts") it needs for that         *)
(*   fwd    an Output was created from an address / object / key / hash;   *)
(*          TLC judges what the implementation did                         *)
(*   rev    an Output was created from a raw locking script; TLC judges    *)
(*          the reported type / address / hash                             *)
(* Primitives stay outside TLC: r.facts is a list [f, x, y] meaning        *)
(* f(x) = y with f in {"sha256d4", "hash160", "sha256"} (harness/ref.py).   *)
(* Named deviations (what the code does instead, used only to match        *)
(* entries of known_findings) are defined at the end.                      *)
(***************************************************************************)
EXTENDS AddrScriptArgs, Json, IOUtils, TLC

Recs == ndJsonDeserialize(IOEnv.IN_FILE)

\* ------------------------------------------------------------------ facts
FactIdx(facts, f, x) == {i \in 1..Len(facts) : facts[i].f = f /\ facts[i].x = x}
Has(facts, f, x) == FactIdx(facts, f, x) # {}
Get(facts, f, x) == facts[CHOOSE i \in FactIdx(facts, f, x) : TRUE].y
Req(f, x) == [f |-> f, x |-> x]
Missing(facts, f, x) == IF Has(facts, f, x) THEN <<>> ELSE <<Req(f, x)>>
\* checksum of a Base58Check payload (<<>> while the fact is missing)
Chk(facts, pre) == IF Has(facts, "sha256d4", pre) THEN Get(facts, "sha256d4", pre) ELSE <<>>

MkDest(dk, wv, p) == IF dk = "pkh" THEN PKH(p) ELSE IF dk = "sh" THEN SH(p) ELSE Wit(wv, p)
PreOf(nw, d) == AddrPre(VerFor(nw, d), d.p)
NeedAddr(facts, nw, d) == IF d.k \in {"pkh", "sh"} THEN Missing(facts, "sha256d4", PreOf(nw, d)) ELSE <<>>
\* address string without validity condition on the payload (for Base58: needs the checksum fact)
AddrT(facts, nw, d) == IF d.k = "wit" THEN SegwitEncode(NetOf(nw).hrp, d.v, d.p)
                       ELSE IF d.k \in {"pkh", "sh"} THEN Addr58(VerFor(nw, d), d.p, Chk(facts, PreOf(nw, d)))
                       ELSE <<>>

\* ------------------------------------------------ scripts: templates and damage
PushNM(dd) == <<76, Len(dd)>> \o dd              \* OP_PUSHDATA1 form of a push that has a direct form
ScriptOf(d, mut) ==
    LET push == IF mut = "pushdata1" THEN PushNM(d.p)
                ELSE IF mut = "short_pad" THEN Push(SubSeq(d.p, 1, Len(d.p) - 1)) \o <<97>>   \* same total length
                ELSE Push(d.p)
        base == CASE d.k = "pkh" -> <<118, 169>> \o push \o <<136, IF mut = "last_op" THEN 173 ELSE 172>>
                  [] d.k = "sh"  -> <<169>> \o push \o <<IF mut = "last_op" THEN 136 ELSE 135>>
                  [] OTHER -> <<(IF mut = "ver_4f" THEN 79 ELSE IF mut = "ver_50" THEN 80 ELSE OpN(d.v))>> \o push
    IN IF mut = "trail_nop" THEN base \o <<97>> ELSE base

\* destination shape read off the parsed items (NOT the classification: no length / minimality conditions)
ItemsDest(it) ==
    IF Len(it) = 5 /\ it[1] = Op(118) /\ it[2] = Op(169) /\ it[3].t = "data" /\ it[4] = Op(136) /\ it[5] = Op(172) THEN PKH(it[3].d)
    ELSE IF Len(it) = 3 /\ it[1] = Op(169) /\ it[2].t = "data" /\ it[3] = Op(135) THEN SH(it[2].d)
    ELSE IF Len(it) = 2 /\ it[1].t = "op" /\ it[2].t = "data" /\ (it[1].c = 0 \/ it[1].c \in 81..96)
         THEN Wit(IF it[1].c = 0 THEN 0 ELSE it[1].c - 80, it[2].d)
    ELSE NoDest
ShapeOf(s) == LET ps == ParseScript(s) IN IF ps.ok THEN ItemsDest(ps.items) ELSE NoDest
\* first pushed item that has the shape of a SEC1 public key (<<>> if none)
KeyShaped(dd) == (Len(dd) = 33 /\ dd[1] \in {2, 3}) \/ (Len(dd) = 65 /\ dd[1] = 4)
FirstKey(s) == LET ps == ParseScript(s)
                   I == IF ps.ok THEN {i \in 1..Len(ps.items) : ps.items[i].t = "data" /\ KeyShaped(ps.items[i].d)} ELSE {}
               IN IF I = {} THEN <<>> ELSE ps.items[CHOOSE i \in I : \A j \in I : i <= j].d
NeedKey(facts, nw, s) == LET kk == FirstKey(s) IN
                         IF kk = <<>> THEN <<>>
                         ELSE IF ~Has(facts, "hash160", kk) THEN <<Req("hash160", kk)>>
                         ELSE NeedAddr(facts, nw, PKH(Get(facts, "hash160", kk)))

\* the network the library uses where the caller names none (and, as a deviation, where it forgets the one named)
DefaultNet == "bitcoin"
BlockRoutes == {"blk", "blk_bytes", "blk_bio"}

\* ------------------------------------------------------------------- build
BOut(need, addr, script, tname, d) ==
    [v |-> "ok", dev |-> "", exp |-> [need |-> need, addr |-> addr, script |-> script, tname |-> tname,
                                      dk |-> d.k, wv |-> d.v, p |-> d.p]]
BuildAddr(facts, nw, d) ==
    IF ~ValidDest(d) THEN BOut(<<>>, <<>>, <<>>, "nonstandard", d)
    ELSE LET need == NeedAddr(facts, nw, d) IN
         BOut(need, IF need = <<>> THEN AddrT(facts, nw, d) ELSE <<>>, Lock(d), TypeName(d), d)
\* ---- which destination a key / a piece of data stands for.  A plan is [need, d]: either primitive applications that
\* are still missing, or the destination.
Done(d) == [need |-> <<>>, d |-> d]
With(facts, f, x, K(_)) == IF Has(facts, f, x) THEN K(Get(facts, f, x)) ELSE [need |-> <<Req(f, x)>>, d |-> NoDest]
\* nested segwit (BIP141 P2SH-P2WPKH / P2SH-P2WSH): P2SH of the witness script OP_0 <program>
Nested(facts, prog) == With(facts, "hash160", Lock(Wit(0, prog)), LAMBDA h : Done(SH(h)))
\* an HD key with witness type wt; h160 = HASH160(public key).  A multisig (co-signer) key on its own stands for the
\* script-hash destination of its serialized public key: P2SH / P2WSH / P2SH-P2WSH (never for a key-hash destination)
KeyPlan(facts, wt, ms, h160, pub) ==
    IF ~ms THEN (IF wt = "legacy" THEN Done(PKH(h160)) ELSE IF wt = "segwit" THEN Done(Wit(0, h160)) ELSE Nested(facts, h160))
    ELSE IF wt = "legacy" THEN Done(SH(h160))
    ELSE IF wt = "segwit" THEN With(facts, "sha256", pub, LAMBDA sh : Done(Wit(0, sh)))
    ELSE With(facts, "sha256", pub, LAMBDA sh : Nested(facts, sh))
\* an address object made from data (a public key or a script) and a script type
DataPlan(facts, st, data) ==
    CASE st = "p2pkh" -> With(facts, "hash160", data, LAMBDA h : Done(PKH(h)))
      [] st = "p2sh" -> With(facts, "hash160", data, LAMBDA h : Done(SH(h)))
      [] st = "p2wpkh" -> With(facts, "hash160", data, LAMBDA h : Done(Wit(0, h)))
      [] st = "p2wsh" -> With(facts, "sha256", data, LAMBDA sh : Done(Wit(0, sh)))
      [] st = "p2sh_p2wpkh" -> With(facts, "hash160", data, LAMBDA h : Nested(facts, h))
      [] st = "p2sh_p2wsh" -> With(facts, "sha256", data, LAMBDA sh : Nested(facts, sh))
      [] OTHER -> Done(NoDest)

\* Output(public_hash = h, script_type = st [, witver = wv]) - what a bare hash and a script type stand for.  wv = -1: the
\* witness version argument is not given.  ok = FALSE: the size does not fit the type, the request is to be refused
\* (d then is the template filled in anyway, which is what the deviation payload-length-not-checked produces).
\* 'p2tr' names every witness program of version >= 1 (the library's convention); without a version it is version 1.
\* The nested types take the key hash (20 bytes) / script hash (32 bytes) that goes INTO the witness program.
HashPlan(facts, st, wv, h) ==
    LET n == Len(h)
        plain(d, fits) == [need |-> <<>>, d |-> d, ok |-> fits]
        nest(fits) == IF ~fits THEN plain(Wit(0, h), FALSE)
                      ELSE LET pl == Nested(facts, h) IN [need |-> pl.need, d |-> pl.d, ok |-> TRUE]
    IN CASE st = "p2pkh" -> plain(PKH(h), n = 20)
         [] st = "p2sh" -> plain(SH(h), n = 20)
         [] st = "p2wpkh" -> plain(Wit(0, h), n = 20)
         [] st = "p2wsh" -> plain(Wit(0, h), n = 32)
         [] st = "p2tr" -> LET v == IF wv <= 0 THEN 1 ELSE wv IN plain(Wit(v, h), ValidWit(v, h))
         [] st = "p2sh_p2wpkh" -> nest(n = 20)
         [] st = "p2sh_p2wsh" -> nest(n = 32)
         [] OTHER -> plain(NoDest, FALSE)

Build(r) ==
    CASE r.what = "addr" -> BuildAddr(r.facts, r.x, MkDest(r.dk, r.wv, r.p))
      [] r.what = "argspace" ->     \* (G) TLC enumerates the abstract calls of the argument space that apply to a base kind
           LET d0 == MkDest(r.dk, r.wv, r.p)
               S == {c \in ArgCalls : ArgApplies(c, d0)}
               RECURSIVE ToSeq(_)
               ToSeq(T) == IF T = {} THEN <<>> ELSE LET e == CHOOSE q \in T : TRUE IN <<e>> \o ToSeq(T \ {e})
               \* the abstract call together with the values of the arguments that are plain strings / numbers
               Full(c) == LET g == ArgConcrete(c, d0, d0, NoDest, <<>>) IN
                          [c |-> c, st |-> g.st, enc |-> g.enc, wt |-> g.wt, wv |-> g.wv]
               L == ToSeq(S)
           IN [v |-> "ok", dev |-> "", exp |-> [need |-> <<>>, calls |-> [i \in 1..Len(L) |-> Full(L[i])], libname |-> LibName(d0)]]
      [] r.what = "cands" ->        \* checksum facts for the addresses of several candidate destinations under network r.y
           LET RECURSIVE N(_)
               N(i) == IF i > Len(r.cands) THEN <<>>
                       ELSE NeedAddr(r.facts, r.y, MkDest(r.cands[i].dk, r.cands[i].wv, r.cands[i].p)) \o N(i + 1)
           IN BOut(N(1), <<>>, <<>>, "", NoDest)
      [] r.what = "hash" ->
           LET pl == HashPlan(r.facts, r.st, r.wv, r.p) IN
           IF pl.need # <<>> THEN BOut(pl.need, <<>>, <<>>, "", NoDest)
           ELSE IF ~pl.ok THEN BOut(<<>>, <<>>, <<>>, "nonstandard", pl.d)
           ELSE BuildAddr(r.facts, r.x, pl.d)
      [] r.what \in {"key", "data"} ->   \* data also serves Output(public_key = r.pub, script_type = r.st); key: r.p = HASH160(public key r.pub), r.wt / r.ms the key's witness type / multisig flag
           LET pl == IF r.what = "key" THEN KeyPlan(r.facts, r.wt, r.ms, r.p, r.pub) ELSE DataPlan(r.facts, r.st, r.pub) IN
           IF pl.need # <<>> THEN BOut(pl.need, <<>>, <<>>, "", NoDest) ELSE BuildAddr(r.facts, r.x, pl.d)
      [] r.what = "script" ->       \* script bytes + the checksum facts the judge may need under network r.y
           LET s == ScriptOf(MkDest(r.dk, r.wv, r.p), r.mut)
               d1 == Classify(s)
               d2 == ShapeOf(s)
           IN BOut(NeedAddr(r.facts, r.y, d1) \o (IF d2 # d1 THEN NeedAddr(r.facts, r.y, d2) ELSE <<>>)
                   \o (IF r.y # DefaultNet THEN NeedAddr(r.facts, DefaultNet, d1) ELSE <<>>)
                   \o (IF d1 = NoDest THEN NeedKey(r.facts, r.y, s) ELSE <<>>), <<>>, s, TypeName(d1), d1)
      [] OTHER -> [v |-> "unknown-build", dev |-> "", exp |-> <<>>]

\* ------------------------------------------------------------------- verdicts
Ok == [v |-> "ok", dev |-> "", exp |-> <<>>]
Bad(clause, dev, exp) == [v |-> clause, dev |-> dev, exp |-> exp]
LegacyFour == {"p2pkh", "p2sh", "p2wpkh", "p2wsh"}

\* every view of the output reports the same address (.address, .address_obj.address, .as_dict()) and paying to the
\* reported address again gives the script the output carries (script -> address -> script is the identity)
\* (named deviation bech32-encoder-misreads-odd-size-program, second half: for witness programs whose size is not
\* 20/32/40 the library's Bech32 encoder gives up, so a view that has to encode the address reports none)
OddSize(D) == D.k = "wit" /\ Len(D.p) \notin {20, 32, 40}
ViewsAndRoundTrip(o, D) ==
    IF o.addr2 # o.addr \/ o.addr3 # o.addr
    THEN Bad("address-views-differ",
             IF OddSize(D) /\ o.addr2 \in {<<>>, o.addr} /\ o.addr3 \in {<<>>, o.addr} THEN "bech32-encoder-misreads-odd-size-program" ELSE "",
             o.addr)
    ELSE IF o.addr # <<>> /\ (~o.rtok \/ o.rtlock # o.lock) THEN Bad("round-trip-script-address-script", "", o.lock)
    ELSE Ok

\* ---- named deviation (both directions): payload bytes that read as ASCII hexadecimal text (digits, optionally white
\* space) are "unhexlified": the code works with the bytes that text denotes (half as many) instead of the payload
HexDigit(c) == c \in 48..57 \/ c \in 65..70 \/ c \in 97..102
WhiteSp(c) == c \in {9, 10, 11, 12, 13, 32}
HexText(p) == p # <<>> /\ \A i \in 1..Len(p) : HexDigit(p[i]) \/ WhiteSp(p[i])
PureHex(p) == p # <<>> /\ Len(p) % 2 = 0 /\ \A i \in 1..Len(p) : HexDigit(p[i])
HexVal(c) == IF c <= 57 THEN c - 48 ELSE IF c <= 70 THEN c - 55 ELSE c - 87
Unhex(p) == [i \in 1..(Len(p) \div 2) |-> 16 * HexVal(p[2 * i - 1]) + HexVal(p[2 * i])]
\* forward: where the text is pure hex the wrong script is predicted exactly (template filled with the unhexlified bytes)
DevHexFwd(r) == /\ HexText(r.p)
                /\ (PureHex(r.p) /\ r.obs.ok) => r.obs.lock = LockT(MkDest(r.dk, r.wv, Unhex(r.p)))

\* ---- named deviations, forward direction (r: record, D: destination the address denotes under r.y)
\* the witness version of an address / request with version >= 2 is dropped: the output pays to version 1
DevWitverDropped(r, D) == D.k = "wit" /\ D.v >= 2 /\ r.obs.lock = LockT(Wit(1, D.p))
\* a 20-byte witness program of version >= 1 is paid as version 0 (P2WPKH)
DevV1Plus20(r, D) == D.k = "wit" /\ D.v >= 1 /\ Len(D.p) = 20 /\ r.obs.lock = LockT(Wit(0, D.p))
\* an Address / HDKey object of another network is accepted; the output silently adopts the object's network
ObjRoutes == {"obj", "obj_data", "parse", "parse_nw", "hdkey", "tx_obj", "tx_hdkey", "akey", "tx_akey"}
DevForeignObject(r, a) == /\ r.route \in ObjRoutes /\ a.ok /\ r.obs.ok
                          /\ r.x \in NetworksOf(a) /\ r.obs.lock = Lock(DestFor(a, r.x)) /\ r.obs.addr = r.a0
\* the payload length is not checked against the requested type: the template is filled with whatever was given
DevLengthFwd(r) == /\ r.route = "hash" /\ r.obs.ok /\ r.a0 = <<>> /\ r.dk # "none"
                   /\ r.obs.lock = LockT(MkDest(r.dk, r.wv, r.p))
\* script_type p2tr with a public key: HASH160(key) is used as a 20-byte version-1 program
DevP2trFromKey(r) == r.route = "pubkey" /\ r.st = "p2tr" /\ r.obs.ok /\ r.obs.lock = LockT(Wit(1, r.h))
\* Address.parse forgets the witness version: the object re-encodes the program with version 0
DevParseWitver(r) == /\ r.route \in {"parse", "parse_nw"} /\ r.dk = "wit" /\ r.wv >= 1 /\ r.objok
                     /\ r.oa = SegwitEncode(NetOf(r.x).hrp, 0, r.p)

\* asking a key object for its uncompressed address (address_uncompressed(), address(compressed=False)) earlier
\* switches the object: afterwards it stands for the HASH160 of the uncompressed public key (r.pu) or is refused
DevUncompressed(r) == /\ r.route \in {"hdkey", "tx_hdkey"}
                      /\ \E i \in 1..Len(r.prior) : r.prior[i] \in {"addr_uncompressed", "addr_compressed_false"}
                      /\ (r.obs.ok /\ r.dk = "pkh") => r.obs.lock = LockT(PKH(r.pu))

\* an Address object whose script type is a nested-segwit name (p2sh_p2wpkh / p2sh_p2wsh: the address object of a
\* p2sh-segwit key, or Address(data, script_type='p2sh_p2wpkh')) shows a P2SH address but is paid as OP_0 <script hash>
DevNestedObject(r, D) == /\ r.route \in ObjRoutes /\ r.ot \in {"p2sh_p2wpkh", "p2sh_p2wsh"} /\ D.k = "sh"
                         /\ r.obs.lock = LockT(Wit(0, D.p))
\* the address object of a key carries an unlocking-script name (sig_pubkey, p2sh_multisig) which Output cannot fill in
DevKeyObjectRefused(r) == r.route \in {"akey", "tx_akey"} /\ ~r.obs.ok /\ r.ot \in {"sig_pubkey", "p2sh_multisig"}

\* a nested-segwit type asked for with a bare hash / key (script_type p2sh_p2wpkh / p2sh_p2wsh): the output carries the
\* inner witness program OP_0 <hash given> while it shows the P2SH address
DevNestedRequest(r, D) == /\ r.route \in {"hash", "pubkey"} /\ r.st \in {"p2sh_p2wpkh", "p2sh_p2wsh"} /\ D.k = "sh"
                          /\ r.obs.lock = LockT(Wit(0, r.h))
\* script_type p2wsh with a public key: HASH160(key) is put into the P2WSH template (a P2WPKH script called p2wsh)
DevWshFromKey(r) == r.route = "pubkey" /\ r.st = "p2wsh" /\ r.obs.lock = LockT(Wit(0, r.h))

JFwd(r) ==
    LET a == DecodeAddr(r.a0)
        D == DestFor(a, r.y)
        o == r.obs
    IN
    IF r.hasobj /\ ~r.objok
    THEN (IF Standard(MkDest(r.dk, r.wv, r.p))
          THEN Bad("object-refused-standard-destination", IF HexText(r.p) THEN "hex-text-payload-unhexlified" ELSE "", r.a0)
          ELSE Ok)
    ELSE IF r.hasobj /\ r.oa # r.a0
    THEN Bad("object-address", IF DevParseWitver(r) THEN "address-parse-drops-witness-version"
                               ELSE IF HexText(r.p) THEN "hex-text-payload-unhexlified" ELSE "", r.a0)
    ELSE IF D = NoDest
    THEN (IF ~o.ok THEN Ok
          ELSE IF r.route = "pubkey" /\ r.st = "p2tr" /\ Len(o.lock) = 34 /\ o.lock[1] = 81 /\ o.lock[2] = 32 THEN Ok  \* a real taproot output key is not judged here
          ELSE Bad("foreign-or-invalid-destination-not-refused",
                   IF DevForeignObject(r, a) THEN "foreign-network-object-accepted"
                   ELSE IF DevLengthFwd(r) THEN "payload-length-not-checked"
                   ELSE IF DevP2trFromKey(r) THEN "p2tr-from-public-key-uses-hash160" ELSE "", <<>>))
    ELSE IF ~o.ok THEN (IF Standard(D)
                        THEN Bad("standard-destination-refused",
                                 IF DevUncompressed(r) THEN "uncompressed-address-query-switches-key"
                                 ELSE IF DevKeyObjectRefused(r) THEN "key-address-object-refused" ELSE "", Lock(D))
                        ELSE Ok)
    ELSE IF o.lock # Lock(D)
    THEN Bad("lock-script", IF DevWitverDropped(r, D) THEN "witness-version-above-1-paid-as-v1"
                            ELSE IF DevV1Plus20(r, D) THEN "witness-v1plus-20byte-paid-as-p2wpkh"
                            ELSE IF DevHexFwd(r) THEN "hex-text-payload-unhexlified"
                            ELSE IF DevUncompressed(r) THEN "uncompressed-address-query-switches-key"
                            ELSE IF DevNestedObject(r, D) THEN "nested-segwit-address-object-paid-as-p2wpkh"
                            ELSE IF DevNestedRequest(r, D) THEN "nested-segwit-request-paid-as-inner-program"
                            ELSE IF DevWshFromKey(r) THEN "p2wsh-from-public-key-uses-hash160" ELSE "", Lock(D))
    ELSE IF Standard(D) /\ o.type # TypeName(D) THEN Bad("script-type", "", <<>>)
    ELSE IF ~Standard(D) /\ o.type \in LegacyFour THEN Bad("script-type", "", <<>>)
    ELSE IF o.hash # D.p THEN Bad("public-hash", IF DevHexFwd(r) THEN "hex-text-payload-unhexlified" ELSE "", D.p)
    ELSE IF o.addr # r.a0 THEN Bad("address", IF DevHexFwd(r) THEN "hex-text-payload-unhexlified"
                                              ELSE IF OddSize(D) /\ o.addr = <<>> THEN "bech32-encoder-misreads-odd-size-program"
                                              ELSE "", r.a0)
    ELSE ViewsAndRoundTrip(o, D)

\* ---- reverse direction
JRev(r) ==
    LET D == Classify(r.s)
        S == ShapeOf(r.s)
        o == r.obs
        ea == IF D = NoDest THEN <<>> ELSE AddrT(r.facts, r.y, D)
        \* named deviations: the templates are matched on parsed items, so (1) a non-minimal push of a valid payload
        \* and (2) a payload of the wrong length (P2PKH / P2SH shapes) are reported as the standard type
        \* (for witness shapes of an invalid size the address the code derives is not predicted: '' or a wrong string)
        shaped == D = NoDest /\ S # NoDest /\ o.ok /\ o.hash = S.p
        devNM == shaped /\ ValidDest(S) /\ o.type = TypeName(S) /\ o.addr = AddrT(r.facts, r.y, S)
        devLen == /\ shaped /\ ~ValidDest(S)
                  /\ \/ S.k \in {"pkh", "sh"} /\ o.type = (IF S.k = "pkh" THEN "p2pkh" ELSE "p2sh") /\ o.addr = AddrT(r.facts, r.y, S)
                     \/ S.k = "wit" /\ S.v = 0 /\ o.type \in {"p2wpkh", "p2wsh"}
                     \/ S.k = "wit" /\ S.v >= 1 /\ o.type = "p2tr"
        \* named deviation: the transactions of a parsed block are read on the default network, not on the network named
        devBlk == /\ r.route \in BlockRoutes /\ r.y # DefaultNet /\ D # NoDest /\ o.ok
                  /\ NeedAddr(r.facts, DefaultNet, D) = <<>> /\ o.addr = AddrT(r.facts, DefaultNet, D)
        \* named deviation: a script that is no template but pushes something key-shaped gets the address of that "key"
        kk == FirstKey(r.s)
        devKey == /\ D = NoDest /\ kk # <<>> /\ o.ok /\ o.type \notin StandardNames
                  /\ LET h == Get(r.facts, "hash160", kk) IN
                     o.hash = h /\ o.addr \in {AddrT(r.facts, r.y, Wit(0, h)), AddrT(r.facts, r.y, PKH(h))}
        \* named deviation: the Bech32 encoder takes a program whose size is not 20/32/40 and whose second byte equals
        \* its size - 2 for "version opcode, length, program" and encodes the rest under that version
        devEmb == /\ D.k = "wit" /\ Len(D.p) \notin {20, 32, 40} /\ D.p[2] = Len(D.p) - 2
                  /\ LET v2 == IF D.p[1] # 0 THEN D.p[1] - 80 ELSE D.v IN
                     v2 \in 0..16 /\ o.addr = SegwitEncode(NetOf(r.y).hrp, v2, Drop(D.p, 2))
    IN
    IF NeedAddr(r.facts, r.y, D) # <<>> \/ (S # D /\ NeedAddr(r.facts, r.y, S) # <<>>)
       \/ (D = NoDest /\ NeedKey(r.facts, r.y, r.s) # <<>>) THEN Bad("missing-fact", "", <<>>)
    ELSE IF Standard(D)
    THEN (IF ~o.ok THEN Bad("standard-script-refused", "", ea)
          ELSE IF o.type # TypeName(D) THEN Bad("script-type", "", ea)
          ELSE IF o.hash # D.p THEN Bad("public-hash", "", D.p)
          ELSE IF o.addr # ea THEN Bad("address", IF HexText(D.p) THEN "hex-text-payload-unhexlified"
                                              ELSE IF devBlk THEN "block-parse-ignores-network" ELSE "", ea)
          ELSE IF o.lock # r.s THEN Bad("lock-script", "", r.s)
          ELSE ViewsAndRoundTrip(o, D))
    ELSE IF ~o.ok THEN Ok                       \* refusing a script that is not standard is allowed
    ELSE IF D # NoDest                          \* valid witness program of a future version / size
    THEN (IF o.type \in LegacyFour THEN Bad("script-type", "", ea)
          ELSE IF o.addr # <<>> /\ o.addr # ea
          THEN Bad("address", IF devEmb THEN "bech32-encoder-misreads-odd-size-program"
                              ELSE IF devBlk THEN "block-parse-ignores-network" ELSE "", ea)
          ELSE IF o.addr # <<>> /\ o.hash # D.p THEN Bad("public-hash", "", D.p)
          ELSE IF o.type = "p2tr" /\ o.witver # D.v THEN Bad("witness-version", "", <<D.v>>)
          ELSE IF o.lock # r.s THEN Bad("lock-script", "", r.s)
          ELSE ViewsAndRoundTrip(o, D))
    ELSE IF o.type \in StandardNames \/ o.addr # <<>>
    THEN Bad("nonstandard-script-reported-as-standard",
             IF devNM THEN "nonminimal-push-classified-standard"
             ELSE IF devLen THEN "payload-length-not-checked"
             ELSE IF devKey THEN "address-from-embedded-public-key" ELSE "", <<>>)
    ELSE Ok

\* ---- relational judgement over the witness versions 1..16 of one program size on one route and network: what is
\* "answered" (reverse: an address is reported; forward: the output is built) is answered for every version or for none.
\* Each single answer has been judged above; this catches a version that alone is silently answered "unknown" / refused.
JUniform(r) ==
    LET Answered(e) == e.ok /\ (r.dir = "rev" => e.addr # <<>>)
        I == 1..Len(r.answers)
        yes == {r.answers[i].wv : i \in {j \in I : Answered(r.answers[j])}}
        no == {r.answers[i].wv : i \in {j \in I : ~Answered(r.answers[j])}}
        SetToSeq(S) == LET RECURSIVE F(_)
                           F(T) == IF T = {} THEN <<>> ELSE LET m == CHOOSE q \in T : \A z \in T : q <= z IN <<m>> \o F(T \ {m})
                       IN F(S)
    IN IF yes # {} /\ no \ yes # {} THEN Bad("witness-versions-answered-unevenly", "", <<SetToSeq(yes), SetToSeq(no \ yes)>>)
       ELSE Ok

\* ---- an output asked for without a script type (Transaction.add_output(value, public_hash = h) / public_key = k): the
\* library may choose among the standard destinations that commit to the payload (r.cands); whatever it chooses, the
\* output is then judged like a raw script: type, hash and address (on the network named) of the script it carries
JAny(r) ==
    LET o == r.obs
        D == Classify(o.lock)
        C == {MkDest(r.cands[i].dk, r.cands[i].wv, r.cands[i].p) : i \in 1..Len(r.cands)}
    IN IF ~o.ok THEN Bad("standard-destination-refused", "", <<>>)
       ELSE IF D \notin C THEN Bad("lock-script", "", <<>>)
       ELSE LET v == JRev([k |-> "rev", route |-> r.route, s |-> o.lock, y |-> r.y, facts |-> r.facts, obs |-> o, strict |-> TRUE]) IN
            \* (deviation payload-length-not-checked: the default p2wpkh template filled with a 32-byte hash)
            IF v.v = "script-type" /\ o.type = "p2wpkh" /\ D = Wit(0, D.p) /\ Len(D.p) = 32
            THEN [v EXCEPT !.dev = "payload-length-not-checked"] ELSE v

\* ---- the argument space: one Output(...) / add_output(...) call with several arguments naming the destination.
\* r.a: address string (of the string / the Address object / the key object handed over; <<>> = none), r.h public_hash,
\* r.kh HASH160(public_key), r.st / r.enc / r.wt ("" = not given), r.wv (-1 = not given), r.lock, r.y network named
JArgs(r) ==
    LET o == r.obs
        a == DecodeAddr(r.a)
        g == [hasa |-> r.a # <<>>, da |-> IF r.a = <<>> THEN NoDest ELSE DestFor(a, r.y),
              hasl |-> r.lock # <<>>, dl |-> IF r.lock = <<>> THEN NoDest ELSE Classify(r.lock),
              h |-> r.h, kh |-> r.kh, st |-> r.st, enc |-> r.enc, wt |-> r.wt, wv |-> r.wv]
        C == ArgCands(g)
        D == Classify(o.lock)
        \* the pair reported is ONE destination: type, hash, address (every view) and the way back all belong to the script
        Self == IF NeedAddr(r.facts, r.y, D) # <<>> THEN Bad("missing-fact", "", <<>>)
                ELSE IF Standard(D) /\ o.type # TypeName(D) THEN Bad("script-type", "", <<>>)
                ELSE IF ~Standard(D) /\ o.type \in LegacyFour THEN Bad("script-type", "", <<>>)
                ELSE IF o.hash # D.p THEN Bad("public-hash", "", D.p)
                ELSE IF o.addr # AddrT(r.facts, r.y, D) THEN Bad("script-and-address-disagree", "", AddrT(r.facts, r.y, D))
                ELSE ViewsAndRoundTrip(o, D)
        \* ---- named deviations of the argument handling (what the code does instead)
        S == ShapeOf(o.lock)
        named == D # NoDest /\ D.p \in ArgPayloads(g)
        \* payload-length-not-checked: a template (p2pkh / p2sh / the default p2wpkh) filled with a 32-byte payload, or a
        \* 20-byte one called p2wsh
        devLen == \/ D = NoDest /\ S # NoDest /\ S.p \in ArgPayloads(g)
                  \/ named /\ D.k = "wit" /\ D.v = 0 /\ o.type \in {"p2wpkh", "p2wsh"} /\ o.type # TypeName(D)
        \* an address STRING is not examined at all (network, witness version, payload, type) when public_hash, public_key
        \* or lock_script are given as well: the script comes from those, .address echoes the string
        \* (exactly when: only a public key beside it, or hash, type and encoding all known from the other arguments)
        devNotExamined == /\ r.a # <<>> /\ o.ok /\ o.addr = r.a /\ named /\ D # g.da
                          /\ \/ g.kh # <<>> /\ g.h = <<>> /\ ~g.hasl
                             \/ (g.h # <<>> \/ g.hasl) /\ (g.st # "" \/ g.hasl) /\ g.enc # ""
        \* witness_type='legacy' makes the reported address Base58 although the script carried is a witness program
        devLegacyHint == /\ r.wt = "legacy" /\ named /\ D.k = "wit"
                         /\ \E w \in {o.addr, o.addr2, o.addr3} : w # AddrT(r.facts, r.y, D)
        \* contradictory arguments are not noticed: script from one argument, address / encoding from another
        \* (without a lock_script an address that IS examined always supplies the payload; a foreign address is never a
        \* matter of contradiction)
        devContra == C = {} /\ named /\ ~ArgMustRefuse(g) /\ ((r.a # <<>> /\ ~g.hasl) => D.p = g.da.p)
        Attribution == IF devLen THEN "payload-length-not-checked"
                       ELSE IF devNotExamined THEN "address-not-examined-beside-other-arguments"
                       ELSE IF devLegacyHint THEN "legacy-witness-type-base58-address-for-witness-script"
                       ELSE IF devContra THEN "contradictory-arguments-not-noticed" ELSE ""
        V == IF ArgMustRefuse(g) THEN (IF ~o.ok THEN Ok ELSE Bad("foreign-or-invalid-destination-not-refused", "", <<>>))
             ELSE IF C # {}
             THEN (IF ~o.ok THEN (IF ArgMustAccept(g) THEN Bad("agreeing-arguments-refused", "", <<>>) ELSE Ok)
                   ELSE IF D \notin C THEN Bad("script-is-not-the-destination-named", "", <<>>)
                   ELSE Self)
             ELSE IF ~o.ok THEN Ok                          \* contradictory arguments may be refused ...
             ELSE IF D = NoDest \/ D.p \notin ArgPayloads(g) THEN Bad("contradictory-arguments-resolved-to-unnamed-payload", "", <<>>)
             ELSE Self                                      \* ... or resolved to one destination
    IN IF V.v \in {"ok", "missing-fact"} THEN V ELSE [V EXCEPT !.dev = Attribution]

Judge(r) == CASE r.k = "build" -> Build(r)
              [] r.k = "args" -> JArgs(r)
              [] r.k = "any" -> JAny(r)
              [] r.k = "uniform" -> JUniform(r)
              [] r.k = "fwd" -> JFwd(r)
              [] r.k = "rev" -> JRev(r)
              [] OTHER -> Bad("unknown-record-kind", "", <<>>)

Out == [i \in 1..Len(Recs) |-> Judge(Recs[i])]
ASSUME ndJsonSerialize(IOEnv.OUT_FILE, Out)
=============================================================================
