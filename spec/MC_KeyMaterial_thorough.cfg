SPECIFICATION Spec
CONSTANTS
  DeriveScalars = {1, 2, 3, 5, 7, 11, 20, 33, 39, 40, 64, 77, 78}
  YSamples = {0, 1, 2, 21, 22, 23, 44, 45, 46, 65, 66, 67, 68, 128, 200, 255}
INVARIANT Total
INVARIANT ScalarRule
INVARIANT PubRule
INVARIANT SamePoint
INVARIANT AddrRule
INVARIANT NestedRule
INVARIANT NoStandardForm
INVARIANT CompressionMatters
CHECK_DEADLOCK FALSE
