------------------------------- MODULE MC_Leak -------------------------------
(* All call histories up to MaxLen on a private key and a private extended key.  With Deviations = {} (MC_Leak.cfg)     *)
(* the invariants are the design-level statements of C16; with every deviation in force (MC_Leak_dev.cfg) the           *)
(* invariants say what the deviations can and cannot leak, and the leaking states must be reachable.                    *)
EXTENDS Leak, TLC
CONSTANTS MaxLen, Deviations
VARIABLES s, hist
vars == <<s, hist>>
Init == \E k \in KeyKinds : s = NewKey(k) /\ hist = <<>>
Call == /\ Len(hist) < MaxLen
        /\ \E c \in CallsOf(s) : s' = Act(Deviations, s, c).st /\ hist' = Append(hist, c)
\* witness actions (vacuity control through the coverage report): a public object holding private material, a public
\* view carrying private material
LeakHeld == ~s.private /\ Held(s) # {} /\ UNCHANGED vars
LeakOut == (\E c \in CallsOf(s) : Act(Deviations, s, c).view = "public" /\ Act(Deviations, s, c).out # {}) /\ UNCHANGED vars
PublicReached == ~s.private /\ UNCHANGED vars
Next == Call \/ LeakHeld \/ LeakOut \/ PublicReached
Spec == Init /\ [][Next]_vars

Used(C) == \E i \in 1..Len(hist) : hist[i] \in C
\* ---- the property --------------------------------------------------------------------------------------------------
NoLeak == ~s.private => Held(s) = {}
PublicViewsClean == \A c \in CallsOf(s) : LET r == Act(Deviations, s, c) IN r.view = "public" => r.out = {}
PrivateViewsListed == \A c \in CallsOf(s) : Act(Deviations, s, c).view = "private" => (s.private /\ c \in PrivateCalls)
\* nothing private comes out of a public key object, whatever is called on it
PublicAbsorbing == [][(~s.private /\ s.kind \in KeyKinds) => ~s'.private]_vars
\* a call documented to return a public object never yields a private one
PublicRequestedIsPublic == [][\A c \in PublicObjectCalls \cap CallsOf(s) : ~Act(Deviations, s, c).st.private]_vars
TypeOK == s.kind \in Kinds /\ Held(s) \subseteq Enc /\ s.private \in BOOLEAN
\* ---- what the named deviations can leak -----------------------------------------------------------------------------
WifNeedsCachingCall == (~s.private /\ "wif" \in Held(s)) => Used({"wif", "as_dict_priv", "info", "reflect"})
ScalarNeedsSigning == (~s.private /\ Held(s) \cap ScalarEnc # {}) => Used({"sign", "mktx_pub", "mktx_addr", "mktx_priv"})
XprvNeverHeld == ~s.private => "xprv" \notin Held(s)
KeyCopyHoldsOnlyWif == (~s.private /\ s.kind \in KeyKinds) => Held(s) \subseteq {"wif"}

\* no combination of optional arguments makes an export call a private view, and every call has an argument space
ASSUME \A c \in KeyCalls \cup HDOnlyCalls \cup SigCalls \cup TxCalls : ArgSpace(c) # {} /\ (c \notin CallsWithArgs => ArgSpace(c) = {NoArgs})
\* wallet and database operators: the property semantics expects nothing, for every call and item
ASSUME \A c \in {"wk_repr", "tx_save", "as_dict", "info", "public_master"}, p \in BOOLEAN, g \in BOOLEAN :
          WOut({}, c, [priv |-> p, signed |-> g]) = {}
ASSUME \A c \in {"wif_priv", "as_dict"} : WView(TRUE, c) = "public"
ASSUME DbOut("key") = {} /\ DbOut("password") = {}
=============================================================================
