--------------------------- MODULE KeyFormatsEval ---------------------------
(***************************************************************************)
(* Conformance binding of KeyFormats.tla (C12).  TLC reads ndjson records  *)
(* and writes one answer per record.                                       *)
(*                                                                         *)
(*  gen    key, hist, fmts  -> Export(After(key, hist), fmt) for every fmt *)
(*                             (hist: earlier calls on the same object;    *)
(*                             payload                                     *)
(*                             level for Base58Check forms) + the deviant  *)
(*                             payload of a named export deviation         *)
(*  str    [payload, chk]*  -> Base58 strings (chk = sha256d(payload)[:4], *)
(*                             oracle fact of the harness)                 *)
(*  judge  key, fmt, spec (string-level representation generated above),   *)
(*         code (what the implementation exported), det (get_key_format on *)
(*         the spec representation), groups of import observations         *)
(*         -> verdict on the export, on the detection and on every import  *)
(***************************************************************************)
EXTENDS KeyFormats, Json, IOUtils, TLC

Recs == ndJsonDeserialize(IOEnv.IN_FILE)

RECURSIVE SetSeq(_)
SetSeq(S) == IF S = {} THEN <<>> ELSE LET x == CHOOSE y \in S : TRUE IN <<x>> \o SetSeq(S \ {x})

\* "undef": the key (after its history) has no such representation (e.g. segwit extended key moved to dogecoin)
GenOne(k, fmt) ==
    IF ~CanExport(k, fmt) THEN [fmt |-> fmt, t |-> "undef", v |-> <<>>, w |-> <<>>, dv |-> <<>>]
    ELSE LET e == Export(k, fmt) IN
         [fmt |-> fmt, t |-> e.t, v |-> e.v, w |-> e.w,
          dv |-> IF fmt = "xpub" /\ ~k.compressed THEN XPayloadUnc(k) ELSE <<>>]

Res(r, o) ==
    [ok |-> o.ok, priv |-> o.priv, sec |-> r.pool[o.sec], sec2 |-> r.pool[o.sec2], sec3 |-> r.pool[o.sec3],
     x |-> r.pool[o.x], y |-> r.pool[o.y], pub |-> r.pool[o.pub], comp |-> o.comp, net |-> o.net, hd |-> o.hd,
     wt |-> o.wt, ms |-> o.ms, depth |-> o.depth, index |-> r.pool[o.index], fp |-> r.pool[o.fp],
     chain |-> r.pool[o.chain], rewif |-> r.pool[o.rewif]]

ExportVerdict(r) ==
    LET k == r.key IN
    IF ~r.code.ok THEN <<"export-failed", "">>
    ELSE IF r.fmt = "addr_u" THEN
         (IF r.code.t = "str" /\ AddrUEnvelope(r.code.v, k, r.h160u) THEN <<"ok", "">> ELSE <<"export-address-uncompressed", "">>)
    ELSE IF r.fmt = "bip38" THEN
         (IF r.code.t = "str" /\ Bip38Envelope(r.code.v, k.compressed) THEN <<"ok", "">> ELSE <<"export-bip38-envelope", "">>)
    ELSE IF r.code.t = r.spec.t /\ r.code.v = r.spec.v /\ r.code.w = r.spec.w THEN <<"ok", "">>
    ELSE <<"export", IF DevApplies(DevXpubUnc, k, r.fmt, "", NoHints) /\ r.devstr # <<>> /\ r.code.v = r.devstr
                     THEN DevXpubUnc ELSE "">>

\* failures among the import observations: one entry per failing call
RECURSIVE Flat(_)
Flat(ss) == IF ss = <<>> THEN <<>> ELSE Head(ss) \o Flat(Tail(ss))
ImportFails(r) ==
    LET k == r.key
        one(g, c) == LET v == Verdict(k, IF c.ep \in {"ctor", "ctork"} THEN "ctor" ELSE r.fmt, c.ep, c.h, Res(r, g.res), r.spec.v) IN
                     IF v[1] = "ok" THEN <<>> ELSE << [ep |-> c.ep, h |-> c.h, clause |-> v[1], dev |-> v[2]] >>
        grp(g)    == Flat([i \in 1..Len(g.calls) |-> one(g, g.calls[i])])
    IN Flat([j \in 1..Len(r.groups) |-> grp(r.groups[j])])

Answer(r) ==
  CASE r.k = "gen" ->
         \* r.hist: calls made on the object before the export; the representations are those of After(key, hist)
         \* r.route: how the object is made from the key (Routed); rin: the representation a route imports
         LET a == After(Routed(r.key, r.route), r.hist)
             xc == IF a.priv /\ a.secret[1] = 0 /\ (\E i \in 1..Len(r.fmts) : r.fmts[i] = "xprv") /\ CanExport(a, "xprv")
                   THEN {ConfigName(<<Family(a.network), a.wt, a.ms>>)} ELSE {}
         IN
         [v |-> "ok", dev |-> "", after |-> a, exp |-> [i \in 1..Len(r.fmts) |-> GenOne(a, r.fmts[i])],
          rin |-> IF r.route.r = "import" THEN GenOne(r.key, r.route.fmt) ELSE GenOne(r.key, "none"),
          classes |-> SetSeq(ValueClasses(a)), xcover |-> SetSeq(xc),
          \* text-looking fields count where an extended key (fp, chain, index; the secret for xprv) resp. a private
          \* form (the secret) of the object is exported
          fcover |-> SetSeq((IF \E i \in 1..Len(r.fmts) : r.fmts[i] \in ExtFmts /\ CanExport(a, r.fmts[i])
                             THEN FieldClasses(a, {"fp", "chain", "index"}) ELSE {})
                            \cup (IF a.priv /\ (\E i \in 1..Len(r.fmts) : r.fmts[i] \in {"bytes", "xprv", "wif"} /\ CanExport(a, r.fmts[i]))
                                  THEN FieldClasses(a, {"secret"}) ELSE {}))]
    [] r.k = "cover" ->      \* r.pairs: <<route, class>> pairs the run exercises; answer: what is still missing
         [v |-> "ok", dev |-> "", exp |-> SetSeq(RequiredCover \ {<<r.pairs[i][1], r.pairs[i][2]>> : i \in 1..Len(r.pairs)})]
    [] r.k = "str" ->
         [v |-> "ok", dev |-> "", exp |-> [i \in 1..Len(r.items) |-> B58String(r.items[i][1], r.items[i][2])]]
    [] r.k = "judge" ->
         LET ev == ExportVerdict(r) IN
         [v |-> ev[1], dev |-> ev[2], exp |-> <<>>,
          det |-> DetectVerdict(r.key, r.fmt, r.det),
          fails |-> ImportFails(r)]
    [] OTHER -> [v |-> "unknown-record-kind", dev |-> "", exp |-> <<>>]

Out == [i \in 1..Len(Recs) |-> Answer(Recs[i])]
ASSUME ndJsonSerialize(IOEnv.OUT_FILE, Out)
=============================================================================
