SPECIFICATION Spec
CONSTANTS
  HashBytes = {55, 170}
  BitPositions = {1, 128}
  SubstituteEverything = FALSE
INVARIANT Shape
INVARIANT LeadingZeros
INVARIANT RoundTrip
INVARIANT AcceptedIsImage
INVARIANT Mutated
CHECK_DEADLOCK FALSE
