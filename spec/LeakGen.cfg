SPECIFICATION Spec
CONSTANTS
  MaxLen = 3
INVARIANT Emit
CHECK_DEADLOCK FALSE
