------------------------------ MODULE Bip38Hist ------------------------------
(***************************************************************************)
(* C15, HISTORIES of calls within one process.  "Keys decrypt only with    *)
(* the right passphrase" - and with the right one they do - is a statement *)
(* about every call of every execution: the environment of a call includes *)
(* everything that was decrypted, encrypted or generated before it in the  *)
(* process.  The specification is memoryless: the answer to a call is the  *)
(* function of its own arguments that Bip38.tla defines (Decrypt,          *)
(* EncryptNonEC, Intermediate), whatever came before.                      *)
(*                                                                         *)
(* This module is the abstract state machine of such histories.  Tokens    *)
(* are named by what determines them: kind (plain / EC-multiplied), the    *)
(* owner's passphrase, the owner salt, the lot/sequence option             *)
(*    ls = 0: none (8-byte salt whose first 4 bytes are the 4-byte salt of *)
(*            the lot/sequence tokens of that salt name),                  *)
(*    1, 2: one lot, sequence 1 and 2,   3: another lot, sequence 1        *)
(* i.e. the normal owner scenario - one intermediate-code family, sequence *)
(* 1, 2, ... - next to another passphrase on the same salt, another salt,  *)
(* and a plain key.  Calls: dec(token, passphrase), enc(plain key,         *)
(* passphrase), inter(passphrase, salt, ls).                               *)
(*                                                                         *)
(* Next to the specification's memoryless implementation the model runs    *)
(* implementations WITH memory (caches keyed by too little); a history     *)
(* "exposes" such an implementation when some call of it is answered       *)
(* differently from the function of its arguments.  TLC enumerates the     *)
(* histories (Histories(L)) with the set of implementations each exposes;  *)
(* the driver replays a cover of them, each in one fresh process, and      *)
(* every answer is judged by Bip38Eval against Bip38.tla on its own        *)
(* arguments.  MC_Bip38Hist: the memoryless implementation is never        *)
(* blamed; every implementation with memory is exposed by some history.    *)
(***************************************************************************)
EXTENDS Naturals, Sequences, FiniteSets

HPws == {"P", "Q"}
HTok(kind, p, s, ls) == [kind |-> kind, p |-> p, s |-> s, ls |-> ls]
HEcToks == {HTok("ec", "P", "S", l) : l \in 0..3} \cup {HTok("ec", "Q", "S", 1), HTok("ec", "P", "T", 1)}
HPlainToks == {HTok("plain", "P", "-", 0)}
HToks == HEcToks \cup HPlainToks
HCall(c, t, pw) == [c |-> c, t |-> t, pw |-> pw]
HCalls == {HCall("dec", t, pw) : t \in HToks, pw \in HPws}
          \cup {HCall("enc", t, t.p) : t \in HPlainToks}
          \cup {HCall("inter", t, t.p) : t \in {HTok("ec", "P", "S", 1), HTok("ec", "P", "S", 2), HTok("ec", "Q", "S", 1)}}
Histories(L) == [1..L -> HCalls]

\* the answer: a function of the call's own arguments
HAns(call) == IF call.c = "dec" THEN (IF call.pw = call.t.p THEN <<"key", call.t>> ELSE <<"error">>)
              ELSE <<"output-of", call>>

\* ------------------------------------------------------------------ implementations
\* memory: a set of <<cache key, value>> pairs; the first entry for a key wins
HLookup(m, k) == IF \E x \in m : x[1] = k THEN <<(CHOOSE x \in m : x[1] = k)[2]>> ELSE <<>>
HStore(m, k, v) == IF \E x \in m : x[1] = k THEN m ELSE m \cup {<<k, v>>}
\* the owner salt a decryption works with: 4 bytes with lot/sequence, the whole 8 bytes without
HSalt(t) == <<t.s, IF t.ls = 0 THEN 8 ELSE 4>>
\* pass factor of (passphrase, token): what the EC-multiplied decryption derives before it touches the ciphertext
HPassFactor(pw, t) == <<pw, t.s, t.ls>>
HImpls == {"spec", "passfactor-by-passphrase-and-salt", "passfactor-by-passphrase-and-salt-prefix", "passfactor-by-salt",
           "passfactor-by-passphrase", "answer-by-token", "derived-key-by-passphrase", "intermediate-by-passphrase-and-salt"}
\* cache key of the pass factor, per implementation (<<>>: no such cache)
HPfKey(impl, pw, t) ==
    CASE impl = "passfactor-by-passphrase-and-salt"        -> <<"pf", pw, HSalt(t)>>
      [] impl = "passfactor-by-passphrase-and-salt-prefix" -> <<"pf", pw, t.s>>
      [] impl = "passfactor-by-salt"                       -> <<"pf", HSalt(t)>>
      [] impl = "passfactor-by-passphrase"                 -> <<"pf", pw>>
      [] impl = "derived-key-by-passphrase"                -> <<"pf", pw>>      \* one scrypt cache for plain and EC keys
      [] OTHER -> <<>>
\* [m (next memory), ans]
HStep(impl, m, call) ==
    LET t == call.t IN
    IF impl = "spec" THEN [m |-> m, ans |-> HAns(call)]
    ELSE IF call.c = "dec" /\ impl = "answer-by-token" THEN
         LET hit == HLookup(m, <<"ans", t>>) IN
         [m |-> HStore(m, <<"ans", t>>, HAns(call)), ans |-> IF hit = <<>> THEN HAns(call) ELSE hit[1]]
    ELSE IF call.c = "dec" /\ (t.kind = "ec" \/ impl = "derived-key-by-passphrase") /\ HPfKey(impl, call.pw, t) # <<>> THEN
         LET k   == HPfKey(impl, call.pw, t)
             hit == HLookup(m, k)
             pf  == IF hit = <<>> THEN HPassFactor(call.pw, t) ELSE hit[1]
         IN [m |-> HStore(m, k, pf), ans |-> IF pf = HPassFactor(t.p, t) THEN <<"key", t>> ELSE <<"error">>]
    ELSE IF call.c = "inter" /\ impl = "intermediate-by-passphrase-and-salt" THEN
         LET k   == <<"inter", call.pw, t.s>>
             hit == HLookup(m, k)
         IN [m |-> HStore(m, k, HAns(call)), ans |-> IF hit = <<>> THEN HAns(call) ELSE hit[1]]
    ELSE [m |-> m, ans |-> HAns(call)]

RECURSIVE HRun(_, _, _, _)
HRun(impl, m, h, i) == IF i > Len(h) THEN FALSE
                       ELSE LET x == HStep(impl, m, h[i]) IN x.ans # HAns(h[i]) \/ HRun(impl, x.m, h, i + 1)
HExposes(h, impl) == HRun(impl, {}, h, 1)
HExposed(h) == {impl \in HImpls : HExposes(h, impl)}
=============================================================================
