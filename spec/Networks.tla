------------------------------ MODULE Networks ------------------------------
(***************************************************************************)
(* The network reference table and its lookups (bitcoinlib/networks.py).   *)
(* Specification growth beyond the listed properties (DESIGN section 7):   *)
(* C04, C05, C09 and C12 each use ONE row of this table at a time; the     *)
(* lookups that go from a prefix back to networks, and the structure of    *)
(* the table as a whole, are stated by none of them.                       *)
(*                                                                         *)
(* A table is a sequence (definition order matters: ties are broken by it) *)
(* of rows [name, priority, prefix_address, prefix_address_p2sh,           *)
(* prefix_bech32, prefix_wif, cointype, code, hd] where hd is the sequence *)
(* of extended-key versions [prefix, str, priv, multisig, witness, script].*)
(* NetworksData!Pinned is the table of the pinned commit; its version      *)
(* bytes were compared by hand with BIP32 (xpub/xprv/tpub/tprv), SLIP-132  *)
(* (y/Y/z/Z, u/U/v/V, Ltub/Ltpv/Mtub/Mtpv) and the coins' chainparams      *)
(* (address, script and secret-key version bytes, bech32 prefixes).        *)
(*                                                                         *)
(* What the lookups are required to do is written from their documentation:*)
(*  ByValue      "return all networks for field and (prefix) value",        *)
(*               highest priority first                                    *)
(*  Search       "extract network, script type and public/private          *)
(*               information from ... WIF prefix", optionally limited to a *)
(*               witness type, to multisig yes/no, to a network            *)
(*  WifPrefix    "get WIF prefix for this network and specifications in    *)
(*               arguments"                                                *)
(***************************************************************************)
EXTENDS Naturals, Sequences, FiniteSets

Fields == {"prefix_address", "prefix_address_p2sh", "prefix_bech32", "prefix_wif"}
WitnessTypes == {"legacy", "p2sh-segwit", "segwit"}
Idx(T) == 1..Len(T)
Names(T) == {T[i].name : i \in Idx(T)}
Row(T, nm) == T[CHOOSE i \in Idx(T) : T[i].name = nm]

(* ---- network_by_value ---- *)
Hits(T, f, v) == {i \in Idx(T) : T[i][f] = v}
\* position of row i among the hits: higher priority first, definition order among equals
Rank(T, H, i) == Cardinality({j \in H : T[j].priority > T[i].priority \/ (T[j].priority = T[i].priority /\ j < i)}) + 1
Ordered(T, H) == [k \in 1..Cardinality(H) |-> T[CHOOSE i \in H : Rank(T, H, i) = k].name]
\* v as given; vu = v in upper case (tried only when v itself matches nothing)
ByValue(T, f, v, vu) == LET h == Hits(T, f, v) IN Ordered(T, IF h = {} THEN Hits(T, f, vu) ELSE h)

(* ---- wif_prefix_search ---- *)
\* wt = "" : any witness type; ms \in {"any", "yes", "no"}; net = "" : any network
Match(e, p, wt, ms) == /\ e.prefix = p
                       /\ (ms = "any" \/ e.multisig = (ms = "yes"))
                       /\ (wt = "" \/ e.witness = wt)
Entry(T, i, k) == [prefix |-> T[i].hd[k].prefix, is_private |-> T[i].hd[k].priv, prefix_str |-> T[i].hd[k].str,
                   network |-> T[i].name, witness_type |-> T[i].hd[k].witness, multisig |-> T[i].hd[k].multisig,
                   script_type |-> T[i].hd[k].script]
PerNet(T, i, p, wt, ms) ==
    LET ks == SelectSeq([k \in 1..Len(T[i].hd) |-> k], LAMBDA k : Match(T[i].hd[k], p, wt, ms))
    IN [j \in 1..Len(ks) |-> Entry(T, i, ks[j])]
RECURSIVE SearchFrom(_, _, _, _, _, _)
SearchFrom(T, i, p, wt, ms, net) ==
    IF i > Len(T) THEN <<>>
    ELSE (IF net = "" \/ T[i].name = net THEN PerNet(T, i, p, wt, ms) ELSE <<>>) \o SearchFrom(T, i + 1, p, wt, ms, net)
Search(T, p, wt, ms, net) == SearchFrom(T, 1, p, wt, ms, net)

(* ---- Network.wif_prefix ---- *)
ScriptOf(wt, multisig) ==
    CASE wt = "legacy"      -> IF multisig THEN "p2sh" ELSE "p2pkh"
      [] wt = "segwit"      -> IF multisig THEN "p2wsh" ELSE "p2wpkh"
      [] wt = "p2sh-segwit" -> IF multisig THEN "p2sh_p2wsh" ELSE "p2sh_p2wpkh"
Candidates(r, priv, wt, multisig) == {k \in 1..Len(r.hd) : r.hd[k].priv = priv /\ r.hd[k].script = ScriptOf(wt, multisig)}
HasWifPrefix(r, priv, wt, multisig) == Candidates(r, priv, wt, multisig) # {}
WifPrefix(r, priv, wt, multisig) == LET c == Candidates(r, priv, wt, multisig) IN r.hd[CHOOSE k \in c : \A j \in c : k <= j].prefix

(* ---- structure of a table (the invariants MC_Networks checks on Pinned) ---- *)
\* every row is well formed
HexDigits == {"0", "1", "2", "3", "4", "5", "6", "7", "8", "9", "A", "B", "C", "D", "E", "F"}
RowShape(r) == /\ r.priority \in Nat /\ r.cointype \in Nat
               /\ \A k \in 1..Len(r.hd) : r.hd[k].witness \in WitnessTypes /\ r.hd[k].multisig \in BOOLEAN /\ r.hd[k].priv \in BOOLEAN
                                          /\ r.hd[k].script = ScriptOf(r.hd[k].witness, r.hd[k].multisig)
\* one network never uses one version byte for both address kinds (an address would not say which script it pays to)
AddressKindsDistinct(r) == r.prefix_address # r.prefix_address_p2sh
\* within a network a version never stands for both a public and a private key
VersionTellsPrivacy(r) == \A j, k \in 1..Len(r.hd) : r.hd[j].prefix = r.hd[k].prefix => r.hd[j].priv = r.hd[k].priv /\ r.hd[j].str = r.hd[k].str
\* what wif_prefix hands out is found again by the search limited to the same network, witness type and multisig flag,
\* and that limited search never returns two different meanings
RoundTrip(T, r, priv, wt, multisig) ==
    HasWifPrefix(r, priv, wt, multisig) =>
        LET s == Search(T, WifPrefix(r, priv, wt, multisig), wt, IF multisig THEN "yes" ELSE "no", r.name)
        IN Len(s) = 1 /\ s[1].is_private = priv /\ s[1].witness_type = wt /\ s[1].multisig = multisig
\* networks that share a prefix and a priority are told apart by definition order only
Tied(T, f) == {<<T[i].name, T[j].name>> : i, j \in Idx(T)} \cap
              {p \in Names(T) \X Names(T) : p[1] # p[2] /\ Row(T, p[1])[f] = Row(T, p[2])[f] /\ Row(T, p[1]).priority = Row(T, p[2]).priority}
=============================================================================
