---------------------------- MODULE NetworksEval ----------------------------
(***************************************************************************)
(* Conformance binding for Networks.tla.  Each record carries the table as *)
(* the working tree's bitcoinlib/data/networks.json states it (projected   *)
(* by harness/networks.py) and a batch of lookups with what the library    *)
(* answered.  TLC reports (1) where the table differs from the pinned one, *)
(* (2) which structural statements of Networks.tla the table breaks, and   *)
(* (3) for every lookup whether the answer is the one the specification    *)
(* computes FROM THE TABLE GIVEN (so a changed table and a changed lookup  *)
(* are told apart).                                                        *)
(***************************************************************************)
EXTENDS Networks, NetworksData, Json, IOUtils, TLC

Recs == ndJsonDeserialize(IOEnv.IN_FILE)

RowFields == {"name", "priority", "prefix_address", "prefix_address_p2sh", "prefix_bech32", "prefix_wif", "cointype", "code", "hd"}
DataDiff(T) ==
    LET common == Names(T) \cap Names(Pinned)
    IN [missing |-> Names(Pinned) \ Names(T), added |-> Names(T) \ Names(Pinned),
        order |-> [i \in Idx(T) |-> T[i].name] # [i \in Idx(Pinned) |-> Pinned[i].name],
        changed |-> {<<nm, f>> \in common \X RowFields : Row(T, nm)[f] # Row(Pinned, nm)[f]}]

Structure(T) ==
    {<<"row-shape", T[i].name>> : i \in {j \in Idx(T) : ~RowShape(T[j])}}
    \cup {<<"address-kinds-share-a-version", T[i].name>> : i \in {j \in Idx(T) : ~AddressKindsDistinct(T[j])}}
    \cup {<<"version-stands-for-public-and-private", T[i].name>> : i \in {j \in Idx(T) : ~VersionTellsPrivacy(T[j])}}
    \cup {<<"wif-prefix-not-found-again", T[i].name>> : i \in {j \in Idx(T) :
             \E priv \in BOOLEAN, wt \in WitnessTypes, m \in BOOLEAN : ~RoundTrip(T, T[j], priv, wt, m)}}

Judge(T, c) ==
    CASE c.op = "by_value" ->
           LET e == ByValue(T, c.f, c.v, c.vu) IN
           IF c.raised THEN [v |-> "lookup-raised", exp |-> e]
           ELSE IF c.got = e THEN [v |-> "ok", exp |-> <<>>]
           ELSE IF {c.got[k] : k \in 1..Len(c.got)} = {e[k] : k \in 1..Len(e)} /\ Len(c.got) = Len(e) THEN [v |-> "by-value-order", exp |-> e]
           ELSE [v |-> "by-value-members", exp |-> e]
      [] c.op = "search" ->
           LET e == Search(T, c.p, c.wt, c.ms, c.net) IN
           IF c.raised THEN [v |-> "lookup-raised", exp |-> e]
           ELSE IF c.got = e THEN [v |-> "ok", exp |-> <<>>]
           ELSE IF {c.got[k] : k \in 1..Len(c.got)} = {e[k] : k \in 1..Len(e)} THEN [v |-> "search-order-or-duplicates", exp |-> e]
           ELSE [v |-> "search-entries", exp |-> e]
      [] c.op = "wif_prefix" ->
           LET r == Row(T, c.net) has == HasWifPrefix(r, c.priv, c.wt, c.multisig) IN
           IF ~has THEN (IF c.raised THEN [v |-> "ok", exp |-> <<>>] ELSE [v |-> "wif-prefix-invented", exp |-> <<>>])
           ELSE IF c.raised THEN [v |-> "wif-prefix-refused", exp |-> <<WifPrefix(r, c.priv, c.wt, c.multisig)>>]
           ELSE IF c.got = WifPrefix(r, c.priv, c.wt, c.multisig) THEN [v |-> "ok", exp |-> <<>>]
           ELSE [v |-> "wif-prefix-value", exp |-> <<WifPrefix(r, c.priv, c.wt, c.multisig)>>]
      [] OTHER -> [v |-> "unknown-op", exp |-> <<>>]

Out == [i \in 1..Len(Recs) |->
          LET r == Recs[i] IN
          [diff |-> IF r.first THEN DataDiff(r.table) ELSE [missing |-> {}, added |-> {}, order |-> FALSE, changed |-> {}],
           structure |-> IF r.first THEN Structure(r.table) ELSE {},
           calls |-> [k \in 1..Len(r.calls) |-> Judge(r.table, r.calls[k])]]]
ASSUME ndJsonSerialize(IOEnv.OUT_FILE, Out)
=============================================================================
