SPECIFICATION Spec
CONSTANTS
  N = 4
  MaxSteps = 5
INVARIANT ListedIsPrefix
PROPERTY Monotone
PROPERTY DictDoesNotConsume
CHECK_DEADLOCK FALSE
