-------------------------------- MODULE Wire --------------------------------
(***************************************************************************)
(* Wire primitives of the Bitcoin protocol, transcribed from the protocol  *)
(* documentation and the consensus code (serialize.h ReadCompactSize /     *)
(* WriteCompactSize, script.h CScriptNum, CScript::operator<<).            *)
(*   - CompactSize integers (values are minimal little-endian byte         *)
(*     sequences, because they range up to 2^64-1)                         *)
(*   - script numbers (sign-magnitude little-endian, |i| < 2^31)           *)
(*   - data pushes                                                         *)
(*   - scripts as sequences of items  [t |-> "op", c |-> 0..255]  or       *)
(*     [t |-> "data", d |-> bytes]  with serialization and a parser that   *)
(*     is a small state machine (one item per step).                       *)
(***************************************************************************)
EXTENDS Bytes

\* ------------------------------------------------------------ CompactSize
CSFits(t, w) == IF w = 0 THEN Len(t) = 0 \/ (Len(t) = 1 /\ t[1] < 253) ELSE Len(t) <= w
CSWidthFor(v) == LET t == Trim(v) IN
                 IF CSFits(t, 0) THEN 0 ELSE IF CSFits(t, 2) THEN 2 ELSE IF CSFits(t, 4) THEN 4 ELSE 8
CSForm(v, w) == LET t == Trim(v) IN
                IF w = 0 THEN PadLE(t, 1)
                ELSE <<(IF w = 2 THEN 253 ELSE IF w = 4 THEN 254 ELSE 255)>> \o PadLE(t, w)
CSEnc(v) == CSForm(v, CSWidthFor(v))

CSWidthOf(first) == IF first < 253 THEN 0 ELSE IF first = 253 THEN 2 ELSE IF first = 254 THEN 4 ELSE 8
CSErr == [ok |-> FALSE, v |-> <<>>, n |-> 0]
CSDec(b) == IF b = <<>> THEN CSErr
            ELSE LET w == CSWidthOf(b[1]) IN
                 IF Len(b) < 1 + w THEN CSErr
                 ELSE [ok |-> TRUE, v |-> (IF w = 0 THEN Trim(<<b[1]>>) ELSE Trim(SubSeq(b, 2, 1 + w))), n |-> 1 + w]
\* canonical ("minimal") encodings are those a node accepts: the shortest form of the value
CSCanonical(b) == LET r == CSDec(b) IN r.ok /\ CSEnc(r.v) = Take(b, r.n)

\* length of a byte string as a CompactSize value, and length-prefixed strings
LenLE(d) == NatToLE(Len(d), 256)
VarStr(d) == CSEnc(LenLE(d)) \o d

\* --------------------------------------------------------- script numbers
Abs(i) == IF i < 0 THEN -i ELSE i
NumEnc(i) == IF i = 0 THEN <<>>
             ELSE LET m == NatToLE(Abs(i), 256) IN
                  IF m[Len(m)] >= 128 THEN m \o <<(IF i < 0 THEN 128 ELSE 0)>>
                  ELSE IF i < 0 THEN [m EXCEPT ![Len(m)] = @ + 128] ELSE m
\* decoding as consensus does it (also of non-minimal forms and negative zero), operands up to 4 bytes
NumDec(b) == IF b = <<>> THEN 0
             ELSE LET last == b[Len(b)]
                      mag  == LEVal([b EXCEPT ![Len(b)] = last % 128])
                  IN IF last >= 128 THEN -mag ELSE mag
NumMinimal(b) == b = <<>> \/ (b[Len(b)] % 128 # 0) \/ (Len(b) > 1 /\ b[Len(b) - 1] >= 128)

\* ------------------------------------------------------------------ pushes
OP_PUSHDATA1 == 76
OP_PUSHDATA2 == 77
OP_PUSHDATA4 == 78
PushPrefix(n) == IF n <= 75 THEN <<n>>
                 ELSE IF n <= 255 THEN <<OP_PUSHDATA1, n>>
                 ELSE IF n <= 65535 THEN <<OP_PUSHDATA2>> \o LE(n, 2)
                 ELSE <<OP_PUSHDATA4>> \o LE(n, 4)
Push(d) == PushPrefix(Len(d)) \o d

\* ----------------------------------------------------------------- scripts
Op(c) == [t |-> "op", c |-> c]
Data(d) == [t |-> "data", d |-> d]
IsOpcode(c) == c = 0 \/ c >= 79          \* byte values that are not a push prefix
SerItem(it) == IF it.t = "op" THEN <<it.c>> ELSE Push(it.d)
RECURSIVE SerScript(_)
SerScript(s) == IF s = <<>> THEN <<>> ELSE SerItem(Head(s)) \o SerScript(Tail(s))

\* items as a parser reports them: an empty push is OP_0
WellFormedItem(it) == IF it.t = "op" THEN IsOpcode(it.c) ELSE Len(it.d) >= 1 /\ Len(it.d) <= 65535

PErr == [ok |-> FALSE, item |-> Op(0), n |-> 0]
\* pd4 = TRUE: the protocol (OP_PUSHDATA4 is a push prefix);  pd4 = FALSE: byte 78 read as a plain opcode
ParseItemG(buf, pd4) ==
    LET c == buf[1] IN
    IF c = 0 \/ c >= 79 \/ (c = 78 /\ ~pd4) THEN [ok |-> TRUE, item |-> Op(c), n |-> 1]
    ELSE LET hdr == IF c <= 75 THEN 1 ELSE IF c = 76 THEN 2 ELSE IF c = 77 THEN 3 ELSE 5 IN
         IF Len(buf) < hdr \/ (hdr = 5 /\ buf[5] # 0) THEN PErr     \* a 4-byte length >= 2^24 exceeds every buffer
         ELSE LET n == IF c <= 75 THEN c ELSE LEVal(SubSeq(buf, 2, IF hdr = 5 THEN 4 ELSE hdr)) IN
              IF Len(buf) < hdr + n THEN PErr
              ELSE [ok |-> TRUE, item |-> Data(SubSeq(buf, hdr + 1, hdr + n)), n |-> hdr + n]
ParseItem(buf) == ParseItemG(buf, TRUE)

RECURSIVE ParseScriptG(_, _)
ParseScriptG(buf, pd4) ==
    IF buf = <<>> THEN [ok |-> TRUE, items |-> <<>>]
    ELSE LET r == ParseItemG(buf, pd4) IN
         IF ~r.ok THEN [ok |-> FALSE, items |-> <<>>]
         ELSE LET rest == ParseScriptG(Drop(buf, r.n), pd4) IN
              [ok |-> rest.ok, items |-> IF rest.ok THEN <<r.item>> \o rest.items ELSE <<>>]
ParseScript(buf) == ParseScriptG(buf, TRUE)
=============================================================================
