------------------------------ MODULE MC_Ecdsa ------------------------------
(***************************************************************************)
(* Bounded model for Ecdsa.tla.  The group is a toy curve y^2 = x^3 + 7    *)
(* over F_P of prime order Q (same shape as secp256k1, Q < P), on which    *)
(* TLC computes ECDSA itself, so that the "oracle facts" of Ecdsa.tla are  *)
(* real here.  Three families of initial states:                           *)
(*  mode "sign"   a state machine: signatures are produced one after the   *)
(*                other by the specification's signer (SpecSign) and by    *)
(*                faulty signers (BadSign); every event goes through the   *)
(*                very ledger/judge operators the conformance check uses.  *)
(*                Invariants: the specification's signer is never blamed,  *)
(*                and the judge blames a history exactly when it breaks    *)
(*                Deterministic / NonceUnique / LowS / StrictDER / Valid.  *)
(*  mode "der"    all pairs of integers of a boundary domain: DER round    *)
(*                trip, and every encoding class of the verifier table     *)
(*                denotes what it is meant to denote.                      *)
(*  mode "verify" all (key, digest, r, s, on-curve) of the toy group and   *)
(*                all encoding classes: the verdict operator accepts the   *)
(*                reference verifier, and blames every other answer on     *)
(*                raw/strict encodings; twin and completeness laws.        *)
(***************************************************************************)
EXTENDS Ecdsa, TLC
CONSTANTS P, Q, Gx, Gy, Tab,    \* toy curve: field prime, group order, generator, multiples of the generator
          KeySeq, DigestSeq,    \* private keys (1..Q-1) and digests (0..Q-1), as sequences
          NRandom,              \* size of the pool the library's random nonces come from
          ExplicitK,            \* nonces a caller may supply
          HashTypes,            \* hash-type bytes (DER model)
          SignHashTypes,        \* hash-type bytes used by the signing machine
          MaxEvents,
          VerifyDigests         \* digests of the verifier model

MCKeys2 == <<3, 7>>          MCKeys3 == <<3, 7, 30>>
MCDigests3 == <<5, 9, 0>>    MCDigests4 == <<5, 9, 0, 30>>

\* ------------------------------------------------------------------ toy group
ModInv(a, m) == CHOOSE x \in 1..(m - 1) : (a * x) % m = 1
Inf == [inf |-> TRUE, x |-> 0, y |-> 0]
Pt(x, y) == [inf |-> FALSE, x |-> x, y |-> y]
G == Pt(Gx, Gy)
OnCurve(A) == A.inf \/ (A.y * A.y) % P = (A.x * A.x * A.x + 7) % P
Add(A, B) ==
    IF A.inf THEN B ELSE IF B.inf THEN A
    ELSE IF A.x = B.x /\ (A.y + B.y) % P = 0 THEN Inf
    ELSE LET lam == IF A.x = B.x THEN (3 * A.x * A.x * ModInv((2 * A.y) % P, P)) % P
                    ELSE (((B.y + P - A.y) % P) * ModInv((B.x + P - A.x) % P, P)) % P
             x3 == (lam * lam + 2 * P - A.x - B.x) % P
         IN Pt(x3, (lam * ((A.x + P - x3) % P) + P - A.y) % P)
\* Tab[k] = k*G.  The table is a literal (TLC's coverage mode does not cache lazy values, which makes a recursive
\* construction exponential); it is not trusted: the ASSUMEs below check it against the group law.
Tab43 == <<
          Pt(2, 12), Pt(7, 7), Pt(35, 21), Pt(21, 18), Pt(12, 12), Pt(29, 31), Pt(25, 18), Pt(32, 40),
          Pt(20, 40), Pt(42, 7), Pt(40, 25), Pt(37, 36), Pt(13, 21), Pt(34, 40), Pt(38, 21), Pt(38, 22),
          Pt(34, 3), Pt(13, 22), Pt(37, 7), Pt(40, 18), Pt(42, 36), Pt(20, 3), Pt(32, 3), Pt(25, 25),
          Pt(29, 12), Pt(12, 31), Pt(21, 25), Pt(35, 22), Pt(7, 36), Pt(2, 31) >>
Tab79 == <<
          Pt(1, 18), Pt(60, 10), Pt(15, 8), Pt(49, 5), Pt(42, 54), Pt(59, 12), Pt(61, 10), Pt(43, 35),
          Pt(37, 69), Pt(26, 19), Pt(18, 54), Pt(12, 47), Pt(39, 47), Pt(9, 5), Pt(63, 63), Pt(19, 25),
          Pt(75, 41), Pt(21, 74), Pt(68, 63), Pt(29, 8), Pt(6, 12), Pt(45, 19), Pt(35, 71), Pt(66, 41),
          Pt(28, 32), Pt(17, 41), Pt(14, 67), Pt(74, 35), Pt(23, 18), Pt(55, 61), Pt(41, 35), Pt(8, 60),
          Pt(27, 63), Pt(27, 16), Pt(8, 19), Pt(41, 44), Pt(55, 18), Pt(23, 61), Pt(74, 44), Pt(14, 12),
          Pt(17, 38), Pt(28, 47), Pt(66, 38), Pt(35, 8), Pt(45, 60), Pt(6, 67), Pt(29, 71), Pt(68, 16),
          Pt(21, 5), Pt(75, 38), Pt(19, 54), Pt(63, 16), Pt(9, 74), Pt(39, 32), Pt(12, 32), Pt(18, 25),
          Pt(26, 60), Pt(37, 10), Pt(43, 44), Pt(61, 69), Pt(59, 67), Pt(42, 25), Pt(49, 74), Pt(15, 71),
          Pt(60, 69), Pt(1, 61) >>
MulG(k) == LET j == k % Q IN IF j = 0 THEN Inf ELSE Tab[j]
ASSUME \A k \in 1..(Q - 1) : OnCurve(Tab[k]) /\ ~Tab[k].inf
ASSUME Len(Tab) = Q - 1 /\ Tab[1] = G /\ \A k \in 1..(Q - 2) : Tab[k + 1] = Add(Tab[k], G)
ASSUME Add(Tab[Q - 1], G) = Inf
ASSUME Q < 128 /\ Q % 2 = 1

\* x(z/s*G + r/s*(d*G)) mod Q = r   (called for r, s in range only; the public key is d*G)
ToyEq(d, z, r, s) == \E w \in {ModInv(s, Q)} : \E R \in {Add(MulG((z * w) % Q), MulG((r * w * d) % Q))} : ~R.inf /\ R.x % Q = r
ToyValid(d, z, r, s) == r \in 1..(Q - 1) /\ s \in 1..(Q - 1) /\ ToyEq(d, z, r, s)

B(i) == <<i>>                                         \* toy scalar as a byte sequence
V(b) == BEVal(Norm(b))
NB == <<Q>>

\* ------------------------------------------------------------------ the specification's signer
ROf(k) == MulG(k).x % Q
S0(d, z, k) == (ModInv(k, Q) * (z + ROf(k) * d)) % Q
Signable(d, z, k) == ROf(k) # 0 /\ S0(d, z, k) # 0
LowSOf(s0) == IF s0 > (Q - 1) \div 2 THEN Q - s0 ELSE s0
MkEvent(mode, d, z, ht, r, s, der, raw) ==
    [mode |-> mode, key |-> d, z |-> z, rep |-> "bytes", ht |-> ht, r |-> B(r), s |-> B(s), der |-> der, raw |-> raw,
     valid |-> ToyValid(d, z, r, s)]
PlainEvent(mode, d, z, ht, r, s) == MkEvent(mode, d, z, ht, r, s, SigDer(B(r), B(s), ht), Pad32(B(r)) \o Pad32(B(s)))
SpecEvent(mode, d, z, k, ht) == PlainEvent(mode, d, z, ht, ROf(k), LowSOf(S0(d, z, k)))
\* every signature of the specification's signer verifies (completeness of ECDSA on the toy group)
ASSUME \A i \in 1..Len(KeySeq), j \in 1..Len(DigestSeq), k \in 1..(Q - 1) :
          Signable(KeySeq[i], DigestSeq[j], k) => SpecEvent("explicit", KeySeq[i], DigestSeq[j], k, 1).valid

\* nonces with pairwise different r (for the real curve two nonces other than k, n-k never share r in practice)
GoodK == {k \in 1..(Q - 1) : ROf(k) # 0 /\ \A j \in 1..(k - 1) : ROf(j) # ROf(k)}
IsGoodK(k) == k \in GoodK
GoodSeq == SelectSeq([k \in 1..(Q - 1) |-> k], IsGoodK)       \* GoodK in increasing order
NPairs == Len(KeySeq) * Len(DigestSeq)
ASSUME Len(GoodSeq) >= NPairs + NRandom
\* deterministic nonce: an injective function of (key, digest)
DetK(i, j) == GoodSeq[(i - 1) * Len(DigestSeq) + j]
RandPool == {GoodSeq[NPairs + i] : i \in 1..NRandom}

VARIABLES mode, x, st, hist, blamed, usedK, onlySpec
vars == <<mode, x, st, hist, blamed, usedK, onlySpec>>

\* ------------------------------------------------------------------ boundary integers for the DER model
Ones(n) == Rep(255, n)
IntDomain == { <<>>, <<1>>, <<127>>, <<128>>, <<255>>, <<1, 0>>, <<128, 0>>, <<0, 5>>,
               <<127>> \o Ones(31), <<128>> \o Rep(0, 31), Ones(32), <<1>> \o Ones(30),
               Order256, SubSeq(Order256, 1, 31) \o <<64>>, SubSeq(Order256, 1, 31) \o <<66>>,      \* n, n-1, n+1
               Half256, SubSeq(Half256, 1, 31) \o <<161>> }                                          \* (n-1)/2, (n+1)/2

\* pairs for the verifier model: every (r, s) for the two exact encodings, a few (valid and invalid) for the others
ValidPairs(d, z) == {p \in (1..(Q - 1)) \X (1..(Q - 1)) : ToyValid(d, z, p[1], p[2])}
SomePairs(d, z) == {p \in ValidPairs(d, z) : p[1] <= 6} \cup {<<0, 5>>, <<5, 0>>, <<Q, 5>>, <<5, Q + 1>>, <<1, 1>>}

Init == st = LedgerInit /\ hist = <<>> /\ blamed = FALSE /\ usedK = {} /\ onlySpec = TRUE /\ mode = "start" /\ x = <<>>

\* the three families are entered in two steps (so that TLC's workers share the evaluation of the invariants)
Choose ==
    /\ mode = "start"
    /\ UNCHANGED <<st, hist, blamed, usedK, onlySpec>>
    /\ \/ mode' = "sign" /\ x' = <<>>
       \/ mode' = "pick" /\ x' \in [fam : {"der"}, r : IntDomain, i : {0}, d : {0}, z : {0}]
       \/ mode' = "pick" /\ x' \in [fam : {"verify"}, r : {<<>>}, i : 0..(Q + 1), d : {KeySeq[1]}, z : VerifyDigests]
       \/ mode' = "pick" /\ x' \in [fam : {"pub"}, r : {<<>>}, i : 0..(P + 5), d : {0}, z : {0}]
       \/ mode' = "pick" /\ x' \in [fam : {"verify-classes"}, r : {<<>>}, i : 1..5, d : {KeySeq[1]}, z : VerifyDigests]
Choose2 ==
    /\ mode = "pick"
    /\ UNCHANGED <<st, hist, blamed, usedK, onlySpec>>
    /\ \/ x.fam = "der" /\ mode' = "der" /\ x' \in [r : {x.r}, s : IntDomain, ht : HashTypes]
       \/ x.fam = "pub" /\ mode' = "pub"       \* public-key octet strings of the toy curve: prefix, X, optional Y (one octet each)
            /\ x' \in [enc : {<<pf, x.i>> : pf \in 0..7} \cup {<<4, x.i, yy>> : yy \in 0..(P + 5)}
                             \cup {<<pf, x.i, yy>> : pf \in {2, 3, 6, 7}, yy \in {0, 1, x.i, P - 1, P, P + 1}}
                             \cup {<<4>>, <<>>, <<2, x.i, 0, 0>>}]
       \/ x.fam = "verify" /\ mode' = "verify"
            /\ x' \in [c : {"raw64", "der"}, d : {x.d}, z : {x.z}, r : {x.i}, s : 0..(Q + 1), onCurve : {TRUE}, ht : {1}]
       \/ x.fam = "verify-classes" /\ mode' = "verify"
            /\ \E p \in {q \in SomePairs(x.d, x.z) : ((q[1] + q[2]) % 5) + 1 = x.i} :
                 x' \in [c : EncClasses, d : {x.d}, z : {x.z}, r : {p[1]}, s : {p[2]}, onCurve : BOOLEAN, ht : {1}]

\* (ev is bound by a quantifier so that it is a value, not an expression evaluated again at every use)
Record(ev, spec) ==
    /\ hist' = Append(hist, ev)
    /\ blamed' = (blamed \/ SignFails(st, ev, NB) # <<>>)
    /\ st' = LedgerNext(st, ev)
    /\ onlySpec' = (onlySpec /\ spec)
    /\ UNCHANGED <<mode, x>>

SpecSign ==
    /\ mode = "sign" /\ Len(hist) < MaxEvents
    /\ \E i \in 1..Len(KeySeq), j \in 1..Len(DigestSeq), ht \in SignHashTypes :
         \E d \in {KeySeq[i]}, z \in {DigestSeq[j]} :
         \/ /\ Signable(d, z, DetK(i, j))
            /\ \E ev \in {SpecEvent("det", d, z, DetK(i, j), ht)} : Record(ev, TRUE)
            /\ UNCHANGED usedK
         \/ \E k \in RandPool \ usedK :
              /\ Signable(d, z, k)
              /\ \E ev \in {SpecEvent("random", d, z, k, ht)} : Record(ev, TRUE)
              /\ usedK' = usedK \cup {k}
         \/ \E k \in ExplicitK :
              /\ Signable(d, z, k)
              /\ \E ev \in {SpecEvent("explicit", d, z, k, ht)} : Record(ev, TRUE)
              /\ UNCHANGED usedK

\* faulty signers (each one is a realistic defect); the judge must blame exactly the histories they spoil
BadKinds == {"nonce-from-digest", "nonce-from-key", "nonce-constant", "random-reused", "high-s", "der-padded", "der-longlen",
             "ht-dropped", "wrong-s", "raw-swapped", "s-not-reduced", "nonce-from-hex-case"}
BadFrom(kind, good, i, j, ht) ==
    LET d == good.key z == good.z r == V(good.r) s == V(good.s)
    IN CASE kind = "nonce-from-digest" -> SpecEvent("det", d, z, GoodSeq[j], ht)
         [] kind = "nonce-from-key" -> SpecEvent("det", d, z, GoodSeq[i], ht)
         [] kind = "nonce-constant" -> SpecEvent("random", d, z, GoodSeq[1], ht)
         [] kind = "random-reused" -> SpecEvent("random", d, z, DetK(i, j), ht)
         [] kind = "high-s" -> PlainEvent("det", d, z, ht, r, Q - s)
         [] kind = "der-padded" -> [good EXCEPT !.der = Encode("der-pad-s", good.r, good.s, ht)]
         [] kind = "der-longlen" -> [good EXCEPT !.der = Encode("der-longlen-seq", good.r, good.s, ht)]
         [] kind = "ht-dropped" -> [good EXCEPT !.der = DerSeq(good.r, good.s)]
         [] kind = "wrong-s" -> PlainEvent("det", d, z, ht, r, (s % (Q - 1)) + 1)
         [] kind = "raw-swapped" -> [good EXCEPT !.raw = Pad32(good.s) \o Pad32(good.r)]
         [] kind = "nonce-from-hex-case" -> [SpecEvent("det", d, z, GoodSeq[NPairs + 1], ht) EXCEPT !.rep = "hex-upper"]
         [] kind = "s-not-reduced" -> PlainEvent("det", d, z, ht, r, s + Q)
BadSign ==
    /\ mode = "sign" /\ Len(hist) < MaxEvents
    /\ \E kind \in BadKinds, i \in 1..Len(KeySeq), j \in 1..Len(DigestSeq), ht \in SignHashTypes :
         /\ Signable(KeySeq[i], DigestSeq[j], DetK(i, j))
         /\ Signable(KeySeq[i], DigestSeq[j], GoodSeq[i]) /\ Signable(KeySeq[i], DigestSeq[j], GoodSeq[j])
         /\ Signable(KeySeq[i], DigestSeq[j], GoodSeq[1])
         /\ \E good \in {SpecEvent("det", KeySeq[i], DigestSeq[j], DetK(i, j), ht)} :
              \E ev \in {BadFrom(kind, good, i, j, ht)} : Record(ev, FALSE)
         /\ UNCHANGED usedK

Next == Choose \/ Choose2 \/ SpecSign \/ BadSign
Spec == Init /\ [][Next]_vars

\* ------------------------------------------------------------------ invariants, mode "sign"
\* the judge never blames the specification's own signer (no false alarm on a correct implementation)
SpecSignerNeverBlamed == (mode = "sign" /\ onlySpec) => ~blamed
\* and it blames a history exactly when the history breaks what the property states
JudgeExact == mode = "sign" => (blamed <=> ~HistOk(hist, NB))
\* consequence the property is after: a key never signs two different digests with the same library-chosen nonce
NoKeyLeak == (mode = "sign" /\ ~blamed) =>
                \A a, b \in 1..Len(hist) : (hist[a].mode # "explicit" /\ hist[b].mode # "explicit" /\ hist[a].key = hist[b].key
                                            /\ hist[a].z # hist[b].z) => hist[a].r # hist[b].r

\* ------------------------------------------------------------------ invariants, mode "der"
DerRoundTrip == (mode = "der" /\ Len(IntContent(x.r)) <= 33 /\ Len(IntContent(x.s)) <= 33) =>
    \A e \in {SigDer(x.r, x.s, x.ht)} :
        /\ IsStrictDER(e)
        /\ StrictDecode(e) = [ok |-> TRUE, neg |-> FALSE, r |-> Norm(x.r), s |-> Norm(x.s), ht |-> x.ht]
        /\ BerDecode(e) = StrictDecode(e)
ClassDenotes(c, r, s, ht) ==
    \A e \in {Encode(c, r, s, ht)} : \A d \in {Denote(e)} : \A k \in {ClassKind(c)} :
    IF k = "strict-other-pair" THEN d.kind = "strict" /\ d.r = Norm(s) /\ d.s = Norm(r)
    ELSE IF k = "not-the-pair" THEN ~IsStrictDER(e) /\ (d.kind \in {"none", "negative"} \/ (d.kind = "lax" /\ <<d.r, d.s>> # <<Norm(r), Norm(s)>>)
                                                         \/ e = DerSeq(r, s))      \* (truncation + hash type = the bare DER form)
    ELSE /\ d.kind = k
         /\ d.r = Norm(r) /\ d.s = Norm(s)
         /\ (k # "strict") => ~IsStrictDER(e)
DerClasses == mode = "der" => (\A c \in EncClasses : Applicable(c, x.r, x.s) => ClassDenotes(c, x.r, x.s, x.ht))

\* ------------------------------------------------------------------ invariants, mode "pub"
\* PubKeyOk accepts exactly the octet strings that SEC 1 produces for the points of the group (the infinite point has
\* none); the curve equation mod p alone would also accept X + p, Y + p
ToyCurveEq(enc) == IF Len(enc) = 2 THEN \E yy \in 0..(P - 1) : (yy * yy) % P = (enc[2] * enc[2] * enc[2] + 7) % P
                   ELSE IF Len(enc) = 3 THEN (enc[3] * enc[3]) % P = (enc[2] * enc[2] * enc[2] + 7) % P ELSE FALSE
EncodesPoint(enc) == \E k \in 1..(Q - 1) : \/ enc = <<2 + (Tab[k].y % 2), Tab[k].x>> \/ enc = <<4, Tab[k].x, Tab[k].y>>
PubKeyExact == mode = "pub" => (PubKeyOk(x.enc, <<P>>, 1, ToyCurveEq(x.enc)) <=> EncodesPoint(x.enc))

\* ------------------------------------------------------------------ invariants, mode "verify"
\* the reference verifier: standard ECDSA on what the bytes denote
InR(dn) == Denoting(dn) /\ InRange(dn.r, NB) /\ InRange(dn.s, NB)
RefAnswer(dn, d, z, onCurve) == IF InR(dn) /\ onCurve /\ ToyEq(d, z, V(dn.r), V(dn.s)) THEN "accept" ELSE "reject"
Fact(dn, d, z) == IF InR(dn) THEN ToyEq(d, z, V(dn.r), V(dn.s)) ELSE FALSE
Other(a) == IF a = "accept" THEN "reject" ELSE "accept"
VerdictExact == (mode = "verify" /\ Applicable(x.c, B(x.r), B(x.s))) =>
    \A sig \in {Encode(x.c, B(x.r), B(x.s), x.ht)} : \A dn \in {Denote(sig)} :
    \A ref \in {RefAnswer(dn, x.d, x.z, x.onCurve)}, f \in {Fact(dn, x.d, x.z)} :
        /\ VerifyVerdict(sig, NB, x.onCurve, f, ref) = Ok
        /\ (dn.kind \in {"raw", "strict"}) => VerifyVerdict(sig, NB, x.onCurve, f, Other(ref)) # Ok
        /\ (ref = "reject" /\ dn.kind \notin {"raw", "strict"}) => VerifyVerdict(sig, NB, x.onCurve, f, "accept") # Ok
\* a verifier that reduces r or s modulo the order instead of checking the range is caught on the range classes
ReducingVerifierCaught ==
    (mode = "verify" /\ x.c \in {"raw64", "der"} /\ (x.r >= Q \/ x.s >= Q) /\ x.r % Q # 0 /\ x.s % Q # 0 /\ x.onCurve
     /\ ToyEq(x.d, x.z, x.r % Q, x.s % Q)) =>
        VerifyVerdict(Encode(x.c, B(x.r), B(x.s), 1), NB, TRUE, FALSE, "accept") # Ok
TwinVerifies ==
    (mode = "verify" /\ x.r \in 1..(Q - 1) /\ x.s \in 1..(Q - 1)) => (ToyValid(x.d, x.z, x.r, x.s) <=> ToyValid(x.d, x.z, x.r, Q - x.s))
=============================================================================
