SPECIFICATION Spec
CONSTANTS
  MaxSteps = 7
INVARIANT SpecSignerNeverBlamed
INVARIANT JudgeExact
INVARIANT AmbientSharedOnlyViaState
CHECK_DEADLOCK FALSE
