----------------------------- MODULE SigHashEval -----------------------------
(* (G) for each record (transaction fields with per-input kind, amount and key material; input index i) TLC returns  *)
(* the digest term, the script code, and the extended / stripped serialization of the unsigned skeleton.             *)
EXTENDS SigHash, Json, IOUtils, TLC
Recs == ndJsonDeserialize(IOEnv.IN_FILE)
In(i) == [txid |-> i.txid, vout |-> i.vout, script |-> i.script, seq |-> i.seq, wit |-> i.wit, kind |-> i.kind,
          amount |-> i.amount, pkh |-> i.pkh, pub |-> i.pub, keys |-> i.keys, m |-> i.m]
FixOutS(o) == [value |-> o.value, script |-> o.script]
TxS(j) == [version |-> j.version, segwit |-> j.segwit, locktime |-> j.locktime,
           ins |-> [k \in 1..Len(j.ins) |-> In(j.ins[k])], outs |-> [k \in 1..Len(j.outs) |-> FixOutS(j.outs[k])]]
\* r.raw: the transaction as serialized by the implementation (this is what the network sees); the fields the digest
\* is computed from are those the specification's own parser reads from these bytes; r.meta[i]: kind of the output
\* being spent by input i, its amount and key material (facts the harness chose when it built the transaction)
WithMeta(in, m) == [txid |-> in.txid, vout |-> in.vout, script |-> in.script, seq |-> in.seq, wit |-> in.wit, kind |-> m.kind,
                    amount |-> m.amount, pkh |-> m.pkh, pub |-> m.pub, keys |-> m.keys, m |-> m.m]
Judge(r) == LET p == ParseTx(r.raw) IN
            IF ~p.ok \/ Len(p.tx.ins) # Len(r.meta) THEN [ok |-> FALSE, digests |-> <<>>, nouts |-> 0, ht |-> <<>>]
            ELSE LET tx == [p.tx EXCEPT !.ins = [i \in 1..Len(p.tx.ins) |-> WithMeta(p.tx.ins[i], r.meta[i])]] IN
                 [ok |-> TRUE, digests |-> [i \in 1..Len(tx.ins) |-> Digest(tx, i)], nouts |-> Len(tx.outs),
                  \* BIP143 digests of the witness inputs for the other hash types (r.hts: the hash types asked for)
                  ht |-> [i \in 1..Len(tx.ins) |-> IF tx.ins[i].kind \in SegwitKinds
                                                     THEN [h \in 1..Len(r.hts) |-> DigestHT(tx, i, r.hts[h])] ELSE <<>>]]
Out == [k \in 1..Len(Recs) |-> Judge(Recs[k])]
ASSUME ndJsonSerialize(IOEnv.OUT_FILE, Out)
=============================================================================
