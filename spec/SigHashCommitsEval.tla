------------------------- MODULE SigHashCommitsEval -------------------------
(* (G) the commitment table of SigHash!CommitsHT for the hash types asked for: which tampering a signature survives. *)
EXTENDS SigHash, Json, IOUtils, TLC
Recs == ndJsonDeserialize(IOEnv.IN_FILE)
Out == [k \in 1..Len(Recs) |->
          [table |-> [f \in CommitRoles |-> [i \in 1..Len(Recs[k].hts) |-> CommitsHT(f, Recs[k].hts[i])]]]]
ASSUME ndJsonSerialize(IOEnv.OUT_FILE, Out)
=============================================================================
