SPECIFICATION Spec
CONSTANTS
  MaxSteps = 7
INVARIANT BalanceIsSumOfKeys
INVARIANT NoSpentListed
INVARIANT OneCoinPerOutpoint
INVARIANT NoDoubleSpend
CHECK_DEADLOCK FALSE
