SPECIFICATION Spec
CONSTANTS
  MaxSteps = 7
INVARIANT BalanceIsSumOfKeys
INVARIANT BalanceIsSumOfAccounts
INVARIANT NoSpentListed
INVARIANT OneCoinPerOutpoint
INVARIANT NoDoubleSpend
CHECK_DEADLOCK FALSE
