SPECIFICATION Spec
CONSTANTS
  MaxSteps = 7
INVARIANT BalanceIsSumOfKeys
INVARIANT BalanceIsSumOfAccounts
INVARIANT NoSpentListed
INVARIANT OneCoinPerOutpoint
INVARIANT NoDoubleSpend
PROPERTY PruneRule
PROPERTY AgainRule
CHECK_DEADLOCK FALSE
