------------------------------ MODULE EcdsaEval ------------------------------
(***************************************************************************)
(* Conformance binding for Ecdsa (secp256k1).  TLC reads records and       *)
(* answers one verdict per record:                                         *)
(*  vgen    (G) spec -> code: for one valid base signature (r, s, z) the   *)
(*          verifier table - every class combination with the bytes to be  *)
(*          handed to the implementation and what they denote              *)
(*  denote  what an arbitrary byte string denotes (for mutated inputs)     *)
(*  vcase   (V) one answer of the implementation's verifier, judged        *)
(*  pcase   (V) one answer of Signature.parse_bytes, judged                *)
(*  strace  (V) a trace of signatures produced by the implementation:      *)
(*          per-event clauses and the nonce / determinism ledger           *)
(*  ledger  (V) the ledger alone over all traces of a run                  *)
(*  envgen  (G) the behaviours of the environment of EcdsaEnv (Seed,       *)
(*          SaveState, RestoreState, ForkSign interleaved with sign calls) *)
(*          with the arguments of every sign call                          *)
(*  envtrace (V) the r, s recorded while replaying one such behaviour      *)
(*  objgen  (G) the call sequences on one Signature object (EcdsaObj)      *)
(*  objtrace (V) the verdicts and reported key / digest recorded while     *)
(*          replaying one such sequence on a real object                   *)
(* Oracle facts (fields valid, oncurve, eq) come from the reference        *)
(* secp256k1 implementation; everything else is decided here.              *)
(***************************************************************************)
EXTENDS EcdsaEnv, EcdsaObj, Json, IOUtils

ASSUME Half256 = HalfByDivision(Order256)

Recs == ndJsonDeserialize(IOEnv.IN_FILE)
N == Order256

\* ------------------------------------------------------------------ the verifier table
Max256 == Rep(255, 32)
ScalarClasses == <<"valid", "zero", "one", "n-1", "n", "n+1", "max", "plus-n", "twin">>
ScalarOf(c, v) == CASE c = "valid" -> Norm(v)
                    [] c = "zero" -> <<>>
                    [] c = "one" -> <<1>>
                    [] c = "n-1" -> SubU(N, <<1>>)
                    [] c = "n" -> N
                    [] c = "n+1" -> AddU(N, <<1>>)
                    [] c = "max" -> Max256
                    [] c = "plus-n" -> AddU(v, N)           \* congruent to a valid value, but out of range
                    [] c = "twin" -> Twin(v, N)          \* for s: the high-S / low-S twin, which standard ECDSA accepts too
DigestClasses == <<"right", "plus1", "minus1", "zero">>
DigestOf(c, z) == CASE c = "right" -> z
                    [] c = "plus1" -> Pad32(AddU(z, <<1>>))
                    [] c = "minus1" -> Pad32(SubU(z, <<1>>))
                    [] c = "zero" -> Rep(0, 32)
\* classes of public-key octet strings (instantiated by the harness, which owns the curve arithmetic; what each
\* string denotes is decided by PubKeyOk from the bytes, not from the class name)
KeyClasses == <<"right", "uncompressed", "other", "negated", "offcurve-xy", "offcurve-x",
                "x-plus-p", "x-plus-p-uncompressed", "y-plus-p", "infinity-00", "x-zero", "empty",
                "prefix04-compressed-length", "prefix02-uncompressed-length", "prefix03-uncompressed-length", "prefix05",
                "prefix00-compressed-length", "hybrid", "one-byte-short", "one-byte-long", "uncompressed-y-negated",
                "uncompressed-y-other-parity", "uncompressed-x-y-swapped">>
OnlyRight == <<"right">>

SX == INSTANCE SequencesExt
EncSeq == <<"raw64", "der", "der-nohashtype", "der-pad-r", "der-pad-s", "der-longlen-seq", "der-longlen-int",
            "der-neg-r", "der-neg-s", "der-trailing-in-seq", "der-trailing-after-seq", "der-truncated",
            "der-seqlen-plus1", "der-seqlen-minus1", "der-tag-seq", "der-tag-int", "der-empty-int", "raw63", "raw65",
            "der-swapped">>
ASSUME {EncSeq[i] : i \in 1..Len(EncSeq)} = EncClasses

Case(rc, sc, zc, enc, keys, b) ==
    LET r == ScalarOf(rc, b.r)
        s == ScalarOf(sc, b.s)
        sig == Encode(enc, r, s, b.ht)
        d == Denote(sig)
        t == TailPairD(sig, d)
    IN [rc |-> rc, sc |-> sc, zc |-> zc, enc |-> enc, keys |-> keys, sig |-> sig, z |-> DigestOf(zc, b.z),
        kind |-> d.kind, dr |-> d.r, ds |-> d.s, tail |-> t.ok, tr |-> t.r, ts |-> t.s]
\* A: every (r class, s class) under the two exact encodings;  B: every encoding class for a few pairs;
\* C: the digest classes;  D: the key classes (instantiated by the harness, which owns the curve arithmetic)
PairsB == << <<"valid", "valid">>, <<"valid", "twin">>, <<"zero", "valid">>, <<"valid", "n">>, <<"n+1", "valid">>, <<"valid", "max">>,
            <<"valid", "plus-n">>, <<"plus-n", "valid">> >>
PairsC == << <<"valid", "valid">>, <<"valid", "twin">> >>
Exact == <<"raw64", "der">>
Table(b) ==
    LET A == { <<rc, sc, "right", e, OnlyRight>> : rc \in {ScalarClasses[i] : i \in 1..8}, sc \in {ScalarClasses[i] : i \in 1..9},
                                                   e \in {"raw64", "der"} }
        Bs == { <<PairsB[i][1], PairsB[i][2], "right", e, OnlyRight>> : i \in 1..Len(PairsB), e \in EncClasses }
        C == { <<PairsC[i][1], PairsC[i][2], zc, e, OnlyRight>> : i \in 1..Len(PairsC), zc \in {"plus1", "minus1", "zero"}, e \in {"raw64", "der"} }
        D == { <<PairsC[i][1], PairsC[i][2], "right", e, IF b.allkeys THEN KeyClasses ELSE SubSeq(KeyClasses, 1, 6)>> : i \in 1..Len(PairsC), e \in {"raw64", "der"} }
        \* b.lite: only the digest and key classes (used for the many digest classes the harness brings, e.g. digests whose
        \* bytes are ASCII text)
        all == IF b.lite THEN C \cup D
               ELSE (A \ {t \in A : \E u \in D : u[1] = t[1] /\ u[2] = t[2] /\ u[4] = t[4]}) \cup Bs \cup C \cup D
        app == {t \in all : Applicable(t[4], ScalarOf(t[1], b.r), ScalarOf(t[2], b.s))}
    IN SX!SetToSeq(app)

\* ------------------------------------------------------------------ signing traces
EvOf(e) == [mode |-> e.mode, key |-> e.key, z |-> e.z, rep |-> e.rep, ht |-> e.ht, r |-> e.r, s |-> e.s, der |-> e.der, raw |-> e.raw,
            valid |-> e.valid]
RECURSIVE RunTrace(_, _, _, _)
RunTrace(st, evs, i, acc) ==
    IF i > Len(evs) THEN acc
    ELSE LET ev == EvOf(evs[i]) IN
         RunTrace(LedgerNext(st, ev), evs, i + 1, Append(acc, SignFails(st, ev, N)))

\* ledger clauses only (determinism / nonce sharing across all sessions of a run); events carry mode, key, z, r, s
RECURSIVE RunLedger(_, _, _, _)
RunLedger(st, evs, i, acc) ==
    IF i > Len(evs) THEN acc
    ELSE RunLedger(LedgerNext(st, evs[i]), evs, i + 1, Append(acc, LedgerFails(st, evs[i])))

\* a behaviour with the arguments of its sign calls filled in (indices of key, message and explicit nonce)
RECURSIVE SignIndex(_, _)
SignIndex(b, i) == IF i = 0 THEN 0 ELSE SignIndex(b, i - 1) + (IF IsSign(b[i]) THEN 1 ELSE 0)
Filled(b, plan) ==
    [i \in 1..Len(b) |->
        LET n == SignIndex(b, i) IN
        IF IsSign(b[i]) THEN [a |-> b[i], mode |-> ModeOf(plan, n), key |-> PairOf(n)[1], z |-> PairOf(n)[2], kk |-> KOf(n)]
        ELSE [a |-> b[i], mode |-> "", key |-> 0, z |-> 0, kk |-> 0]]
EnvTable(plans, maxLen) ==
    SX!SetToSeq({ [plan |-> plans[j], steps |-> Filled(b, plans[j])] :
                  j \in 1..Len(plans), b \in UNION {Behaviours(l) : l \in 2..maxLen} })

\* parts: sequence of [routes ("all" | "object" | "method"), maxlen, cons (sequence of constructions)]
RoutesOf(name) == IF name = "all" THEN Routes ELSE IF name = "object" THEN ObjectRoutes ELSE {"method"}
ObjTable(parts) == SX!SetToSeq(UNION { { [c |-> parts[j].cons[i], calls |-> q] :
                                          i \in 1..Len(parts[j].cons), q \in ObjSeqs(parts[j].maxlen, RoutesOf(parts[j].routes)) } :
                                       j \in 1..Len(parts) })

Judge(rec) ==
  CASE rec.k = "objgen" -> [v |-> "ok", dev |-> "", exp |-> <<>>, seqs |-> ObjTable(rec.parts)]
    [] rec.k = "objtrace" ->
         LET fs == ObjJudge(rec.c, rec.events, rec.fact) IN
         [v |-> IF ObjBlamed(fs) THEN "events" ELSE "ok", dev |-> "", exp |-> <<>>, evs |-> fs]
    [] rec.k = "envgen" -> [v |-> "ok", dev |-> "", exp |-> <<>>, behs |-> EnvTable(rec.plans, rec.maxlen)]
    [] rec.k = "envtrace" ->
         LET fs == EnvJudge(rec.events, N) IN
         [v |-> IF Blamed(fs) THEN "events" ELSE "ok", dev |-> "", exp |-> <<>>, evs |-> fs]
    [] rec.k = "vgen" ->
         LET t == Table(rec) IN
         [v |-> "ok", dev |-> "", exp |-> <<>>, cases |-> [i \in 1..Len(t) |-> Case(t[i][1], t[i][2], t[i][3], t[i][4], t[i][5], rec)]]
    [] rec.k = "denote" ->
         LET d == Denote(rec.sig) t == TailPairD(rec.sig, d) IN
         [v |-> "ok", dev |-> "", exp |-> <<>>, kind |-> d.kind, dr |-> d.r, ds |-> d.s, tail |-> t.ok, tr |-> t.r, ts |-> t.s]
    [] rec.k = "vcase" ->       \* sig, pub, curveeq, havept, eq (facts; eq computed for the pair fr, fs; eqt for tr, ts), obs
         LET d == Denote(rec.sig) t == TailPairD(rec.sig, d) onCurve == PubKeyOk(rec.pub, Prime256, 32, rec.curveeq) IN
         IF onCurve /\ ~rec.havept THEN Bad("oracle-fact-for-wrong-pair", "", <<>>)      \* the reference must know the point
         ELSE IF Denoting(d) /\ (Norm(rec.fr) # d.r \/ Norm(rec.fs) # d.s) THEN Bad("oracle-fact-for-wrong-pair", "", <<d.r, d.s>>)
         ELSE IF t.ok /\ (Norm(rec.tr) # t.r \/ Norm(rec.ts) # t.s) THEN Bad("oracle-fact-for-wrong-pair", "", <<t.r, t.s>>)
         ELSE PubKeyDeviations(VerifyVerdictT(rec.sig, N, onCurve, rec.eq, rec.eqt, rec.obs), rec.pub, 32, rec.keyform, rec.obs, rec.eqalt)
    [] rec.k = "pcase" -> ParseVerdict(rec.sig, N, rec.p)
    [] rec.k = "strace" ->
         LET fs == RunTrace(LedgerInit, rec.events, 1, <<>>) IN
         [v |-> IF \A i \in 1..Len(fs) : fs[i] = <<>> THEN "ok" ELSE "events", dev |-> "", exp |-> <<>>, evs |-> fs]
    [] rec.k = "ledger" ->
         LET fs == RunLedger(LedgerInit, rec.events, 1, <<>>) IN
         [v |-> IF \A i \in 1..Len(fs) : fs[i] = <<>> THEN "ok" ELSE "events", dev |-> "", exp |-> <<>>, evs |-> fs]
    [] OTHER -> Bad("unknown-record-kind", "", <<>>)

Out == [i \in 1..Len(Recs) |-> Judge(Recs[i])]
ASSUME ndJsonSerialize(IOEnv.OUT_FILE, Out)
=============================================================================
