---------------------------- MODULE BlockReaders ----------------------------
(***************************************************************************)
(* The transaction readers of a parsed block (bitcoinlib Block): the       *)
(* object reader consumes the block's transaction stream incrementally     *)
(* (parse_transaction, parse_transactions(limit), or at parse time with    *)
(* parse_transactions=True, limit=k); the dictionary reader                *)
(* (parse_transactions_dict) reports the not yet consumed transactions and *)
(* must leave the stream where it was.  State: number of transactions the  *)
(* object reader has consumed.  Every action has an observable result:     *)
(* the sequence of transaction indices (1..N) it reports.                  *)
(***************************************************************************)
EXTENDS Naturals, Sequences

Min(a, b) == IF a < b THEN a ELSE b
Range(a, b) == [i \in 1..(IF b >= a THEN b - a + 1 ELSE 0) |-> a + i - 1]

\* Act(n, parsed, a) = [parsed |-> new state, out |-> reported indices, ok |-> call succeeds]
Act(n, parsed, a) ==
  CASE a.op = "one"  -> IF parsed < n THEN [parsed |-> parsed + 1, out |-> <<parsed + 1>>, ok |-> TRUE]
                        ELSE [parsed |-> parsed, out |-> <<>>, ok |-> TRUE]                 \* returns False
    [] a.op = "many" -> LET np == IF a.limit = 0 THEN n ELSE Min(n, parsed + a.limit) IN
                        [parsed |-> np, out |-> Range(parsed + 1, np), ok |-> TRUE]
    [] a.op = "dict" -> [parsed |-> parsed, out |-> Range(parsed + 1, n), ok |-> TRUE]       \* stream position preserved
    [] a.op = "serialize" -> [parsed |-> parsed, out |-> IF parsed = n THEN Range(1, n) ELSE <<>>, ok |-> parsed = n]
    [] OTHER -> [parsed |-> parsed, out |-> <<>>, ok |-> FALSE]
=============================================================================
