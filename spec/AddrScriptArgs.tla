--------------------------- MODULE AddrScriptArgs ---------------------------
(***************************************************************************)
(* C05: the ARGUMENT SPACE of Output(...) / Transaction.add_output(...).   *)
(* A destination can be named redundantly or partially by several optional *)
(* arguments at once: address (string / Address object / HD key object),   *)
(* public_hash, public_key, script_type, encoding, witness_type, witver,   *)
(* lock_script.  This module says                                          *)
(*   - which abstract calls exist (ArgCalls: every argument given in a way *)
(*     that agrees with a base destination, given in a way that names      *)
(*     something else, or omitted; at most ArgMaxOther disagreeing ones),  *)
(*   - for a concrete call g which destinations agree with every argument  *)
(*     (ArgCands), and when refusal is required (ArgMustRefuse).           *)
(* The rule of the property: a call whose arguments agree (ArgCands # {})  *)
(* yields the script of a destination in ArgCands and reports its address; *)
(* a contradictory call is refused or resolved to ONE destination whose    *)
(* payload one of the arguments named - script and address never disagree; *)
(* witness_type is only a hint (it may be "the other one": no conflict);   *)
(* an address that does not belong to the network named is refused.        *)
(***************************************************************************)
EXTENDS AddrScript

ArgAddrForms == {"none", "str", "obj", "hdkey", "foreign", "other"}
ArgTri == {"none", "match", "other"}
ArgMaxOther == 2
ArgOthers(c) == Cardinality({f \in {"hash", "key", "st", "enc", "lock"} : c[f] = "other"})
                + (IF c.addr \in {"foreign", "other"} THEN 1 ELSE 0)
ArgWellFormed(c) ==
    /\ c.addr # "none" \/ c.hash # "none" \/ c.key # "none" \/ c.lock # "none"       \* something names a payload
    /\ ArgOthers(c) <= ArgMaxOther
    /\ c.via = "tx" => c.st = "none" /\ c.wt = "none" /\ c.wv = "none"               \* add_output has no such arguments
    /\ c.addr = "hdkey" => c.key = "none"                                           \* the key object brings its key
    /\ c.wv = "match" => c.st = "match"                  \* a witness version says something together with the type only
ArgCalls == {c \in [addr : ArgAddrForms, hash : ArgTri, key : ArgTri, st : ArgTri, enc : ArgTri, wt : ArgTri,
                    wv : {"none", "match"}, lock : ArgTri, via : {"output", "tx"}] : ArgWellFormed(c)}
\* which calls make sense for a base destination d0 (a key can only stand behind a key-hash destination)
KeyKind(d) == d.k = "pkh" \/ (d.k = "wit" /\ d.v = 0 /\ Len(d.p) = 20)
ArgApplies(c, d0) == /\ (c.key # "none" \/ c.addr = "hdkey") => KeyKind(d0)
                     /\ c.wv = "match" => d0.k = "wit" /\ d0.v >= 1

\* the name by which a caller of the library states the type of a destination ('p2tr' for every witness version >= 1)
LibName(d) == IF d.k = "pkh" THEN "p2pkh" ELSE IF d.k = "sh" THEN "p2sh"
              ELSE IF d.v >= 1 THEN "p2tr" ELSE IF Len(d.p) = 20 THEN "p2wpkh" ELSE "p2wsh"
EncOf(d) == IF d.k = "wit" THEN "bech32" ELSE "base58"

\* a concrete call g: [hasa, da, hasl, dl, h, kh, st, enc, wt, wv]; da / dl: the destination the address denotes on the
\* network named (NoDest: not an address of that network) / the destination of the lock script; h, kh: public_hash and
\* HASH160(public_key) (<<>> = not given); st, enc, wt: "" = not given; wv: -1 = not given
ArgCompat(g, d) ==
    /\ g.hasa => d = g.da
    /\ g.hasl => d = g.dl
    /\ g.h # <<>> => d.p = g.h
    /\ g.kh # <<>> => d.p = g.kh /\ KeyKind(d)
    /\ g.st # "" => LibName(d) = g.st
    /\ g.enc # "" => EncOf(d) = g.enc
    \* (witness_type is a hint for choosing among the candidates, it does not name a destination: no condition)
    /\ g.wv >= 0 => d.k = "wit" /\ d.v = g.wv
ArgPayloads(g) == {q \in {g.h, g.kh, IF g.hasa THEN g.da.p ELSE <<>>, IF g.hasl THEN g.dl.p ELSE <<>>} : q # <<>>}
ArgUniverse(g) == {d \in UNION {{PKH(q), SH(q)} \cup {Wit(v, q) : v \in 0..16} : q \in ArgPayloads(g)} : ValidDest(d)}
ArgCands(g) == {d \in ArgUniverse(g) : ArgCompat(g, d)}
ArgMustRefuse(g) == g.hasa /\ g.da = NoDest
ArgMustAccept(g) == ~ArgMustRefuse(g) /\ \E d \in ArgCands(g) : Standard(d)

\* the concrete call an abstract call c denotes for base destination d0, other destination d1 (same kind, other
\* payload), dfor = what d0's address of the other network denotes on the network named (NoDest unless prefixes are
\* shared), k0 / k1 = HASH160 of the matching / another key
ArgOtherType(d) == IF d.k = "pkh" THEN "p2sh" ELSE IF d.k = "sh" THEN "p2pkh"
                   ELSE IF Len(d.p) = 20 THEN (IF d.v = 0 THEN "p2pkh" ELSE "p2wpkh")
                   ELSE IF d.v = 0 THEN "p2tr" ELSE "p2wsh"
ArgOtherEnc(d) == IF d.k = "wit" THEN "base58" ELSE "bech32"
ArgConcrete(c, d0, d1, dfor, k1) ==
    [hasa |-> c.addr # "none",
     da |-> IF c.addr \in {"str", "obj", "hdkey"} THEN d0 ELSE IF c.addr = "other" THEN d1 ELSE IF c.addr = "foreign" THEN dfor ELSE NoDest,
     hasl |-> c.lock # "none", dl |-> IF c.lock = "match" THEN d0 ELSE IF c.lock = "other" THEN d1 ELSE NoDest,
     h |-> IF c.hash = "match" THEN d0.p ELSE IF c.hash = "other" THEN d1.p ELSE <<>>,
     kh |-> IF c.key = "match" \/ c.addr = "hdkey" THEN d0.p ELSE IF c.key = "other" THEN k1 ELSE <<>>,
     st |-> IF c.st = "match" THEN LibName(d0) ELSE IF c.st = "other" THEN ArgOtherType(d0) ELSE "",
     enc |-> IF c.enc = "match" THEN EncOf(d0) ELSE IF c.enc = "other" THEN ArgOtherEnc(d0) ELSE "",
     wt |-> IF c.wt = "none" THEN "" ELSE IF (c.wt = "match") = (d0.k = "wit") THEN "segwit" ELSE "legacy",
     wv |-> IF c.wv = "match" THEN d0.v ELSE -1]
=============================================================================
