----------------------------- MODULE KeyFormats -----------------------------
(***************************************************************************)
(* C12 - representations of keys: export, import, detection.               *)
(*                                                                         *)
(* Written from the protocol documents (Bitcoin WIF, BIP32 serialization,  *)
(* SLIP-132 version bytes, BIP38 prefix/flag byte, SEC1 point encodings)   *)
(* and from the property text.  For the networks SLIP-132 does not cover   *)
(* (the library's own unit-test network, dogecoin's use of xpub/xprv,      *)
(* litecoin native segwit = Mtub/Mtpv) the table follows the library's     *)
(* documented network definitions; combinations it does not define         *)
(* (dogecoin segwit) are outside the table.                                *)
(*                                                                         *)
(* Abstract key                                                            *)
(*   [priv, secret(32 bytes | <<>>), x, y (32 bytes each), compressed,     *)
(*    network, wt, ms, hd, depth, index(4 bytes), fp(4 bytes), chain(32)]  *)
(* The point (x, y) of a secret is a primitive (secp256k1) and is supplied *)
(* with the key (oracle fact of the harness, toy function in the model).   *)
(* Base58Check's sha256d is a primitive too: exporters produce the payload,*)
(* the string form takes the four check bytes as a parameter.              *)
(*                                                                         *)
(* A representation is [t, v, w]:                                          *)
(*   t = "str"   v = character codes                                       *)
(*   t = "bytes" v = bytes                                                 *)
(*   t = "int"   v = minimal big-endian bytes of the integer               *)
(*   t = "point" v = x, w = y (32 bytes each)                              *)
(*   t = "b58c"  v = Base58Check payload (string form: B58String)          *)
(***************************************************************************)
EXTENDS Bytes, FiniteSets

Range(f) == {f[i] : i \in DOMAIN f}

(* ------------------------------------------------------------------------ *)
(* Base58 (encoding only is needed here; decoding for the BIP38 envelope)   *)
(* ------------------------------------------------------------------------ *)
KB58Alphabet == <<49, 50, 51, 52, 53, 54, 55, 56, 57, 65, 66, 67, 68, 69, 70, 71, 72, 74, 75, 76, 77, 78, 80, 81, 82,
                  83, 84, 85, 86, 87, 88, 89, 90, 97, 98, 99, 100, 101, 102, 103, 104, 105, 106, 107, 109, 110, 111,
                  112, 113, 114, 115, 116, 117, 118, 119, 120, 121, 122>>
RECURSIVE KLead(_, _)
KLead(s, c) == IF s = <<>> \/ s[1] # c THEN 0 ELSE 1 + KLead(Tail(s), c)
\* one '1' per leading zero byte, then the base-58 digits of the remaining number.  The number is regrouped into
\* 16-bit digits and divided by 58^2 = 3364 (two base-58 digits per pass; 3364 * 65536 < 2^31).
KPairs(b) == LET e == IF Len(b) % 2 = 1 THEN <<0>> \o b ELSE b IN [i \in 1..(Len(e) \div 2) |-> e[2 * i - 1] * 256 + e[2 * i]]
KSplit58(ds) == Trim([i \in 1..(2 * Len(ds)) |-> IF i % 2 = 1 THEN ds[(i + 1) \div 2] % 58 ELSE ds[i \div 2] \div 58])
KB58Encode(b) ==
    LET z  == KLead(b, 0)
        ds == Rev(KSplit58(ConvBEtoLE(KPairs(Drop(b, z)), 65536, 3364)))
    IN Rep(49, z) \o [i \in 1..Len(ds) |-> KB58Alphabet[ds[i] + 1]]
KB58Val(c) == IF \E i \in 1..58 : KB58Alphabet[i] = c THEN (CHOOSE i \in 1..58 : KB58Alphabet[i] = c) - 1 ELSE 0 - 1
RECURSIVE KB58Horner(_, _, _)
KB58Horner(s, i, acc) == IF i > Len(s) THEN acc ELSE KB58Horner(s, i + 1, MulSmall(acc, 58, KB58Val(s[i]), 256))
KB58Decode(s) ==
    IF \E i \in 1..Len(s) : KB58Val(s[i]) < 0 THEN [ok |-> FALSE, b |-> <<>>]
    ELSE LET z == KLead(s, 49) IN [ok |-> TRUE, b |-> Rep(0, z) \o Rev(KB58Horner(s, z + 1, <<>>))]

(* ------------------------------------------------------------------------ *)
(* Text forms                                                                *)
(* ------------------------------------------------------------------------ *)
HexDigit(n) == IF n < 10 THEN 48 + n ELSE 87 + n                 \* lower case
HexStr(b) == [i \in 1..(2 * Len(b)) |-> IF i % 2 = 1 THEN HexDigit(b[(i + 1) \div 2] \div 16) ELSE HexDigit(b[i \div 2] % 16)]
\* decimal digits of a big-endian byte string.  The number is converted to base 10^4 first (four decimal digits per
\* division pass: shallow recursion, TLC's evaluation depth is limited) and every base-10^4 digit is then spelled out.
Pow10(j) == IF j = 0 THEN 1 ELSE IF j = 1 THEN 10 ELSE IF j = 2 THEN 100 ELSE 1000
DecDigitsLE(b) == LET q == ConvBEtoLE(b, 256, 10000) IN
                  Trim([i \in 1..(4 * Len(q)) |-> (q[(i + 3) \div 4] \div Pow10((i - 1) % 4)) % 10])
DecStr(b) == LET ds == Rev(DecDigitsLE(b)) IN
             IF ds = <<>> THEN <<48>> ELSE [i \in 1..Len(ds) |-> 48 + ds[i]]
\* and back: decimal digit values (most significant first) -> minimal big-endian bytes
DecToBytes(ds) == LET pad == (4 - (Len(ds) % 4)) % 4
                      e   == Rep(0, pad) \o ds
                      g   == [j \in 1..(Len(e) \div 4) |-> 1000 * e[4 * j - 3] + 100 * e[4 * j - 2] + 10 * e[4 * j - 1] + e[4 * j]]
                  IN Rev(ConvBEtoLE(g, 10000, 256))

(* ------------------------------------------------------------------------ *)
(* Reference table of networks and version bytes                             *)
(* ------------------------------------------------------------------------ *)
Nets == {"bitcoin", "regtest", "testnet", "testnet4", "signet", "litecoin", "litecoin_legacy", "litecoin_testnet",
         "dogecoin", "dogecoin_testnet", "bitcoinlib_test"}
WTs  == {"legacy", "p2sh-segwit", "segwit"}

Family(n) == CASE n \in {"bitcoin", "regtest"}             -> "btc"
               [] n \in {"testnet", "testnet4", "signet"}  -> "tbtc"
               [] n \in {"litecoin", "litecoin_legacy"}    -> "ltc"
               [] n = "litecoin_testnet"                   -> "tltc"
               [] n = "dogecoin"                           -> "doge"
               [] n = "dogecoin_testnet"                   -> "tdoge"
               [] n = "bitcoinlib_test"                    -> "blt"

WifVersionOf(n) == CASE Family(n) = "btc"   -> 128      \* 80
                   [] Family(n) = "tbtc"  -> 239      \* EF
                   [] Family(n) = "ltc"   -> 176      \* B0
                   [] Family(n) = "tltc"  -> 239      \* EF
                   [] Family(n) = "doge"  -> 158      \* 9E
                   [] Family(n) = "tdoge" -> 241      \* F1
                   [] Family(n) = "blt"   -> 153      \* 99
WifTable == [n \in Nets |-> WifVersionOf(n)]
WifVersion(n) == WifTable[n]

\* configurations <<network, witness type, multisig>>
Configs == Nets \X WTs \X BOOLEAN
Defined(c) == Family(c[1]) \in {"doge", "tdoge"} => c[2] = "legacy"
DefConfigs == {c \in Configs : Defined(c)}

\* version bytes of extended keys: <<private, public>>
XPair(c) ==
    LET f == Family(c[1]) wt == c[2] ms == c[3] IN
    CASE f \in {"btc", "doge"} /\ wt = "legacy"          -> << <<4, 136, 173, 228>>, <<4, 136, 178, 30>> >>    \* xprv xpub
      [] f = "btc" /\ wt = "p2sh-segwit" /\ ~ms          -> << <<4, 157, 120, 120>>, <<4, 157, 124, 178>> >>   \* yprv ypub
      [] f = "btc" /\ wt = "p2sh-segwit" /\ ms           -> << <<2, 149, 176, 5>>,   <<2, 149, 180, 63>> >>    \* Yprv Ypub
      [] f = "btc" /\ wt = "segwit" /\ ~ms               -> << <<4, 178, 67, 12>>,   <<4, 178, 71, 70>> >>     \* zprv zpub
      [] f = "btc" /\ wt = "segwit" /\ ms                -> << <<2, 170, 122, 153>>, <<2, 170, 126, 211>> >>   \* Zprv Zpub
      [] f \in {"tbtc", "tdoge"} /\ wt = "legacy"        -> << <<4, 53, 131, 148>>,  <<4, 53, 135, 207>> >>    \* tprv tpub
      [] f = "tbtc" /\ wt = "p2sh-segwit" /\ ~ms         -> << <<4, 74, 78, 40>>,    <<4, 74, 82, 98>> >>      \* uprv upub
      [] f = "tbtc" /\ wt = "p2sh-segwit" /\ ms          -> << <<2, 66, 133, 181>>,  <<2, 66, 137, 239>> >>    \* Uprv Upub
      [] f = "tbtc" /\ wt = "segwit" /\ ~ms              -> << <<4, 95, 24, 188>>,   <<4, 95, 28, 246>> >>     \* vprv vpub
      [] f = "tbtc" /\ wt = "segwit" /\ ms               -> << <<2, 87, 80, 72>>,    <<2, 87, 84, 131>> >>     \* Vprv Vpub
      [] f = "ltc" /\ wt = "legacy"                      -> << <<1, 157, 156, 254>>, <<1, 157, 164, 98>> >>    \* Ltpv Ltub
      [] f = "ltc" /\ wt # "legacy"                      -> << <<1, 178, 103, 146>>, <<1, 178, 110, 246>> >>   \* Mtpv Mtub
      [] f = "tltc"                                      -> << <<4, 54, 239, 125>>,  <<4, 54, 246, 225>> >>    \* ttpv ttub
      [] f = "blt" /\ wt = "legacy"                      -> << <<47, 255, 173, 221>>, <<47, 255, 172, 204>> >>
      [] f = "blt" /\ wt = "p2sh-segwit" /\ ~ms          -> << <<47, 255, 179, 0>>,  <<47, 255, 174, 238>> >>
      [] f = "blt" /\ wt = "p2sh-segwit" /\ ms           -> << <<47, 255, 181, 0>>,  <<47, 255, 177, 0>> >>
      [] f = "blt" /\ wt = "segwit" /\ ~ms               -> << <<47, 255, 185, 0>>,  <<47, 255, 182, 102>> >>
      [] f = "blt" /\ wt = "segwit" /\ ms                -> << <<47, 255, 186, 0>>,  <<47, 255, 184, 0>> >>
XTable == [c \in DefConfigs |-> XPair(c)]          \* (a constant: evaluated once)
XVersion(c, priv) == IF priv THEN XTable[c][1] ELSE XTable[c][2]

XPrvVersions == {XVersion(c, TRUE) : c \in DefConfigs}
XPubVersions == {XVersion(c, FALSE) : c \in DefConfigs}
WifVersions  == {WifVersion(n) : n \in Nets}

\* what a version says: the configurations that share it
XCandidates(v, priv) == {c \in DefConfigs : XVersion(c, priv) = v}
WifCandidates(v)     == {n \in Nets : WifVersion(n) = v}

(* ------------------------------------------------------------------------ *)
(* Keys and formats                                                          *)
(* ------------------------------------------------------------------------ *)
Cfg(k) == <<k.network, k.wt, k.ms>>

\* SEC1 encodings of the public point
SerP(k, compressed) == IF compressed THEN <<2 + (k.y[32] % 2)>> \o k.x ELSE <<4>> \o k.x \o k.y

PrivFmts == {"hex", "hex01", "bytes", "bytes01", "int", "dec", "wif", "xprv", "bip38"}
\* "pubhex" / "pubbytes" follow the key's compression flag; the _c / _u forms are the compressed / uncompressed
\* encodings asked for explicitly (every public key has both: y is determined by x and the parity byte).
\* Views that are not importable on their own: px / py (the coordinates as integers), d_* (the same values read from
\* the dictionary view of the key), addr_u (the P2PKH address of the uncompressed encoding).
ConvFmts == {"pubhex_c", "pubhex_u", "pubbytes_c", "pubbytes_u"}
ViewFmts == {"px", "py", "d_pubhex", "d_pubhex_u", "d_px", "d_py", "addr_u"}
CoreFmts == PrivFmts \cup {"pubhex", "pubbytes", "point", "xpub"}
PubFmts  == {"pubhex", "pubbytes", "point", "xpub"} \cup ConvFmts \cup ViewFmts
Fmts     == PrivFmts \cup PubFmts
ExtFmts  == {"xprv", "xpub"}
SelfDescribing == {"wif", "xprv", "xpub", "bip38"}
FmtPrivate(fmt) == fmt \in PrivFmts

\* which formats can express key k: private formats need the secret, the "+01" forms assert a compressed key,
\* extended formats need chain data and a defined version
CanExport(k, fmt) ==
    /\ fmt \in Fmts
    /\ (fmt \in PrivFmts => k.priv)
    /\ (fmt \in {"hex01", "bytes01"} => k.compressed)
    /\ (fmt \in ExtFmts => k.hd /\ Defined(Cfg(k)))
    \* the dictionary view of an HD key contains its extended keys and its address: it exists only where those do
    /\ (fmt \in {"d_pubhex", "d_pubhex_u", "d_px", "d_py"} /\ k.hd => Defined(Cfg(k)) /\ (k.compressed \/ k.wt = "legacy"))

(* ------------------------------------------------------------------------ *)
(* Key objects have a history: calls made on the same object before an       *)
(* export.  Only network_change alters the abstract key (its network); every *)
(* other call is an observer.  An export is a function of the key's CURRENT  *)
(* attributes: Export(After(k, hist), fmt) - nothing an earlier call         *)
(* computed (for another network, another version byte) may show through.    *)
(* ------------------------------------------------------------------------ *)
\* "export": the export that is judged afterwards, made once before already
ObserverOps == {"export", "wif", "wif_key", "wif_private", "wif_public", "address", "public", "as_dict"}
Apply(k, op) == IF op.op = "network_change" THEN [k EXCEPT !.network = op.n] ELSE k
RECURSIVE After(_, _)
After(k, hist) == IF hist = <<>> THEN k ELSE After(Apply(k, Head(hist)), Tail(hist))

WifPayload(k) == <<WifVersion(k.network)>> \o k.secret \o (IF k.compressed THEN <<1>> ELSE <<>>)
\* BIP32: version depth fingerprint childnumber chaincode (00 k | serP(K)); serP is always the compressed form
XPayload(k, priv) == XVersion(Cfg(k), priv) \o <<k.depth>> \o k.fp \o k.index \o k.chain
                     \o (IF priv THEN <<0>> \o k.secret ELSE SerP(k, TRUE))

Repr(t, v, w) == [t |-> t, v |-> v, w |-> w]
Export(k, fmt) ==
    CASE fmt = "hex"      -> Repr("str", HexStr(k.secret), <<>>)
      [] fmt = "hex01"    -> Repr("str", HexStr(k.secret \o <<1>>), <<>>)
      [] fmt = "bytes"    -> Repr("bytes", k.secret, <<>>)
      [] fmt = "bytes01"  -> Repr("bytes", k.secret \o <<1>>, <<>>)
      [] fmt = "int"      -> Repr("int", TrimLead(k.secret), <<>>)
      [] fmt = "dec"      -> Repr("str", DecStr(k.secret), <<>>)
      [] fmt = "wif"      -> Repr("b58c", WifPayload(k), <<>>)
      [] fmt = "xprv"     -> Repr("b58c", XPayload(k, TRUE), <<>>)
      [] fmt = "xpub"     -> Repr("b58c", XPayload(k, FALSE), <<>>)
      [] fmt \in {"pubhex", "d_pubhex"}     -> Repr("str", HexStr(SerP(k, k.compressed)), <<>>)
      [] fmt = "pubhex_c"   -> Repr("str", HexStr(SerP(k, TRUE)), <<>>)
      [] fmt \in {"pubhex_u", "d_pubhex_u"} -> Repr("str", HexStr(SerP(k, FALSE)), <<>>)
      [] fmt = "pubbytes_c" -> Repr("bytes", SerP(k, TRUE), <<>>)
      [] fmt = "pubbytes_u" -> Repr("bytes", SerP(k, FALSE), <<>>)
      [] fmt \in {"px", "d_px"} -> Repr("int", TrimLead(k.x), <<>>)
      [] fmt \in {"py", "d_py"} -> Repr("int", TrimLead(k.y), <<>>)
      [] fmt = "addr_u"     -> Repr("hash160", SerP(k, FALSE), <<>>)   \* the bytes to be hashed; string form: AddrUEnvelope
      [] fmt = "pubbytes" -> Repr("bytes", SerP(k, k.compressed), <<>>)
      [] fmt = "point"    -> Repr("point", k.x, k.y)
      [] fmt = "bip38"    -> Repr("opaque", <<>>, <<>>)      \* content is C15's subject; envelope: Bip38Envelope
B58String(payload, chk) == KB58Encode(payload \o chk)

\* BIP38 (no EC multiply): Base58Check of 01 42 flag addresshash(4) encrypted(32); flag E0 = compressed, C0 = not
Bip38Envelope(s, compressed) ==
    LET d == KB58Decode(s) IN
    /\ d.ok /\ Len(d.b) = 43
    /\ d.b[1] = 1 /\ d.b[2] = 66
    /\ d.b[3] = (IF compressed THEN 224 ELSE 192)

(* ------------------------------------------------------------------------ *)
(* Hints and what must survive an import                                     *)
(* ------------------------------------------------------------------------ *)
\* a hint set says which of the key's true attributes are handed to the importer
HintSets == [net : BOOLEAN, priv : BOOLEAN, comp : BOOLEAN, wt : BOOLEAN, ms : BOOLEAN]
NoHints  == [net |-> FALSE, priv |-> FALSE, comp |-> FALSE, wt |-> FALSE, ms |-> FALSE]
AllHints == [net |-> TRUE, priv |-> TRUE, comp |-> TRUE, wt |-> TRUE, ms |-> TRUE]

\* Non self-describing forms of 33 bytes / 66 hex characters: "02|03 x" is a public key, "secret 01" a compressed
\* private key.  A compressed private key whose secret starts with 02 or 03 has both shapes: it is read as a public
\* key unless the importer is told is_private = TRUE.
LooksPublic(k, fmt) == fmt \in {"hex01", "bytes01"} /\ k.secret[1] \in {2, 3}

\* decimal strings: 2^256 has 78 digits; strings shorter than 71 digits (secrets below 10^70) cannot be told from other
\* text forms by shape and are not a supported representation
DecSupported(k) == Len(DecStr(k.secret)) >= 71

\* compression flag after import: "T" / "F" when the representation (or the hint) fixes it, "any" otherwise
ExpectComp(k, fmt, h) ==
    CASE fmt \in {"hex01", "bytes01"}                 -> "T"
      [] fmt \in {"pubhex_c", "pubbytes_c"}           -> "T"
      [] fmt \in {"pubhex_u", "pubbytes_u"}           -> "F"
      [] fmt \in {"wif", "pubhex", "pubbytes", "bip38"} -> IF k.compressed THEN "T" ELSE "F"
      [] fmt = "xpub"                                 -> IF k.compressed THEN "T" ELSE "any"   \* BIP32 has compressed points only
      [] OTHER                                        -> IF h.comp THEN (IF k.compressed THEN "T" ELSE "F") ELSE "any"

\* configurations the imported key may carry: the key's own configuration restricted to what the representation
\* encodes (its version bytes) and to what the hints supply
Allowed(k, fmt, h) ==
    {c \in Configs :
        /\ h.net => c[1] = k.network
        /\ h.wt  => c[2] = k.wt
        /\ h.ms  => c[3] = k.ms
        /\ fmt \in ExtFmts => Defined(c) /\ XVersion(c, FmtPrivate(fmt)) = XVersion(Cfg(k), FmtPrivate(fmt))
        /\ fmt = "wif" => WifVersion(c[1]) = WifVersion(k.network) }
(* ------------------------------------------------------------------------ *)
(* Routes: how the key object that is exported came about.  The abstract key *)
(* of the object is a function of the key it was made from: a public-only    *)
(* object made by importing any public representation, by public() of a      *)
(* private key or by import of an extended public key denotes the same point *)
(* and must give every public export of that point.                          *)
(* ------------------------------------------------------------------------ *)
\* rt = [r, fmt, ep]: r = "import": the object is the import of Export(k, rt.fmt) at entry point rt.ep ("key" | "hd" | "hdfw")
\* with all hints; "public": public() of the key's object; anything else: the key's own object
Routed(k, rt) ==
    CASE rt.r = "import" ->
           LET p   == FmtPrivate(rt.fmt)
               ext == rt.fmt \in ExtFmts
           IN [k EXCEPT !.priv = p, !.secret = IF p THEN k.secret ELSE <<>>,
                        !.compressed = (ExpectComp(k, rt.fmt, AllHints) # "F"),
                        !.hd = (rt.ep \in {"hd", "hdfw"}),
                        \* a representation without chain data gives depth 0, child number 0, no parent, zero chain code
                        !.depth = IF ext THEN k.depth ELSE 0,
                        !.index = IF ext THEN k.index ELSE <<0, 0, 0, 0>>,
                        !.fp = IF ext THEN k.fp ELSE <<0, 0, 0, 0>>,
                        !.chain = IF ext THEN k.chain ELSE Rep(0, 32)]
      [] rt.r = "public" -> [k EXCEPT !.priv = FALSE, !.secret = <<>>]
      [] OTHER -> k

\* Value classes the conformance check has to cover (where fixed-width fields lose digits): leading zero nibble / byte
\* of x, of y and of the secret, both parities of y
\* ... and binary fields whose bytes look like text (where a "bytes or text" convenience may re-read them): every byte an
\* ASCII digit, a hexadecimal digit (either case), "0x" followed by hexadecimal digits, printable ASCII, or all zero
IsDigitC(c) == c \in 48..57
IsHexC(c)   == c \in 48..57 \/ c \in 97..102 \/ c \in 65..70
TextClass(b) ==
    IF b = <<>> THEN "binary"
    ELSE IF \A i \in 1..Len(b) : b[i] = 0 THEN "all-zero"
    ELSE IF \A i \in 1..Len(b) : IsDigitC(b[i]) THEN "digits"
    ELSE IF Len(b) > 2 /\ b[1] = 48 /\ b[2] = 120 /\ (\A i \in 3..Len(b) : IsHexC(b[i])) THEN "0x-prefix"
    ELSE IF \A i \in 1..Len(b) : IsHexC(b[i]) THEN "hex-digits"
    ELSE IF \A i \in 1..Len(b) : b[i] \in 32..126 THEN "printable"
    ELSE "binary"
TextClassNames == {"all-zero", "digits", "0x-prefix", "hex-digits", "printable"}
FieldClasses(k, fields) ==
    {f \o ":" \o TextClass(IF f = "fp" THEN k.fp ELSE IF f = "chain" THEN k.chain ELSE IF f = "index" THEN k.index ELSE k.secret) :
        f \in fields} \ {f \o ":binary" : f \in fields}
ValueClasses(k) ==
    {IF k.y[32] % 2 = 0 THEN "y-even" ELSE "y-odd"}
    \cup (IF k.y[1] < 16 THEN {"y-zero-nibble"} ELSE {}) \cup (IF k.y[1] = 0 THEN {"y-zero-byte"} ELSE {})
    \cup (IF k.x[1] < 16 THEN {"x-zero-nibble"} ELSE {}) \cup (IF k.x[1] = 0 THEN {"x-zero-byte"} ELSE {})
    \cup (IF k.priv /\ k.secret[1] = 0 THEN {"secret-zero-byte"} ELSE {})
PointClasses == {"y-even", "y-odd", "y-zero-nibble", "y-zero-byte", "x-zero-nibble", "x-zero-byte"}
\* routes by which a public-only object is reached; every point class has to occur on every one of them
PubRoutes == {"import:pubhex_c", "import:pubbytes_c", "import:pubhex_u", "import:pubbytes_u", "import:point", "import:xpub",
              "public", "child"}
\* every extended private version (per family, witness type, multisig) has to be exported for a secret with a leading
\* zero byte
FamilyConfigs == {<<Family(c[1]), c[2], c[3]>> : c \in DefConfigs}
ConfigName(f) == f[1] \o "/" \o f[2] \o (IF f[3] THEN "/multisig" ELSE "/single")
\* every fixed-width binary field of an extended key (and the secret in its other forms) in every text-looking class
\* (a secret cannot be zero)
RequiredFields == ({f \o ":" \o c : f \in {"fp", "chain", "index", "secret"}, c \in TextClassNames}) \ {"secret:all-zero"}
RequiredCover == {<<r, c>> : r \in PubRoutes, c \in PointClasses}
                 \cup {<<"xprv", ConfigName(f)>> : f \in FamilyConfigs}
                 \cup {<<"field", c>> : c \in RequiredFields}

\* P2PKH version bytes
AddrVersion(n) == CASE Family(n) = "btc"   -> 0
                    [] Family(n) = "tbtc"  -> 111
                    [] Family(n) = "ltc"   -> 48
                    [] Family(n) = "tltc"  -> 111
                    [] Family(n) = "doge"  -> 30
                    [] Family(n) = "tdoge" -> 113
                    [] Family(n) = "blt"   -> 144
\* the uncompressed P2PKH address: Base58 of version, hash160 of the uncompressed encoding (h: oracle), four check bytes
\* (their value is C11's subject)
AddrUEnvelope(s, k, h) ==
    LET d == KB58Decode(s) IN d.ok /\ Len(d.b) = 25 /\ SubSeq(d.b, 1, 21) = <<AddrVersion(k.network)>> \o h

AllowedNets(k, fmt, h) == {c[1] : c \in Allowed(k, fmt, h)}

\* entry points: "key" / "keyfw" build a plain key (no witness type, multisig, chain data), "hd" / "hdfw" an HD key
HDEntry(ep) == ep \in {"hd", "hdfw", "ctor"}

\* The importer may refuse instead of answering when the version bytes are shared by several networks and no network is
\* supplied.  A BIP38 key is verified against the hash of its address: the string is bound to the network and to the
\* address type of the exporter (P2PKH for a plain key, the witness type for an HD key); an importer that is not given
\* the network or builds another address type may refuse.  BIP38 strings made by multisig HD keys (bound to a script
\* address) are not considered (whether those bindings are BIP38's is C15's subject).
Bip38Bound(k) == IF k.hd THEN k.wt ELSE "legacy"
Bip38Importer(k, ep, h) == IF HDEntry(ep) THEN (IF h.wt THEN k.wt ELSE "?") ELSE "legacy"
MayRefuse(k, fmt, ep, h) ==
    \/ fmt \in (ExtFmts \cup {"wif"}) /\ ~h.net /\ Cardinality(AllowedNets(k, fmt, h)) > 1
    \/ fmt = "bip38" /\ (~h.net \/ Bip38Importer(k, ep, h) # Bip38Bound(k) \/ (k.hd /\ k.ms))
    \/ fmt = "dec" /\ ~DecSupported(k)
    \/ LooksPublic(k, fmt) /\ ~h.priv

(* ------------------------------------------------------------------------ *)
(* Named deviations (what the implementation is known to do instead)         *)
(* ------------------------------------------------------------------------ *)
DevMsLost   == "hdkey-multisig-hint-lost-for-plain-formats"
    \* HDKey(<non-extended representation>, multisig=TRUE) answers multisig = FALSE
DevPrivHint == "is-private-hint-ignored-for-02-03-secret"
    \* a compressed private key in hex+01 / bytes+01 form whose secret starts with 02/03, imported with
    \* is_private=TRUE: refused (Key, hex) or still read as the public key "02|03 rest-of-secret 01" (HDKey)
DevDec78    == "decimal-string-of-78-digits-refused"
    \* decimal strings of 78 digits (secrets >= 10^77, 13.6 % of all secrets) are not recognised
DevXpubUnc  == "xpub-of-uncompressed-hdkey-carries-65-byte-point"
    \* the extended public key of an HD key flagged uncompressed is serialized with the 65-byte point
DevWifTail  == "uncompressed-wif-secret-ending-01-read-as-compressed"
    \* the compression flag of a WIF key is taken from the last payload byte instead of the payload length: an
    \* uncompressed WIF whose secret ends in 01 (1 of 256) is imported as a compressed key with a 31-byte secret
Devs == {DevMsLost, DevPrivHint, DevDec78, DevXpubUnc, DevWifTail}

DevApplies(dv, k, fmt, ep, h) ==
    CASE dv = DevMsLost   -> ep = "hd" /\ ~(fmt \in ExtFmts) /\ h.ms /\ k.ms
      [] dv = DevPrivHint -> LooksPublic(k, fmt) /\ h.priv /\ ep \in {"key", "hd"}
      [] dv = DevDec78    -> fmt = "dec" /\ Len(DecStr(k.secret)) = 78
      [] dv = DevXpubUnc  -> fmt = "xpub" /\ ~k.compressed
      [] dv = DevWifTail  -> fmt = "wif" /\ ~k.compressed /\ k.secret[32] = 1
      [] OTHER            -> FALSE

\* the deviant export of DevXpubUnc
XPayloadUnc(k) == XVersion(Cfg(k), FALSE) \o <<k.depth>> \o k.fp \o k.index \o k.chain \o SerP(k, FALSE)

(* ------------------------------------------------------------------------ *)
(* Constraint on the result of importing Export(k, fmt) at entry point ep    *)
(* with hints h, under deviation set D (D = {} is the property)              *)
(* ------------------------------------------------------------------------ *)
Constraint(k, fmt, ep, h, D) ==
    LET dms   == DevMsLost \in D /\ DevApplies(DevMsLost, k, fmt, ep, h)
        dpriv == DevPrivHint \in D /\ DevApplies(DevPrivHint, k, fmt, ep, h)
        ddec  == DevDec78 \in D /\ DevApplies(DevDec78, k, fmt, ep, h)
        dwif  == DevWifTail \in D /\ DevApplies(DevWifTail, k, fmt, ep, h)
        hh    == IF dms THEN [h EXCEPT !.ms = FALSE] ELSE h
    IN [ refuse  |-> IF ddec THEN "must" ELSE IF dpriv \/ MayRefuse(k, fmt, ep, h) THEN "may" ELSE "no",
         \* a public reading of the representation is acceptable (and then nothing else is asked)
         pubread |-> (LooksPublic(k, fmt) /\ ~h.priv),
         \* the result must be the public reading "02|03 ..." of the 33 bytes
         pubonly |-> dpriv,
         \* the result must be the compressed key with the first 31 bytes of the secret
         wiftail |-> dwif,
         free    |-> (fmt = "dec" /\ ~DecSupported(k)),
         priv    |-> IF fmt = "ctor" THEN k.priv ELSE FmtPrivate(fmt),
         comp    |-> ExpectComp(k, fmt, h),
         allowed |-> IF dms THEN {c \in Allowed(k, fmt, hh) : c[3] = FALSE} ELSE Allowed(k, fmt, h),
         ext     |-> (fmt \in ExtFmts \/ (fmt = "ctor" /\ k.hd)),
         reexp   |-> (fmt \in ExtFmts) ]

\* an import result (byte strings already resolved):
\*  [ok, priv, sec, sec2, sec3, x, y, pub, comp, net, hd, wt, ms, depth, index, fp, chain, rewif]
\* sec / sec2 / sec3: the secret as bytes, from the hex attribute, from the integer attribute (32 bytes each)
\* repr: what was imported (string-level: for b58c the character codes)
Judge(k, fmt, ep, res, C, reprv) ==
    IF ~res.ok THEN (IF C.refuse # "no" THEN "ok" ELSE "import-refused")
    ELSE IF C.refuse = "must" THEN "import-not-refused"
    ELSE IF C.free THEN "ok"
    ELSE IF C.pubonly THEN (IF ~res.priv /\ res.pub = k.secret \o <<1>> THEN "ok" ELSE "not-the-public-reading")
    ELSE IF C.wiftail THEN (IF res.priv /\ res.comp /\ res.sec = SubSeq(k.secret, 1, 31) THEN "ok" ELSE "not-the-31-byte-reading")
    ELSE IF C.pubread /\ ~res.priv THEN (IF res.pub = k.secret \o <<1>> THEN "ok" ELSE "not-the-public-reading")
    ELSE IF res.priv # C.priv THEN "is-private"
    ELSE IF C.priv /\ res.sec # k.secret THEN "secret-bytes"
    ELSE IF C.priv /\ res.sec2 # k.secret THEN "secret-hex"
    ELSE IF C.priv /\ res.sec3 # k.secret THEN "secret-int"
    ELSE IF res.x # k.x \/ res.y # k.y THEN "public-point"
    ELSE IF C.comp # "any" /\ res.comp # (C.comp = "T") THEN "compressed-flag"
    ELSE IF res.pub # SerP(k, res.comp) THEN "public-bytes"
    ELSE IF ~(res.net \in {c[1] : c \in C.allowed}) THEN "network"
    ELSE IF HDEntry(ep) /\ ~res.hd THEN "not-an-hd-key"
    ELSE IF HDEntry(ep) /\ ~(\E c \in C.allowed : c[1] = res.net /\ c[2] = res.wt) THEN "witness-type"
    ELSE IF HDEntry(ep) /\ ~(<<res.net, res.wt, res.ms>> \in C.allowed) THEN "multisig"
    ELSE IF HDEntry(ep) /\ C.ext /\ res.depth # k.depth THEN "depth"
    ELSE IF HDEntry(ep) /\ C.ext /\ res.index # k.index THEN "child-index"
    ELSE IF HDEntry(ep) /\ C.ext /\ res.fp # k.fp THEN "parent-fingerprint"
    ELSE IF HDEntry(ep) /\ C.ext /\ res.chain # k.chain THEN "chain-code"
    ELSE IF HDEntry(ep) /\ C.reexp /\ res.rewif # reprv THEN "reexport-identity"
    ELSE "ok"

\* candidate deviation sets, tried in this order
DevCands == << {DevMsLost}, {DevPrivHint}, {DevDec78}, {DevWifTail} >>
DevName(D) == CHOOSE d \in D : TRUE

\* verdict on one observation: <<clause, deviation name>>
Verdict(k, fmt, ep, h, res, reprv) ==
    LET v0 == Judge(k, fmt, ep, res, Constraint(k, fmt, ep, h, {}), reprv) IN
    IF v0 = "ok" THEN <<"ok", "">>
    ELSE LET hits == {i \in 1..Len(DevCands) :
                         /\ \A d \in DevCands[i] : DevApplies(d, k, fmt, ep, h)
                         /\ Judge(k, fmt, ep, res, Constraint(k, fmt, ep, h, DevCands[i]), reprv) = "ok"}
         IN IF hits = {} THEN <<v0, "">>
            ELSE <<v0, DevName(DevCands[CHOOSE i \in hits : \A j \in hits : i <= j])>>

(* ------------------------------------------------------------------------ *)
(* Detection for the self-describing formats                                 *)
(* ------------------------------------------------------------------------ *)
\* det = [ok, family ("wif" | "xprv" | "xpub" | "bip38" | "other"), priv ("T" | "F" | "N"), nets, wts, mss]
\* nets / wts / mss: the candidate lists the detector reports (empty: not reported)
DetectVerdict(k, fmt, det) ==
    IF ~(fmt \in SelfDescribing) THEN "ok"
    ELSE IF ~det.ok THEN "detect-refused"
    ELSE IF det.priv # (IF FmtPrivate(fmt) THEN "T" ELSE "F") THEN "detect-is-private"
    ELSE IF det.family # fmt THEN "detect-format"
    ELSE IF fmt \in (ExtFmts \cup {"wif"}) /\ Range(det.nets) # AllowedNets(k, fmt, NoHints) THEN "detect-networks"
    ELSE IF fmt \in ExtFmts /\ Range(det.wts) # {c[2] : c \in Allowed(k, fmt, NoHints)} THEN "detect-witness-types"
    ELSE IF fmt \in ExtFmts /\ Range(det.mss) # {c[3] : c \in Allowed(k, fmt, NoHints)} THEN "detect-multisig"
    ELSE "ok"
=============================================================================
