CONSTANTS
  Txs = {}
  NBlock = 5
