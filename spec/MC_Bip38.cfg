SPECIFICATION Spec
CONSTANTS
  Has <- ToyHas
  Val <- ToyVal
  Keys <- MCKeys
  Nets = {"bitcoin", "litecoin"}
  PWs <- MCPWs
  Pool <- MCPool
  LotSeqs <- MCLotSeqs
  MaxGen = 2
INVARIANT RoundTrip
INVARIANT WrongPassFails
INVARIANT Fresh
INVARIANT ExplicitHonoured
INVARIANT TokenShape
CHECK_DEADLOCK FALSE
