----------------------------- MODULE MC_Amount -----------------------------
(***************************************************************************)
(* Bounded model of Amount: every amount of a domain (all small integers   *)
(* plus boundary values up to the total supply) x every denominator x      *)
(* every number of decimals is formatted (Fmt) and the text parsed back    *)
(* (Prs).  The invariants are the design-level statements of C17:          *)
(* format-then-parse is the identity whenever the decimals suffice, the    *)
(* result never leaves the two neighbouring integers otherwise, results    *)
(* are non-negative integers, the unit grammar is unambiguous, and what is *)
(* placed in a transaction is an 8-byte little-endian non-negative integer.*)
(***************************************************************************)
EXTENDS Amount, TLC
CONSTANTS SmallMax,       \* amounts 0..SmallMax are enumerated
          DecSet          \* numbers of decimals tried (-1 = "as many as needed")

QuickDecs == {-1, 0, 1, 2, 7, 8, 9, 14}
ThoroughDecs == (0 - 1)..14

NatBE(n) == SubSeq(Rev(NatToLE(n, 10)), 1, Len(NatToLE(n, 10)))
Force(s) == SubSeq(s, 1, Len(s))          \* an explicit tuple instead of a lazily evaluated function value
\* powers of two as literals (a recursive definition nests lazily evaluated arguments too deeply for TLC's worker
\* stacks); each literal is validated below through the independent base-256 conversion: exactly one bit is set
Pow2Lit == [k \in {8, 16, 24, 31, 32, 33, 40, 48, 50} |->
             CASE k = 8  -> <<2,5,6>>
               [] k = 16 -> <<6,5,5,3,6>>
               [] k = 24 -> <<1,6,7,7,7,2,1,6>>
               [] k = 31 -> <<2,1,4,7,4,8,3,6,4,8>>
               [] k = 32 -> <<4,2,9,4,9,6,7,2,9,6>>
               [] k = 33 -> <<8,5,8,9,9,3,4,5,9,2>>
               [] k = 40 -> <<1,0,9,9,5,1,1,6,2,7,7,7,6>>
               [] k = 48 -> <<2,8,1,4,7,4,9,7,6,7,1,0,6,5,6>>
               [] k = 50 -> <<1,1,2,5,8,9,9,9,0,6,8,4,2,6,2,4>>]
Pow2(k) == Pow2Lit[k]
RECURSIVE TwoTo(_)
TwoTo(j) == IF j = 0 THEN 1 ELSE 2 * TwoTo(j - 1)
ASSUME \A k \in DOMAIN Pow2Lit : LE8(Pow2Lit[k]) = [i \in 1..8 |-> IF i = (k \div 8) + 1 THEN TwoTo(k % 8) ELSE 0]
Dec1(s) == Force(Rev(SubLE(Rev(s), <<1>>, 10)))
Inc1(s) == Force(Inc(s))
Pow10(k) == <<1>> \o Rep(0, k)
RECURSIVE DownFrom(_, _)
DownFrom(s, j) == IF j = 0 THEN {s} ELSE {s} \cup DownFrom(Dec1(s), j - 1)

Boundary == UNION { {Pow10(k), Inc1(Pow10(k)), Dec1(Pow10(k))} : k \in 1..15 }
            \cup UNION { {Inc1(Pow2(k)), Dec1(Pow2(k))} : k \in {8, 16, 24, 31, 32, 33, 40, 48, 50} }
            \cup DownFrom(Supply, 3)
            \cup { <<1,2,3,4,5,6,7,8,9,0,1,2,3,4,5,6>>, <<2,0,3,6,1,1,6,1,5,0,0,5,5,3,6,3>>, <<9,9,9,9,9,9,9,9,9>> }
Amounts == {NatBE(n) : n \in 0..SmallMax} \cup Boundary

VARIABLES mode, n, den, dec, net, text, back
vars == <<mode, n, den, dec, net, text, back>>

Init == \/ /\ mode = "fmt" /\ n \in Amounts /\ den \in DenIdx /\ dec \in DecSet
           /\ net \in (IF dec = -1 THEN {"bitcoin", "dogecoin_testnet"} ELSE {"bitcoin"}) /\ text = <<>> /\ back = {}
        \/ /\ mode = "unit" /\ n = <<>> /\ den \in DenIdx /\ dec = 0 /\ net \in NetNames /\ text = <<>> /\ back = {}

RealDec == IF dec = -1 THEN Sufficient(den, net) ELSE dec

Fmt == /\ mode = "fmt" /\ text = <<>>
       /\ text' \in FormatTexts(n, den, net, RealDec)
       /\ mode' = "text"
       /\ UNCHANGED <<n, den, dec, net, back>>
Prs == /\ mode = "text"
       /\ LET p == ParseText(text) IN back' = Accepted(Units(p, CHOOSE x \in TextNets(p, "") : TRUE))
       /\ mode' = "done"
       /\ UNCHANGED <<n, den, dec, net, text>>
Next == Fmt \/ Prs
Spec == Init /\ [][Next]_vars

Enough == Representable(n, den, net, RealDec)

\* format-then-parse returns the same integer
RoundTrip == (mode = "done" /\ Enough) => back = {Norm(n)}
\* with too few decimals the text is one of the two neighbours at that resolution and it denotes an integer again
\* (the resolution is coarser than the unit), within one resolution step of n
Envelope == (mode = "done" /\ ~Enough) =>
                /\ Cardinality(back) = 1
                /\ \E x \in Neighbours(n, den, net, RealDec) :
                       back = {Floor(ShiftPoint(x, Places(den, net)))} /\ Exact(ShiftPoint(x, Places(den, net)))
                /\ \A b \in back : Cmp(b, n) # 0
\* the text parses, names the denominator and the currency it was formatted with, and nothing is ambiguous
TextReads == mode \in {"text", "done"} =>
                LET p == ParseText(text) IN
                /\ p.ok /\ ~p.ambiguous /\ ~p.neg /\ p.den = den /\ net \in TextNets(p, "")
\* results are non-negative integers: digit sequences without sign or fraction
NonNegInt == \A b \in back : IsDigits(b) /\ b = Norm(b)
\* every denominator symbol followed by every currency code (or nothing) has exactly one reading
UnitUnique == mode = "unit" =>
                /\ Readings(Denominators[den].cps \o NetByName(net).code) = {<<den, NetByName(net).code>>}
                /\ Readings(Denominators[den].cps) = {<<den, <<>>>>}
\* an amount up to the supply fits the 8-byte field and decodes to itself
Placed == (mode = "fmt" /\ den = 1 /\ dec = -1) => /\ Len(LE8(n)) = 8
                                                  /\ Norm(Rev(ConvBEtoLE(Rev(Trim(LE8(n))), 256, 10))) = Norm(n)
\* more decimals never change the amount; the sufficient number of decimals is sufficient
SufficientIsEnough == mode = "fmt" => Representable(n, den, net, Sufficient(den, net))
=============================================================================
