----------------------------- MODULE MC_Checksum -----------------------------
(***************************************************************************)
(* Bounded model of C11.                                                   *)
(*  mode "b58s":  every string over a sub-alphabet up to a length bound    *)
(*                (Base58 decode/encode is a bijection: canonical form)    *)
(*  mode "b58b":  every byte string over a small domain (round trip,       *)
(*                leading-zero rule)                                       *)
(*  mode "chk":   mutation machine over Base58Check strings (toy hash in   *)
(*                place of sha256d - the real one is an oracle fact in the *)
(*                conformance run): whatever is accepted is canonical,     *)
(*                dropped / added leading '1' is rejected, and the named   *)
(*                deviations reproduce the defects they stand for          *)
(*  mode "seg":   mutation machine over segwit addresses: every single     *)
(*                substitution, insertion, deletion, transposition, case   *)
(*                flip and truncation is rejected by SegwitDecode (BCH     *)
(*                guarantee + BIP173/350 length and constant rules)        *)
(***************************************************************************)
EXTENDS Checksum, TLC
CONSTANTS MaxDamage,     \* number of successive damage steps explored
          StrLen,        \* bound for mode b58s
          Wide           \* TRUE: more seeds (thorough tier)

VARIABLES mode, seed, str, op, n, pos
vars == <<mode, seed, str, op, n, pos>>

\* toy stand-in for the first four bytes of sha256d (any function does: the invariants are conditional on acceptance)
RECURSIVE SumTo(_, _)
SumTo(p, i) == IF i = 0 THEN 0 ELSE (p[i] * (i + 2) + SumTo(p, i - 1)) % 65521
ToyH(p) == LET a == SumTo(p, Len(p)) IN <<a % 256, a \div 256, (a * 7 + Len(p)) % 256, (a + p[1]) % 251>>

SubAlpha == <<49, 50, 122, 105>>                 \* '1' '2' 'z' 'i'
Strings == UNION { [1..k -> Range(SubAlpha)] : k \in 0..StrLen }
ByteStrings == UNION { [1..k -> {0, 1, 255}] : k \in 0..4 }

\* Base58Check seeds: [kind, p, dmg]   (dmg: how much damage is explored from the seed: "full" alphabet, "small", "none")
W(x) == IF Wide THEN "full" ELSE x
ChkSeeds ==
    { [kind |-> "addr", dmg |-> "full", p |-> <<0, 0, 0>> \o [i \in 1..18 |-> (i * 37) % 256]],       \* string starts with 111
      [kind |-> "addr", dmg |-> W("small"), p |-> <<5>> \o [i \in 1..20 |-> (i * 17 + 5) % 256]],
      [kind |-> "addr", dmg |-> W("none"), p |-> <<42>> \o [i \in 1..20 |-> (i * 11) % 256]] }       \* unknown version
    \cup (IF Wide THEN { [kind |-> "wif", dmg |-> "full", p |-> <<128>> \o [i \in 1..32 |-> (i * 59 + 1) % 256] \o <<1>>],
                         [kind |-> "addr", dmg |-> "full", p |-> <<111>> \o [i \in 1..20 |-> (i * 13 + 100) % 256]] } ELSE {})
\* segwit seeds: [hrp, ver, prog, dmg]; the first one encodes to a string ending in "qp" (the insertion/deletion
\* weakness of Bech32 that the length rules of BIP173 and the constant of BIP350 close)
SegSeeds ==
    { [hrp |-> <<98, 99>>, ver |-> 0, dmg |-> "full", prog |-> Rep(7, 18) \o <<10, 10>>],
      [hrp |-> <<116, 98>>, ver |-> 1, dmg |-> W("small"), prog |-> [i \in 1..32 |-> (i * 29 + 5) % 256]] }
    \cup (IF Wide THEN { [hrp |-> <<98, 99>>, ver |-> 0, dmg |-> "full", prog |-> [i \in 1..32 |-> (i * 3) % 256]],
                         [hrp |-> <<98, 99, 114, 116>>, ver |-> 16, dmg |-> "full", prog |-> <<1, 2>>] } ELSE {})

ChkAlpha == Range(B58Alphabet) \cup {48, 79, 73, 108}          \* 0 O I l
SegAlpha == Range(B32Alphabet) \cup {98, 49, 81}               \* b 1 Q

NoSeed == [kind |-> "", p |-> <<>>, s0 |-> <<>>, dmg |-> "none"]
Init == /\ pos = 0 /\ op = "" /\ n = 0
        /\ \/ /\ mode = "b58s" /\ str \in Strings /\ seed = NoSeed
           \/ /\ mode = "b58b" /\ \E b \in ByteStrings : seed = [NoSeed EXCEPT !.p = b] /\ str = B58Encode(b)
           \/ /\ mode = "chk" /\ \E c \in ChkSeeds : /\ str = B58CheckEncode(c.p, ToyH)
                                                   /\ seed = [kind |-> c.kind, p |-> c.p, s0 |-> str, dmg |-> c.dmg]
           \/ /\ mode = "seg" /\ \E s \in SegSeeds : /\ str = SegwitEncode(s.hrp, s.ver, s.prog)
                                                   /\ seed = [kind |-> "seg", p |-> <<s>>, s0 |-> str, dmg |-> s.dmg]

Alpha == IF seed.dmg = "small" THEN {48, 79, 73, 108, 49, 122, 113, 81}       \* 0 O I l 1 z q Q
         ELSE IF mode = "chk" THEN ChkAlpha ELSE SegAlpha
\* damage is explored in two steps (pick a position, then damage it) so that the work spreads over TLC's workers
MPick == mode \in {"chk", "seg"} /\ seed.dmg # "none" /\ n < MaxDamage /\ pos = 0 /\ pos' \in 1..(Len(str) + 1)
         /\ UNCHANGED <<mode, seed, str, op, n>>
Damageable == pos > 0
Step(o, s2) == str' = s2 /\ op' = o /\ n' = n + 1 /\ pos' = 0 /\ UNCHANGED <<mode, seed>>
In == pos <= Len(str)

MSubst  == Damageable /\ In /\ \E c \in Alpha : c # str[pos] /\ Step("subst", Subst(str, pos, c))
MInsert == Damageable /\ \E c \in Alpha : Step("insert", Insert(str, pos, c))
MDelete == Damageable /\ In /\ Step("delete", Delete(str, pos))
MSwap   == Damageable /\ pos < Len(str) /\ str[pos] # str[pos + 1] /\ Step("swap", Swap(str, pos))
MCase   == Damageable /\ In /\ CaseFlip(str, pos) # str /\ Step("case", CaseFlip(str, pos))
MTrunc  == Damageable /\ In /\ (Step("trunc", Truncate(str, pos - 1)) \/ (pos < Len(str) /\ Step("trunc", DropFront(str, pos))))
Next == MPick \/ MSubst \/ MInsert \/ MDelete \/ MSwap \/ MCase \/ MTrunc
Spec == Init /\ [][Next]_vars

(* ---------------- Base58 ---------------- *)
\* every alphabet string is the canonical encoding of what it decodes to; one zero byte per leading '1'
B58Bijective == mode = "b58s" => /\ B58Canonical(str)
                                 /\ LeadCount(B58Decode(str).b, 0) = LeadCount(str, 49)
B58RoundTrip == mode = "b58b" => /\ B58Decode(str) = [ok |-> TRUE, b |-> seed.p]
                                 /\ LeadCount(str, 49) = LeadCount(seed.p, 0)
B58Foreign   == mode = "b58s" => \A c \in {48, 79, 73, 108, 32, 233} : ~B58Decode(Append(str, c)).ok /\ ~B58Decode(<<c>> \o str).ok

(* ---------------- Base58Check ---------------- *)
ChkR == B58CheckDecode(str, seed.kind, ToyH)
ChkSeedVerdict == (mode = "chk" /\ n = 0 /\ pos = 0) =>
                      IF seed.p[1] = 42 THEN ChkR = Reject("version") ELSE ChkR = Accept(seed.p)
ChkAcceptedCanonical == (mode = "chk" /\ pos = 0) => (ChkR.ok => /\ B58CheckEncode(ChkR.p, ToyH) = str
                                                    /\ LenOk(seed.kind, ChkR.p) /\ VersionOk(seed.kind, ChkR.p))
\* a dropped or an added leading '1' changes the decoded length: rejected
ChkLeadingOnes == (mode = "chk" /\ n = 1 /\ seed.p[1] # 42) =>
                      LET s0 == seed.s0 IN
                      /\ (s0[1] = 49 /\ str = Tail(s0)) => ChkR = Reject("length")
                      /\ str = <<49>> \o s0 => ChkR = Reject("length")
\* the named deviations describe the defects they stand for (binding demonstration inside the model)
ChkDevPad == (mode = "chk" /\ n = 1 /\ seed.kind = "addr") =>
                 LET s0 == seed.s0 IN
                 (s0[1] = 49 /\ str = Tail(s0)) => B58CheckDecodeD(str, "addr", ToyH, {DevPad}) = Accept(seed.p)
ChkDevFold == (mode = "chk" /\ n = 1 /\ op = "subst" /\ seed.p[1] # 42) =>
                  LET s0 == seed.s0 IN
                  (HasIO(str) /\ Fold(str) = s0) => /\ ChkR = Reject("alphabet")
                                                   /\ B58CheckDecodeD(str, seed.kind, ToyH, {DevFold}) = Accept(seed.p)
ChkDevXCheck == \* unverified checksum: every 82-byte decoding with a known version is taken
    mode = "b58b" => LET b == <<4, 136, 173, 228>> \o PadLE(seed.p \o <<9>>, 78) IN
                     /\ Len(b) = 82
                     /\ CheckBytesD(b, "xkey", ToyH, {DevXCheck}).ok
                     /\ (CheckBytesD(b, "xkey", ToyH, {}).ok <=> ToyH(Payload(b)) = Check4(b))

\* (vacuity guard for ChkDevFold: the version-5 seed string contains an 'i' or an 'o')
ChkSeedHasIO == (mode = "chk" /\ n = 0 /\ pos = 0 /\ seed.p[1] = 5) => \E i \in 1..Len(str) : str[i] \in {105, 111}

(* ---------------- Bech32 / Bech32m ---------------- *)
SegS == seed.p[1]
SegR == SegwitDecode(str)
SegSeedRoundTrip == (mode = "seg" /\ n = 0 /\ pos = 0) =>
                        SegR = [ok |-> TRUE, why |-> "", hrp |-> SegS.hrp, ver |-> SegS.ver, prog |-> SegS.prog, upper |-> FALSE]
SegUpperAccepted == (mode = "seg" /\ n = 0 /\ pos = 0) => LET u == SegwitDecode(ToUpper(str)) IN u.ok /\ u.prog = SegS.prog /\ u.upper
SegQPSeed == (mode = "seg" /\ n = 0 /\ pos = 0 /\ SegS.prog = Rep(7, 18) \o <<10, 10>>) =>
                 /\ SubSeq(str, Len(str) - 1, Len(str)) = <<113, 112>>
                 \* the generic Bech32 layer indeed accepts the string with the q removed / another q inserted ...
                 /\ Bech32Parse(Delete(str, Len(str) - 1)).const = Bech32Const
                 /\ Bech32Parse(Insert(str, Len(str), 113)).const = Bech32Const
\* ... and the address rules reject them, like every other single damage
SegDamageRejected == (mode = "seg" /\ n >= 1 /\ pos = 0 /\ str # seed.s0) => ~SegR.ok
\* wrong checksum constant
SegWrongConstant == (mode = "seg" /\ n = 0 /\ pos = 0) =>
    LET bad == Bech32EncodeRaw(SegS.hrp, <<SegS.ver>> \o To5(SegS.prog), IF SegS.ver = 0 THEN Bech32mConst ELSE Bech32Const)
    IN SegwitDecode(bad) = B32Reject("checksum-constant")
SegUnknownHrp == (mode = "seg" /\ n = 0 /\ pos = 0) =>
    LET s2 == SegwitEncode(<<120, 121>>, SegS.ver, SegS.prog)
    IN /\ SegwitDecode(s2) = B32Reject("hrp")
       /\ SegwitDecodeD(s2, {DevHrp}).ok
=============================================================================
