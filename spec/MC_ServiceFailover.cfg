SPECIFICATION Spec
CONSTANTS
  Providers = {"p1", "p2", "p3"}
  MaxProvidersRange = {1, 2}
  MaxErrorsRange = {1, 2, 3, 4}
INVARIANT TypeOK
INVARIANT Authentic
INVARIANT FirstResponder
INVARIANT Skips
INVARIANT FailOnlyIfNone
INVARIANT Bounded
INVARIANT ErrorLimit
INVARIANT NobodyOvertaken
PROPERTY NoCallAfterEnd
PROPERTY Termination
