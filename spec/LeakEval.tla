------------------------------ MODULE LeakEval ------------------------------
(* (V) binding of Leak.tla to observations of the implementation.  One record = one history:                            *)
(*   kind "key":    start kind + steps [c, a, ok, os, oo, hs, ho]: the call, its optional arguments (a record of ArgSpace), whether it was performed (an exception of any  *)
(*                  type = refused), the encodings of the subject's own key (os) and of other keys in play (oo) found in *)
(*                  the call's output, and (hs, ho) found in the subject's object graph, pickle and deep copy afterwards *)
(*   kind "wallet": steps [c, ok, items [priv, signed, own, other]]                                                      *)
(*   kind "db":     encryption mode + steps [c, found]: encodings found in the raw database files after the step         *)
(* TLC walks the specification along the history under the property semantics (no deviation).  If that fails it looks   *)
(* for the smallest set of named deviations under which every observation of the history equals the specification's     *)
(* prediction; the verdict carries the failing clause, the step, the expectation of the property and that set (empty =  *)
(* unexplained).                                                                                                         *)
EXTENDS Leak, Json, IOUtils, TLC, SequencesExt
Recs == ndJsonDeserialize(IOEnv.IN_FILE)
Ok == [v |-> "ok", at |-> 0, exp |-> <<>>]

RECURSIVE KWalk(_, _, _, _)
KWalk(D, s, steps, i) ==
    IF i > Len(steps) THEN Ok
    ELSE LET e == steps[i]
             r == Act(D, s, e.c)
             s1 == IF e.ok THEN r.st ELSE s
             \* a private key object may cache what it likes (also during a call that ends in a refusal): what it holds
             \* besides the scalar is taken from the observation, not prescribed
             s2 == IF s1.private /\ s1.kind \in KeyKinds THEN [s1 EXCEPT !.cache = ToSet(e.hs) \ ScalarEnc] ELSE s1
         IN IF (e.c \notin CallsOf(s) /\ e.c # "encrypt") \/ e.a \notin ArgSpace(e.c)
            THEN [v |-> "call-not-in-specification", at |-> i, exp |-> <<>>]
            ELSE IF e.ok /\ r.view = "public" /\ (ToSet(e.os) # r.out \/ Len(e.oo) # 0)
                 THEN [v |-> "public-view-carries-private-key", at |-> i, exp |-> SetToSeq(r.out)]
            ELSE IF ~s2.private /\ (ToSet(e.hs) # Held(s2) \/ Len(e.ho) # 0)
                 THEN [v |-> "public-object-holds-private-key", at |-> i, exp |-> SetToSeq(Held(s2))]
            ELSE KWalk(D, s2, steps, i + 1)

ItemOk(D, c, it) == ToSet(it.own) = WOut(D, c, [priv |-> it.priv, signed |-> it.signed]) /\ Len(it.other) = 0
RECURSIVE WWalk(_, _, _, _)
WWalk(D, watch, steps, i) ==
    IF i > Len(steps) THEN Ok
    ELSE LET e == steps[i]
             bad == {k \in 1..Len(e.items) : ~ItemOk(D, e.c, e.items[k])}
         IN IF e.ok /\ WView(watch, e.c) = "public" /\ bad # {}
            THEN LET k == CHOOSE k \in bad : \A j \in bad : k <= j IN
                 [v |-> "wallet-public-view-carries-private-key", at |-> i,
                  exp |-> SetToSeq(WOut(D, e.c, [priv |-> e.items[k].priv, signed |-> e.items[k].signed]))]
            ELSE WWalk(D, watch \/ (e.ok /\ e.c = "to_watch_only"), steps, i + 1)

RECURSIVE DWalk(_, _, _)
DWalk(mode, steps, i) ==
    IF i > Len(steps) THEN Ok
    ELSE IF ~(ToSet(steps[i].found) \subseteq DbOut(mode))
         THEN [v |-> "plaintext-key-in-encrypted-database", at |-> i, exp |-> <<>>]
         ELSE DWalk(mode, steps, i + 1)

Walk(D, r) == CASE r.kind = "key" -> KWalk(D, NewKey(r.start), r.steps, 1)
                [] r.kind = "wallet" -> WWalk(D, FALSE, r.steps, 1)
                [] OTHER -> DWalk(r.mode, r.steps, 1)

Judge(r) ==
    LET w0 == Walk({}, r) IN
    IF w0.v = "ok" THEN [v |-> "ok", at |-> 0, exp |-> <<>>, dev |-> <<>>]
    ELSE LET C == {D \in SUBSET AllDeviations : Walk(D, r).v = "ok"} IN
         IF C = {} THEN [v |-> w0.v, at |-> w0.at, exp |-> w0.exp, dev |-> <<>>]
         ELSE LET D == CHOOSE D \in C : \A E \in C : Cardinality(D) <= Cardinality(E) IN
              [v |-> w0.v, at |-> w0.at, exp |-> w0.exp, dev |-> SetToSeq(D)]
Out == [k \in 1..Len(Recs) |-> Judge(Recs[k])]
ASSUME ndJsonSerialize(IOEnv.OUT_FILE, Out)
=============================================================================
