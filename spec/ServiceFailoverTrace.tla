------------------------ MODULE ServiceFailoverTrace ------------------------
(***************************************************************************)
(* Trace validation of the fail-over loop in the classic form: the         *)
(* actions of ServiceFailover (the PlusCal translation) are reused as they *)
(* are; a recorded execution of bitcoinlib's Service._provider_execute is  *)
(* accepted iff it is a behaviour of the specification.  The provider      *)
(* ORDER is not logged - with equal priorities the implementation breaks   *)
(* ties at random - so TLC has to find an order consistent with the        *)
(* priorities that explains the logged instantiations and calls.           *)
(*                                                                         *)
(* Traces (IOEnv.TRACE_FILE, ndjson), one per line:                        *)
(*   [resp, prio, mp, me, ev: Seq([k: "inst"|"call", p]),                  *)
(*    fin: [outcome, retval, results, errors, rc]]                         *)
(* A loop iteration logs "inst p" when the client of p is created and      *)
(* "call p" when its query method is invoked; providers without url log    *)
(* nothing (silent iterations).                                            *)
(***************************************************************************)
EXTENDS ServiceFailover, Json, IOUtils

Traces == ndJsonDeserialize(IOEnv.TRACE_FILE)
VARIABLES tid, l
tvars == <<vars, tid, l>>

T == Traces[tid]
PrioOK(o, prio) == \A i, j \in 1..Len(o) : i < j => prio[o[i]] >= prio[o[j]]

TraceInit == /\ tid \in 1..Len(Traces)
             /\ l = 1
             /\ order \in {o \in Perms(Providers) : PrioOK(o, Traces[tid].prio)}
             /\ resp = [p \in Providers |-> Traces[tid].resp[p]]
             /\ maxProviders = Traces[tid].mp /\ maxErrors = Traces[tid].me
             /\ idx = 1 /\ inst = <<>> /\ called = <<>> /\ results = <<>> /\ errors = {}
             /\ resultcount = 0 /\ outcome = "none" /\ retval = "none" /\ pc = "Iter"

\* events the current iteration must have logged, given the provider it handles
Logged(p) == IF resp[p] = "nourl" THEN <<>>
             ELSE IF resp[p] \in {"nomethod", "needskey"} THEN <<[k |-> "inst", p |-> p]>>
             ELSE <<[k |-> "inst", p |-> p], [k |-> "call", p |-> p]>>
TraceIter == /\ pc = "Iter"
             /\ Iter
             /\ IF idx <= Len(order) /\ outcome = "none" /\ resultcount < maxProviders
                THEN LET ev == Logged(order[idx]) IN
                     /\ l + Len(ev) - 1 <= Len(T.ev)
                     /\ \A i \in 1..Len(ev) : T.ev[l + i - 1].k = ev[i].k /\ T.ev[l + i - 1].p = ev[i].p
                     /\ l' = l + Len(ev)
                ELSE l' = l                     \* leaving the loop logs nothing
             /\ UNCHANGED tid
TraceExit == /\ pc = "Exit"
             /\ Exit
             /\ l = Len(T.ev) + 1               \* everything logged has been explained
             /\ outcome' = T.fin.outcome /\ retval' = T.fin.retval
             /\ results = T.fin.results /\ resultcount = T.fin.rc
             /\ errors = {T.fin.errors[i] : i \in 1..Len(T.fin.errors)}
             /\ UNCHANGED <<tid, l>>
TraceNext == TraceIter \/ TraceExit
TraceSpec == TraceInit /\ [][TraceNext]_tvars

\* a trace is accepted when some behaviour reaches Done; the harness collects the accepted ids
Accepted == (pc = "Done") => PrintT(<<"ACCEPT", ToJson([tid |-> tid])>>)
=============================================================================
