-------------------------- MODULE BlockReadersEval --------------------------
(* Replay binding: a record is a sequence of reader calls on a block of n transactions whose object reader consumed   *)
(* `start` transactions at parse time, with the indices each call reported.  TLC steps the specification along and    *)
(* names the first call whose report or success differs.                                                              *)
EXTENDS BlockReaders, Json, IOUtils, TLC
Recs == ndJsonDeserialize(IOEnv.IN_FILE)
RECURSIVE Walk(_, _, _, _)
Walk(n, parsed, calls, i) ==
    IF i > Len(calls) THEN [v |-> "ok", at |-> 0, exp |-> <<>>]
    ELSE LET r == Act(n, parsed, calls[i].a) IN
         IF r.ok # calls[i].ok THEN [v |-> "call-success-differs", at |-> i, exp |-> r.out]
         \* the dictionary reader is documented for unparsed blocks only: after a partial parse it may report either the
         \* remaining or all transactions (both are exact); what matters is that it leaves the object reader undisturbed
         ELSE IF r.ok /\ r.out # calls[i].out /\ ~(calls[i].a.op = "dict" /\ calls[i].out = Range(1, n))
              THEN [v |-> "reported-transactions-differ", at |-> i, exp |-> r.out]
         ELSE Walk(n, r.parsed, calls, i + 1)
Out == [k \in 1..Len(Recs) |-> Walk(Recs[k].n, Recs[k].start, Recs[k].calls, 1)]
ASSUME ndJsonSerialize(IOEnv.OUT_FILE, Out)
=============================================================================
