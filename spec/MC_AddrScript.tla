---------------------------- MODULE MC_AddrScript ----------------------------
(***************************************************************************)
(* Bounded model of C05.  A destination d of network x is encoded as an    *)
(* address (Encode), paid to by a transaction of network y (Pay: decode    *)
(* under y, refuse a foreign address, else build the locking script) and   *)
(* the script is reported back as an address of y (Report).  A second      *)
(* family of initial states carries damaged script templates.              *)
(* Invariants = the design-level statements of the property.               *)
(* The Base58Check checksum is an uninterpreted function here (ToyChk).    *)
(***************************************************************************)
EXTENDS AddrScript, TLC
CONSTANTS Vers, Lens, Pats

VARIABLES phase, x, y, d, addr, dec, paid, script, back
vars == <<phase, x, y, d, addr, dec, paid, script, back>>

ToyChk(pre) == <<Len(pre), pre[1], pre[Len(pre)], (pre[1] + 3 * pre[2]) % 256>>
ChkOf(nw, dd) == ToyChk(AddrPre(VerFor(nw, dd), dd.p))

P(n, pat) == [i \in 1..n |-> IF pat = 0 THEN (IF i <= 3 THEN 0 ELSE 255) ELSE (i * pat + n) % 256]
Dests == {PKH(P(20, pat)) : pat \in Pats} \cup {SH(P(20, pat)) : pat \in Pats}
         \cup {Wit(q[1], P(q[2], 7)) : q \in {r \in Vers \X Lens : ValidWit(r[1], P(r[2], 7))}}
         \cup {Wit(v, P(n, 0)) : v \in {0, 1}, n \in {20, 32}}

\* damaged templates: wrong payload length, non-minimal push, trailing opcode, wrong opcode, wrong version opcode
Damaged == UNION { { LockT(PKH(P(n, 7))), LockT(SH(P(n, 7))), LockT(Wit(0, P(n + n \div 32, 7))) } : n \in {19, 21, 31, 32, 33} }
           \cup { <<118, 169, 76, 20>> \o P(20, 7) \o <<136, 172>>, <<169, 76, 20>> \o P(20, 7) \o <<135>>,
                  <<0, 76, 20>> \o P(20, 7), <<81, 76, 32>> \o P(32, 7),
                  Lock(PKH(P(20, 7))) \o <<97>>, Lock(SH(P(20, 7))) \o <<97>>, Lock(Wit(0, P(20, 7))) \o <<97>>,
                  Lock(Wit(1, P(32, 7))) \o <<81>>,
                  <<118, 169>> \o Push(P(20, 7)) \o <<136, 173>>, <<169>> \o Push(P(20, 7)) \o <<136>>,
                  <<79>> \o Push(P(32, 7)), <<80>> \o Push(P(32, 7)), <<97>> \o Push(P(32, 7)),
                  <<81>> \o Push(P(1, 7)), <<81>> \o Push(P(41, 7)), <<>>, <<81>>, <<0, 0>>,
                  \* right total length, but a shorter push followed by an opcode
                  <<118, 169>> \o Push(P(19, 7)) \o <<97, 136, 172>>, <<169>> \o Push(P(19, 7)) \o <<97, 135>>,
                  <<0>> \o Push(P(19, 7)) \o <<97>>, <<81>> \o Push(P(31, 7)) \o <<97>> }

Init == /\ addr = <<>> /\ back = <<>> /\ paid = NoDest /\ dec = AddrErr /\ y = "-"
        /\ \/ phase = "dest" /\ x \in NetNames /\ d \in Dests /\ script = <<>>
           \/ phase = "damaged" /\ x = "bitcoin" /\ d = NoDest /\ script \in Damaged

Encode == /\ phase = "dest"
          /\ addr' = AddrOf(x, d, ChkOf(x, d))
          /\ phase' = "addr"
          /\ UNCHANGED <<x, y, d, dec, paid, script, back>>
Decode == /\ phase = "addr"
          /\ dec' = DecodeAddr(addr)
          /\ phase' = "decoded"
          /\ UNCHANGED <<x, y, d, addr, paid, script, back>>
Pay == /\ phase = "decoded"
       /\ \E ty \in NetNames :
            LET D == DestFor(dec, ty) IN
            /\ y' = ty
            /\ paid' = D
            /\ IF D = NoDest THEN phase' = "refused" /\ script' = script
               ELSE phase' = "script" /\ script' = Lock(D)
       /\ UNCHANGED <<x, d, addr, dec, back>>
Report == /\ phase = "script"
          /\ LET D == Classify(script) IN back' = (IF D = NoDest THEN <<>> ELSE AddrOf(y, D, ChkOf(y, D)))
          /\ phase' = "reported"
          /\ UNCHANGED <<x, y, d, addr, dec, paid, script>>
Next == Encode \/ Decode \/ Pay \/ Report
Spec == Init /\ [][Next]_vars

\* the version byte / hrp of d's address in x also denotes something in y
Shared(nx, ny, dd) == IF dd.k = "wit" THEN NetOf(nx).hrp = NetOf(ny).hrp
                      ELSE VerFor(nx, dd) \in {NetOf(ny).pkh, NetOf(ny).sh}

\* Decode(Addr(x, d)) = d, with x among the candidate networks, canonical string, checksum bytes in place
DecodeInverse == phase = "decoded" =>
    LET a == dec IN
    /\ a.ok /\ x \in NetworksOf(a) /\ DestFor(a, x) = d
    /\ (d.k # "wit" => a.enc = "base58" /\ a.chk = ToyChk(AddrPre(a.ver, a.p)) /\ B58Encode(B58Decode(addr).b) = addr)
    /\ (d.k = "wit" => a.enc = "bech32" /\ SegwitEncode(a.hrp, a.v, a.p) = addr)
\* an address is accepted by network y exactly if its prefix is shared by x and y; then it denotes the same destination
CrossNetwork == /\ phase \in {"script", "reported"} => Shared(x, y, d) /\ paid = d
                /\ phase = "refused" => ~Shared(x, y, d)
\* Classify is the inverse of Lock, and the script is the template as the wire parser sees it
ClassifyInverse == phase = "script" => /\ Classify(script) = d
                                        /\ ParseScript(script) = [ok |-> TRUE, items |-> LockItems(d)]
RoundTrip == phase = "reported" => back = addr
\* whatever is classified is exactly a template instance with a valid payload; the damaged templates are none
ClassifySound == LET D == Classify(script) IN D # NoDest => ValidDest(D) /\ Lock(D) = script
DamagedNonStandard == phase = "damaged" => Classify(script) = NoDest
\* table sanity: no version byte is P2PKH in one network and P2SH in another; hrps never collide with that
ASSUME TableUnambiguous == \A i, j \in 1..Len(NetTable) : NetTable[i].pkh # NetTable[j].sh

\* published vectors (BIP173 / BIP350 valid addresses, the genesis-block address) anchor the transcribed codecs
V1a == <<98, 99, 49, 113, 119, 53, 48, 56, 100, 54, 113, 101, 106, 120, 116, 100, 103, 52, 121, 53, 114, 51, 122, 97, 114, 118, 97, 114, 121, 48, 99, 53, 120, 119, 55, 107, 118, 56, 102, 51, 116, 52>>
V1p == <<117, 30, 118, 232, 25, 145, 150, 212, 84, 148, 28, 69, 209, 179, 163, 35, 241, 67, 59, 214>>
V2a == <<98, 99, 49, 112, 48, 120, 108, 120, 118, 108, 104, 101, 109, 106, 97, 54, 99, 52, 100, 113, 118, 50, 50, 117, 97, 112, 99, 116, 113, 117, 112, 102, 104, 108, 120, 109, 57, 104, 56, 122, 51, 107, 50, 101, 55, 50, 113, 52, 107, 57, 104, 99, 122, 55, 118, 113, 122, 107, 53, 106, 106, 48>>
V2p == <<121, 190, 102, 126, 249, 220, 187, 172, 85, 160, 98, 149, 206, 135, 11, 7, 2, 155, 252, 219, 45, 206, 40, 217, 89, 242, 129, 91, 22, 248, 23, 152>>
V3a == <<49, 65, 49, 122, 80, 49, 101, 80, 53, 81, 71, 101, 102, 105, 50, 68, 77, 80, 84, 102, 84, 76, 53, 83, 76, 109, 118, 55, 68, 105, 118, 102, 78, 97>>
V3p == <<98, 233, 7, 177, 92, 191, 39, 213, 66, 83, 153, 235, 246, 240, 251, 80, 235, 184, 143, 24>>
V4a == <<116, 98, 49, 113, 114, 112, 51, 51, 103, 48, 113, 53, 99, 53, 116, 120, 115, 112, 57, 97, 114, 121, 115, 114, 120, 52, 107, 54, 122, 100, 107, 102, 115, 52, 110, 99, 101, 52, 120, 106, 48, 103, 100, 99, 99, 99, 101, 102, 118, 112, 121, 115, 120, 102, 51, 113, 48, 115, 108, 53, 107, 55>>
V4p == <<24, 99, 20, 60, 20, 197, 22, 104, 4, 189, 25, 32, 51, 86, 218, 19, 108, 152, 86, 120, 205, 77, 39, 161, 184, 198, 50, 150, 4, 144, 50, 98>>
V5a == <<66, 67, 49, 83, 87, 53, 48, 81, 71, 68, 90, 50, 53, 74>>
ASSUME PublishedVectors ==
    /\ SegwitEncode(<<98, 99>>, 0, V1p) = V1a /\ DestFor(DecodeAddr(V1a), "bitcoin") = Wit(0, V1p)
    /\ SegwitEncode(<<98, 99>>, 1, V2p) = V2a /\ DestFor(DecodeAddr(V2a), "bitcoin") = Wit(1, V2p)
    /\ SegwitEncode(<<116, 98>>, 0, V4p) = V4a /\ DestFor(DecodeAddr(V4a), "signet") = Wit(0, V4p)
    /\ DestFor(DecodeAddr(V5a), "bitcoin") = Wit(16, <<117, 30>>)                  \* upper case is accepted
    /\ DecodeAddr(SubSeq(V2a, 1, 61) \o <<113>>).ok = FALSE                                 \* damaged checksum
    /\ LET a == DecodeAddr(V3a) IN a.ok /\ a.ver = 0 /\ a.p = V3p /\ Addr58(0, V3p, a.chk) = V3a
    /\ DestFor(DecodeAddr(V3a), "regtest") = PKH(V3p) /\ DestFor(DecodeAddr(V3a), "testnet") = NoDest
=============================================================================
