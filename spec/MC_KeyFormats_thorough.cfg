SPECIFICATION Spec
CONSTANTS
  MCNets = {"bitcoin", "regtest", "testnet", "testnet4", "signet", "litecoin", "litecoin_legacy", "litecoin_testnet", "dogecoin", "dogecoin_testnet", "bitcoinlib_test"}
  MCHints <- HintSets
  MCPlain = {"bitcoin", "regtest", "testnet", "testnet4", "signet", "litecoin", "litecoin_legacy", "litecoin_testnet", "dogecoin", "dogecoin_testnet", "bitcoinlib_test"}
  MCTargets = {"bitcoin", "litecoin", "dogecoin", "testnet"}
  MCMaxOps = 3
INVARIANT RoundTrip
INVARIANT ExportIsCurrent
INVARIANT BinaryFieldsOpaque
INVARIANT ConversionIdentity
INVARIANT RoutesKeepPoint
INVARIANT OpsEffect
INVARIANT AmbiguityRule
INVARIANT DetectExact
INVARIANT TruthAllowed
INVARIANT HintsDecide
INVARIANT NoRefusalWhenTold
INVARIANT SlipDecides
INVARIANT Lengths
CHECK_DEADLOCK FALSE
