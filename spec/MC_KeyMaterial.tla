--------------------------- MODULE MC_KeyMaterial ---------------------------
(***************************************************************************)
(* Bounded model of C04.  The oracle of KeyMaterial is instantiated with a *)
(* curve small enough for TLC: y^2 = x^3 + 7 over GF(67) - the equation of *)
(* secp256k1 over a small field; its group has prime order 79 - and with   *)
(* toy hash functions.  Numbers are one byte wide, so every scalar 0..255  *)
(* and every encoding (prefix, x, y) is enumerated.                        *)
(*                                                                         *)
(* A case is imported (ImportPriv / ImportPub: accepted as a key or        *)
(* refused), an accepted key is serialized in both forms (Serialize) and   *)
(* an address is derived for every network x script type x encoding        *)
(* (Derive).  Invariants = the design-level statements of the property:    *)
(* the accept/refuse rule (against a brute-force statement on integers),   *)
(* both serializations describe the same point, and the address decodes    *)
(* (AddrScript) to the destination whose locking script is the standard    *)
(* script of the type asked for, in the network asked for.                 *)
(***************************************************************************)
EXTENDS KeyMaterial, TLC
CONSTANTS DeriveScalars,      \* scalars whose keys are taken through Derive
          YSamples            \* y values tried in uncompressed encodings besides the two roots

TP == 67
TN == 79
TG == <<2, 22>>

\* ---- toy curve arithmetic on integers (affine; <<>> is the point at infinity)
TInv(a) == CHOOSE b \in 1..(TP - 1) : (a * b) % TP = 1
TOn(x, y) == x \in 0..(TP - 1) /\ y \in 0..(TP - 1) /\ (y * y) % TP = (x * x * x + 7) % TP
TAdd(A, B) ==
    IF A = <<>> THEN B ELSE IF B = <<>> THEN A
    ELSE IF A[1] = B[1] /\ (A[2] + B[2]) % TP = 0 THEN <<>>
    ELSE LET lam == IF A = B THEN (3 * A[1] * A[1] * TInv((2 * A[2]) % TP)) % TP
                    ELSE (((B[2] - A[2]) % TP) * TInv((B[1] - A[1]) % TP)) % TP
             x3 == (lam * lam - A[1] - B[1]) % TP
         IN <<x3, (lam * (A[1] - x3) - A[2]) % TP>>
RECURSIVE TMultiples(_, _)
TMultiples(acc, i) == IF i = TN THEN acc ELSE TMultiples(Append(acc, TAdd(acc[Len(acc)], TG)), i + 1)
TTable == TMultiples(<<TG>>, 1)                    \* TTable[j] = j*G for j in 1..78, TTable[79] = infinity
TMul(k) == IF k % TN = 0 THEN <<>> ELSE TTable[k % TN]

RECURSIVE Sum(_)
Sum(s) == IF s = <<>> THEN 0 ELSE s[1] + Sum(Tail(s))
ToyHash(m, w, salt) == [i \in 1..w |-> (Sum(m) * 3 + 31 * i + 7 * m[((i - 1) % Len(m)) + 1] + Len(m) + salt) % 256]

ToyO(f, m) ==
    CASE f = "ec_mul_G" -> LET A == TMul(BEVal(m)) IN IF A = <<>> THEN <<0>> ELSE A
      [] f = "lift_x"   -> LET x == m[1] IN
                           IF \E y \in 0..(TP - 1) : TOn(x, y) /\ y % 2 = 0
                           THEN <<CHOOSE y \in 0..(TP - 1) : TOn(x, y) /\ y % 2 = 0>> ELSE <<0>>
      [] f = "hash160"  -> ToyHash(m, 20, 1)
      [] f = "sha256"   -> ToyHash(m, 32, 2)
      [] f = "sha256d"  -> ToyHash(m, 32, 3)
      [] f = "xonly_tweak_add" -> ToyHash(m, 32, 4)

P1 == <<TP>>
N1 == <<TN>>

VARIABLES phase, c, key, sers, ad
vars == <<phase, c, key, sers, ad>>

PrivCases == {[kind |-> "priv", k |-> <<k>>] : k \in 0..255}
PubCases == {[kind |-> "pub", e |-> [pre |-> pre, x |-> <<x>>, y |-> <<>>]] : pre \in {2, 3}, x \in 0..255}
            \cup UNION {{[kind |-> "pub", e |-> [pre |-> 4, x |-> <<x>>, y |-> <<y>>]] :
                              y \in YSamples \cup {yy \in 0..(TP - 1) : TOn(x, yy)}} : x \in 0..80}
            \cup {[kind |-> "pub", e |-> [pre |-> pre, x |-> <<2>>, y |-> <<22>>]] : pre \in {0, 1, 5, 6, 7}}
NoAd == [net |-> "-", t |-> "-", e |-> "-", dest |-> NoDest, str |-> <<>>]

Init == /\ phase = "case" /\ c \in PrivCases \cup PubCases
        /\ key = NoKey /\ sers = <<>> /\ ad = NoAd

ImportPriv == /\ phase = "case" /\ c.kind = "priv"
              /\ key' = PubOfScalar(ToyO, c.k, N1).v
              /\ phase' = "key"
              /\ UNCHANGED <<c, sers, ad>>
ImportPub == /\ phase = "case" /\ c.kind = "pub"
             /\ key' = DecodePub(ToyO, c.e, P1).v
             /\ phase' = "key"
             /\ UNCHANGED <<c, sers, ad>>
Serialize == /\ phase = "key" /\ key.ok
             /\ sers' = <<SerC(key), SerU(key)>>
             /\ phase' = "ser"
             /\ UNCHANGED <<c, key, ad>>
Derive == /\ phase = "ser" /\ c.kind = "priv" /\ c.k[1] \in DeriveScalars
          /\ \E net \in NetNames, t \in AddrTypes, e \in Encodings, comp \in BOOLEAN :
               LET data == IF t \in KeyTypes THEN sers[IF comp THEN 1 ELSE 2] ELSE <<33>> \o sers[1] \o <<172>>
                   dest == DestOf(ToyO, t, "data", Ret(data))
               IN /\ (comp \/ t \in {"p2pkh"})
                  /\ ad' = [net |-> net, t |-> t, e |-> e, dest |-> dest.v,
                            str |-> IF Compatible(t, e) THEN AddrStr(ToyO, net, dest).v ELSE <<>>]
          /\ phase' = "addr"
          /\ UNCHANGED <<c, key, sers>>
Next == ImportPriv \/ ImportPub \/ Serialize \/ Derive
Spec == Init /\ [][Next]_vars

\* ------------------------------------------------------------------ invariants
\* the oracle never leaves a request open in the model
Total == phase = "key" => (IF c.kind = "priv" THEN PubOfScalar(ToyO, c.k, N1).q ELSE DecodePub(ToyO, c.e, P1).q) = {}

\* scalars: accepted iff 1 <= k <= n-1 (stated on integers), and the key is the point k*G of the curve
ScalarRule == (phase = "key" /\ c.kind = "priv") =>
                 LET k == c.k[1] IN
                 /\ key.ok <=> (1 <= k /\ k <= TN - 1)
                 /\ key.ok => /\ TOn(key.x[1], key.y[1])
                              /\ <<key.x[1], key.y[1]>> = TMul(k)
                              \* k and n-k are the two keys over the same x
                              /\ LET o == PubOfScalar(ToyO, <<TN - k>>, N1).v IN
                                 o.ok /\ o.x = key.x /\ o.y # key.y /\ (o.y[1] + key.y[1]) % TP = 0

\* encodings: accepted iff prefix known, x < p and the curve equation holds (brute force on integers)
PubRule == (phase = "key" /\ c.kind = "pub") =>
              LET x == c.e.x[1] IN
              /\ key.ok <=> \/ (c.e.pre \in {2, 3} /\ \E y \in 0..(TP - 1) : TOn(x, y))
                            \/ (c.e.pre = 4 /\ TOn(x, c.e.y[1]))
              /\ key.ok => /\ TOn(key.x[1], key.y[1]) /\ key.x = c.e.x
                           /\ (c.e.pre \in {2, 3} => key.y[1] % 2 = c.e.pre - 2)
                           /\ (c.e.pre = 4 => key.y = c.e.y)

\* compressed and uncompressed forms describe the same point
SamePoint == phase = "ser" =>
                /\ Len(sers[1]) = 2 /\ Len(sers[2]) = 3
                /\ DecodePub(ToyO, [pre |-> sers[1][1], x |-> <<sers[1][2]>>, y |-> <<>>], P1).v = key
                /\ DecodePub(ToyO, [pre |-> sers[2][1], x |-> <<sers[2][2]>>, y |-> <<sers[2][3]>>], P1).v = key
                \* the other parity prefix names the other point over the same x
                /\ LET o == DecodePub(ToyO, [pre |-> 5 - sers[1][1], x |-> key.x, y |-> <<>>], P1).v IN
                   o.ok /\ o.x = key.x /\ o.y # key.y

\* the boundary statements on the real parameters (checked once, as an assumption of the model)
RealParameters ==
    /\ Len(FieldP) = 32 /\ Len(OrderN) = 32 /\ BELess(OrderN, FieldP)
    /\ ~ValidScalar(Zeros(32)) /\ ValidScalar(BE(1, 32)) /\ ValidScalar(BESub(OrderN, BE(1, 32), 32))
    /\ ValidScalar(BESub(OrderN, BE(2, 32), 32))
    /\ ~ValidScalar(OrderN) /\ ~ValidScalar(Rev(PadLE(AddLE(Rev(OrderN), <<1>>, 256), 32))) /\ ~ValidScalar(Rep(255, 32))
    /\ ~ValidScalar(<<1>> \o Zeros(32)) /\ ValidScalar(<<0>> \o BE(5, 32)) /\ ~ValidScalar(<<>>)
    /\ BESub(FieldP, BE(1, 32), 32)[32] = 46 /\ BESub(BE(256, 32), BE(1, 32), 32) = BE(255, 32)

ASSUME RealParameters

\* call histories: what the answer to the last call may depend on (checked once)
HCall(op, t, e, cc, pfx, net) == [op |-> op, t |-> t, e |-> e, c |-> cc, pfx |-> pfx, net |-> net]
HA(t, e, cc) == HCall("address", t, e, cc, <<>>, "")
HistoryRules ==
    /\ HistNet("bitcoin", <<HA("", "", "")>>) = "bitcoin"
    /\ HistNet("bitcoin", <<HA("", "", ""), HCall("network_change", "", "", "", <<>>, "litecoin"), HA("", "", "")>>) = "litecoin"
    /\ HistNet("bitcoin", <<HCall("network_change", "", "", "", <<>>, "litecoin"),
                            HCall("network_change", "", "", "", <<>>, "dogecoin"), HA("", "", "")>>) = "dogecoin"
    \* both given: exactly that; an HD key without arguments: its witness type; otherwise a standard key address
    /\ HistCandidates("key", "", TRUE, <<HA("p2pkh", "base58", ""), HA("p2wpkh", "bech32", "")>>) = {<<"p2wpkh", TRUE>>}
    /\ HistCandidates("hdkey", "p2sh-segwit", TRUE, <<HA("p2pkh", "base58", "F"), HA("", "", "T")>>) = {<<"p2sh_p2wpkh", TRUE>>}
    /\ HistCandidates("key", "", TRUE, <<HA("p2sh_p2wpkh", "base58", ""), HA("", "", "")>>)
          = {<<"p2pkh", TRUE>>, <<"p2wpkh", TRUE>>, <<"p2sh_p2wpkh", TRUE>>}
    /\ HistCandidates("key", "", TRUE, <<HCall("address_uncompressed", "", "", "", <<>>, ""), HA("", "bech32", "")>>)
          = {<<"p2wpkh", TRUE>>, <<"p2wpkh", FALSE>>}
    /\ HistComp(TRUE, <<HA("", "", "F"), HCall("address_uncompressed", "", "", "", <<>>, "")>>) = {FALSE}
    \* a prefix given earlier plays no role; one given now replaces the network's
    /\ AddrStrP(ToyO, "bitcoin", Ret(PKH(Rep(7, 20))), <<>>) = AddrStr(ToyO, "bitcoin", Ret(PKH(Rep(7, 20))))
    /\ AddrStrP(ToyO, "bitcoin", Ret(PKH(Rep(7, 20))), <<48>>).v
          = B58Encode(<<48>> \o Rep(7, 20) \o Take(ToyO("sha256d", <<48>> \o Rep(7, 20)), 4))
    /\ AddrStrP(ToyO, "bitcoin", Ret(Wit(0, Rep(7, 20))), <<108, 116, 99>>) = AddrStr(ToyO, "litecoin", Ret(Wit(0, Rep(7, 20))))
    /\ AddrStrP(ToyO, "bitcoin", Ret(PKH(Rep(7, 20))), <<48>>) = AddrStr(ToyO, "litecoin", Ret(PKH(Rep(7, 20))))
ASSUME HistoryRules

\* addresses: the string decodes to the destination, in the network asked for, and the destination's locking script
\* is the standard script of the type asked for; nested types wrap the version-0 witness script; the checksum
\* constant follows the witness version (AddrScript!SegwitDecode refuses the wrong one)
AddrRule == (phase = "addr" /\ Compatible(ad.t, ad.e)) =>
               LET a == DecodeAddr(ad.str) IN
               /\ a.ok /\ ad.net \in NetworksOf(a) /\ DestFor(a, ad.net) = ad.dest
               /\ a.enc = ad.e
               /\ ValidDest(ad.dest) /\ TypeName(ad.dest) = LockName(ad.t)
               /\ Classify(Lock(ad.dest)) = ad.dest
               /\ (a.enc = "base58" => a.chk = Take(ToyO("sha256d", AddrPre(VerFor(ad.net, ad.dest), ad.dest.p)), 4))
               /\ (ad.t = "p2tr" <=> (ad.dest.k = "wit" /\ ad.dest.v = 1))
NestedRule == (phase = "addr" /\ ad.t = "p2sh_p2wpkh") =>
               LET inner == Wit(0, ToyO("hash160", sers[1])) IN
               /\ TypeName(inner) = "p2wpkh"
               /\ ad.dest = SH(ToyO("hash160", Lock(inner)))
NoStandardForm == (phase = "addr" /\ ~Compatible(ad.t, ad.e)) =>
               /\ ad.str = <<>>
               /\ \A u \in AltTypes(ad.t, ad.e, "data") : Compatible(u, ad.e) /\ ((u \in KeyTypes) <=> (ad.t \in KeyTypes))
\* different keys, different hashes in, different addresses out (the toy hashes are injective on the model's keys)
CompressionMatters == phase = "ser" => sers[1] # sers[2]
=============================================================================
