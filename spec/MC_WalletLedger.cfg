SPECIFICATION Spec
CONSTANTS
  MaxSteps = 5
INVARIANT BalanceIsSumOfKeys
INVARIANT NoSpentListed
INVARIANT OneCoinPerOutpoint
INVARIANT NoDoubleSpend
CHECK_DEADLOCK FALSE
