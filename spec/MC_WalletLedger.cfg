SPECIFICATION Spec
CONSTANTS
  MaxSteps = 5
INVARIANT BalanceIsSumOfKeys
INVARIANT BalanceIsSumOfAccounts
INVARIANT NoSpentListed
INVARIANT OneCoinPerOutpoint
INVARIANT NoDoubleSpend
CHECK_DEADLOCK FALSE
