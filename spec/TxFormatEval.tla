---------------------------- MODULE TxFormatEval ----------------------------
(* Conformance binding for TxFormat.                                                                                  *)
(*   k = "ser"    (G) expected serializations of a transaction given by its fields (extended and witness-stripped      *)
(*                form), also under the named deviation;                                                               *)
(*   k = "judge"  (V) a transaction built through the API: fields as the implementation reports them + its raw();     *)
(*                TLC is the independent parser: ParseTx(raw) must give those fields and SerTx(fields) = raw;          *)
(*   k = "block"  (G) serialization of a block (header + transactions) and the target of its bits field.              *)
EXTENDS TxFormat, Json, IOUtils, TLC
Recs == ndJsonDeserialize(IOEnv.IN_FILE)

FixIn(i) == [txid |-> i.txid, vout |-> i.vout, script |-> i.script, seq |-> i.seq, wit |-> i.wit]
FixOut(o) == [value |-> o.value, script |-> o.script]
Tx(j) == [version |-> j.version, segwit |-> j.segwit, locktime |-> j.locktime,
          ins |-> [i \in 1..Len(j.ins) |-> FixIn(j.ins[i])], outs |-> [i \in 1..Len(j.outs) |-> FixOut(j.outs[i])]]
Hdr(h) == [version |-> h.version, prev |-> h.prev, merkle |-> h.merkle, time |-> h.time, bits |-> h.bits, nonce |-> h.nonce]

Judge(r) ==
  CASE r.k = "ser" ->
         LET t == Tx(r.tx) IN
         [v |-> IF WellFormedTx(t) /\ Canonical144(t) THEN "ok" ELSE "not-well-formed", dev |-> "",
          full |-> SerTx(t, TRUE), stripped |-> SerTx(t, FALSE), devfull |-> SerTxDev(t, TRUE), devstripped |-> SerTxDev(t, FALSE)]
    [] r.k = "sizes" ->       \* r.raw: serialized transaction; sizes as BIP141 defines them, from the spec's own parse
         LET p == ParseTx(r.raw) IN
         IF ~p.ok THEN [v |-> "raw-not-parsable", dev |-> "", full |-> <<>>, stripped |-> <<>>, devfull |-> <<>>, devstripped |-> <<>>]
         ELSE [v |-> "ok", dev |-> "", full |-> <<Size(p.tx), StrippedSize(p.tx), Weight(p.tx), VSize(p.tx)>>, stripped |-> <<>>,
               devfull |-> <<>>, devstripped |-> <<>>]
    [] r.k = "judge" ->
         LET t == Tx(r.tx)
             p == ParseTx(r.raw)
             clause == IF ~WellFormedTx(t) THEN "fields-not-well-formed"
                       ELSE IF r.signed /\ ~Canonical144(t) THEN "superfluous-or-missing-witness-flag"
                       ELSE IF SerTx(t, TRUE) # r.raw THEN "raw-is-not-the-serialization-of-the-fields"
                       ELSE IF ~p.ok THEN "raw-not-parsable"
                       ELSE IF p.tx # t THEN "independent-parse-gives-other-fields"
                       ELSE "ok" IN
         [v |-> clause, dev |-> IF clause # "ok" /\ WellFormedTx(t) /\ SerTxDev(t, TRUE) = r.raw THEN "single-zero-byte-item" ELSE "",
          full |-> IF clause = "ok" THEN <<>> ELSE SerTx(t, TRUE), stripped |-> SerTx(t, FALSE), devfull |-> <<>>, devstripped |-> <<>>]
    [] r.k = "block" ->
         LET txs == [i \in 1..Len(r.txs) |-> Tx(r.txs[i])] IN
         [v |-> "ok", dev |-> "", full |-> SerBlock(Hdr(r.h), txs), stripped |-> Target(r.h.bits), devfull |-> <<>>, devstripped |-> <<>>]
    [] OTHER -> [v |-> "unknown-record-kind", dev |-> "", full |-> <<>>, stripped |-> <<>>, devfull |-> <<>>, devstripped |-> <<>>]

Out == [i \in 1..Len(Recs) |-> Judge(Recs[i])]
ASSUME ndJsonSerialize(IOEnv.OUT_FILE, Out)
=============================================================================
