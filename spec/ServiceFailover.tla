-------------------------- MODULE ServiceFailover --------------------------
(***************************************************************************)
(* The provider fail-over loop of the service layer                        *)
(* (bitcoinlib/services/services.py: Service._provider_execute), written   *)
(* in PlusCal with one label per loop iteration and per exit so that the   *)
(* implementation can be stepped along it.                                 *)
(*                                                                         *)
(* A query is answered by trying the configured providers in priority      *)
(* order.  Each provider has one of seven behaviours (CONSTANT set Resp):  *)
(*   "ok"        answers with its own value (the value is identified with  *)
(*               the provider: Return(p) means "what p answered")          *)
(*   "raise"     raises a client error / times out                         *)
(*   "raiseattr" raises AttributeError (swallowed, not recorded)           *)
(*   "false"     answers empty (the literal False)                         *)
(*   "nomethod"  its client class lacks the query method                   *)
(*   "needskey"  is configured with api_key = 'api-key-needed'             *)
(*   "nourl"     has no url configured (never instantiated)                *)
(*                                                                         *)
(* The properties of C20 are stated as invariants / action properties      *)
(* below and checked by TLC for every response assignment, every order,    *)
(* every MaxProviders and MaxErrors in the configured ranges.              *)
(***************************************************************************)
EXTENDS Naturals, Sequences, FiniteSets, TLC

CONSTANTS Providers,        \* set of provider names
          MaxProvidersRange, \* set of values for max_providers
          MaxErrorsRange     \* set of values for max_errors

Resp == {"ok", "raise", "raiseattr", "false", "nomethod", "needskey", "nourl"}
Perms(S) == {f \in [1..Cardinality(S) -> S] : \A i, j \in 1..Cardinality(S) : i # j => f[i] # f[j]}
Range(s) == {s[i] : i \in 1..Len(s)}

(* --fair algorithm ServiceFailover {
  variables
    order \in Perms(Providers),                 \* providers sorted by priority (ties broken arbitrarily)
    resp \in [Providers -> Resp],               \* how each provider behaves for this query
    maxProviders \in MaxProvidersRange,
    maxErrors \in MaxErrorsRange,
    idx = 1,                                    \* position in order
    inst = <<>>,                                \* providers whose client was instantiated, in order
    called = <<>>,                              \* providers whose query method was invoked, in order
    results = <<>>,                             \* providers that answered, in order (Service.results)
    errors = {},                                \* providers recorded in Service.errors
    resultcount = 0,
    outcome = "none",                           \* "return" | "false" | "raise"
    retval = "none";                            \* provider whose answer is returned
  {
  Iter:
    while (idx <= Len(order) /\ outcome = "none" /\ resultcount < maxProviders) {
      with (p = order[idx]) {
        if (resp[p] = "nourl") {
          skip;                                 \* `continue` before the client is created
        } else if (resp[p] \in {"nomethod", "needskey"}) {
          inst := Append(inst, p);              \* client created, query not sent
        } else {
          inst := Append(inst, p);
          called := Append(called, p);
          if (resp[p] = "ok") {
            results := Append(results, p);
            resultcount := resultcount + 1;
          } else if (resp[p] = "false") {
            errors := errors \cup {p};          \* "Received empty response"; no error-limit test
          } else {
            \* exception: recorded unless AttributeError, then the error limit is tested
            with (errs = IF resp[p] = "raise" THEN errors \cup {p} ELSE errors) {
              errors := errs;
              if (Cardinality(errs) >= maxErrors) {
                if (results # <<>>) { outcome := "return"; retval := results[1]; }
                else { outcome := "false"; }
              }
            }
          }
        };
        idx := idx + 1;
      }
    };
  Exit:
    if (outcome = "none") {
      if (resultcount = 0) { outcome := "raise"; }
      else { outcome := "return"; retval := results[1]; }
    }
  }
} *)
\* BEGIN TRANSLATION
VARIABLES pc, order, resp, maxProviders, maxErrors, idx, inst, called, 
          results, errors, resultcount, outcome, retval

vars == << pc, order, resp, maxProviders, maxErrors, idx, inst, called, 
           results, errors, resultcount, outcome, retval >>

Init == (* Global variables *)
        /\ order \in Perms(Providers)
        /\ resp \in [Providers -> Resp]
        /\ maxProviders \in MaxProvidersRange
        /\ maxErrors \in MaxErrorsRange
        /\ idx = 1
        /\ inst = <<>>
        /\ called = <<>>
        /\ results = <<>>
        /\ errors = {}
        /\ resultcount = 0
        /\ outcome = "none"
        /\ retval = "none"
        /\ pc = "Iter"

Iter == /\ pc = "Iter"
        /\ IF idx <= Len(order) /\ outcome = "none" /\ resultcount < maxProviders
              THEN /\ LET p == order[idx] IN
                        /\ IF resp[p] = "nourl"
                              THEN /\ TRUE
                                   /\ UNCHANGED << inst, called, results, 
                                                   errors, resultcount, 
                                                   outcome, retval >>
                              ELSE /\ IF resp[p] \in {"nomethod", "needskey"}
                                         THEN /\ inst' = Append(inst, p)
                                              /\ UNCHANGED << called, results, 
                                                              errors, 
                                                              resultcount, 
                                                              outcome, retval >>
                                         ELSE /\ inst' = Append(inst, p)
                                              /\ called' = Append(called, p)
                                              /\ IF resp[p] = "ok"
                                                    THEN /\ results' = Append(results, p)
                                                         /\ resultcount' = resultcount + 1
                                                         /\ UNCHANGED << errors, 
                                                                         outcome, 
                                                                         retval >>
                                                    ELSE /\ IF resp[p] = "false"
                                                               THEN /\ errors' = (errors \cup {p})
                                                                    /\ UNCHANGED << outcome, 
                                                                                    retval >>
                                                               ELSE /\ LET errs == IF resp[p] = "raise" THEN errors \cup {p} ELSE errors IN
                                                                         /\ errors' = errs
                                                                         /\ IF Cardinality(errs) >= maxErrors
                                                                               THEN /\ IF results # <<>>
                                                                                          THEN /\ outcome' = "return"
                                                                                               /\ retval' = results[1]
                                                                                          ELSE /\ outcome' = "false"
                                                                                               /\ UNCHANGED retval
                                                                               ELSE /\ TRUE
                                                                                    /\ UNCHANGED << outcome, 
                                                                                                    retval >>
                                                         /\ UNCHANGED << results, 
                                                                         resultcount >>
                        /\ idx' = idx + 1
                   /\ pc' = "Iter"
              ELSE /\ pc' = "Exit"
                   /\ UNCHANGED << idx, inst, called, results, errors, 
                                   resultcount, outcome, retval >>
        /\ UNCHANGED << order, resp, maxProviders, maxErrors >>

Exit == /\ pc = "Exit"
        /\ IF outcome = "none"
              THEN /\ IF resultcount = 0
                         THEN /\ outcome' = "raise"
                              /\ UNCHANGED retval
                         ELSE /\ outcome' = "return"
                              /\ retval' = results[1]
              ELSE /\ TRUE
                   /\ UNCHANGED << outcome, retval >>
        /\ pc' = "Done"
        /\ UNCHANGED << order, resp, maxProviders, maxErrors, idx, inst, 
                        called, results, errors, resultcount >>

(* Allow infinite stuttering to prevent deadlock on termination. *)
Terminating == pc = "Done" /\ UNCHANGED vars

Next == Iter \/ Exit
           \/ Terminating

Spec == /\ Init /\ [][Next]_vars
        /\ WF_vars(Next)

Termination == <>(pc = "Done")

\* END TRANSLATION

\* ------------------------------------------------------------- properties
Answering == {p \in Providers : resp[p] = "ok"}
Silent    == {p \in Providers : resp[p] \in {"nomethod", "needskey", "nourl"}}
Pos(p) == CHOOSE i \in 1..Len(order) : order[i] = p
Finished == pc = "Done"

TypeOK == /\ idx \in 1..(Len(order) + 1) /\ resultcount = Len(results)
          /\ Range(called) \subseteq Range(inst) /\ Range(results) \subseteq Range(called)

\* what is returned is the answer of a provider that was asked and answered
Authentic == (Finished /\ outcome = "return") => (retval \in Range(called) /\ resp[retval] = "ok")
\* ... namely the first answering provider in priority order
FirstResponder == (Finished /\ outcome = "return") =>
                     \A q \in Answering : Pos(retval) <= Pos(q)
\* raising / empty / unavailable providers contribute nothing to the results
Skips == Range(results) \subseteq Answering /\ errors \cap Answering = {} /\ errors \cap Silent = {}
\* the query fails only if nobody has answered when the loop ends or when the error limit is reached
FailOnlyIfNone == (Finished /\ outcome \in {"false", "raise"}) =>
                     /\ results = <<>>
                     /\ (outcome = "raise" => \A p \in Providers : resp[p] # "ok")
                     /\ (outcome = "false" => Cardinality(errors) >= maxErrors)
\* at most maxProviders answers are collected; nobody is asked after that or after the error limit hit
Bounded == Len(results) <= maxProviders
ErrorLimit == Cardinality({p \in Range(called) : resp[p] = "raise"}) <= maxErrors
NoCallAfterEnd == [][pc = "Done" => UNCHANGED <<called, inst, results, errors>>]_vars
\* every provider ahead of the returned one was tried (or is silent)
NobodyOvertaken == (Finished /\ outcome = "return") =>
                      \A q \in Providers : Pos(q) < Pos(retval) => (q \in Range(called) \/ q \in Silent)

\* ------------------------------------------------- the public query methods
(* What a public Service method makes of the loop's outcome.  The property: the answer of the returning provider     *)
(* ("value"), or a failure - a ServiceError, or the sentinel False for methods whose answers cannot be False          *)
(* ("fail").  blockcount may also serve the last count it obtained earlier (a cached copy of a provider's answer).    *)
Methods == {"getbalance", "getutxos", "gettransaction", "gettransactions", "getrawtransaction", "sendrawtransaction",
            "estimatefee", "blockcount", "getblock", "getrawblock", "mempool", "isspent", "getinfo"}
FalseIsData(m) == m = "isspent"
View(m, oc) == IF oc = "return" THEN "value"
               ELSE IF oc = "raise" THEN "error"
               ELSE IF m = "blockcount" THEN "cached-or-fail"
               ELSE IF FalseIsData(m) THEN "error" ELSE "fail"
(* Named deviations of the implementation when the error limit ends the loop without an answer (outcome "false"):     *)
(* an invented answer is returned instead of a failure.  Listed in known_findings.json under these keys.              *)
DevOnFalse(m) == CASE m = "estimatefee" -> "estimatefee-default-on-failure"      \* network.fee_default returned and cached
                   [] m = "getbalance"  -> "getbalance-zero-on-failure"          \* the failed batch is skipped: 0
                   [] m = "isspent"     -> "isspent-unspent-on-failure"          \* bool(False): "unspent"
                   [] OTHER -> ""
MethodViews(oc) == [m \in Methods |-> [view |-> View(m, oc), dev |-> IF oc = "false" THEN DevOnFalse(m) ELSE ""]]
=============================================================================
