----------------------------- MODULE TimedCache -----------------------------
(***************************************************************************)
(* The two answers the service layer keeps for a limited TIME: the block   *)
(* count ("store network blockcount in cache for 60 seconds") and the fee  *)
(* estimates ("stored in cache in three groups: low, medium and high       *)
(* fees", for 600 seconds).  ServiceCache.tla treats the world as static;  *)
(* here the world moves - blocks are found, fee estimates change - and a   *)
(* clock runs.  Specification growth beyond the listed properties (DESIGN  *)
(* 0.5): C20 says what may be answered while providers fail, not for how   *)
(* long an answer stays good.                                              *)
(*                                                                         *)
(* State: the clock and every provider answer seen so far with the time it *)
(* was given.  An event is one query: what was asked (x), the seconds that *)
(* passed since the previous event (dt), whether a provider was asked and  *)
(* what it answers now (asked, prov, pval), and what came back (ok, ret).  *)
(* Successor-set style as in ServiceCache: the empty set = not allowed.    *)
(*                                                                         *)
(* The rule: an answer is either what a provider answers NOW, or what a    *)
(* provider answered to THE SAME QUESTION less than Ttl(x) seconds ago.    *)
(***************************************************************************)
EXTENDS Naturals, FiniteSets, Sequences

CONSTANTS TtlCount, TtlFee     \* 60 and 600 in the library's documentation; small numbers in the bounded model

Questions == {"blockcount", "fee_high", "fee_medium", "fee_low"}
Ttl(x) == IF x = "blockcount" THEN TtlCount ELSE TtlFee
\* the three groups of fee questions as documented (Cache.estimatefee)
FeeGroup(blocks) == IF blocks <= 1 THEN "fee_high" ELSE IF blocks <= 5 THEN "fee_medium" ELSE "fee_low"
\* a question asked by priority name is the question of the group of that name ('medium' is the default of 5 blocks)
PriorityGroup(p) == CASE p = "high" -> "fee_high" [] p = "low" -> "fee_low" [] OTHER -> "fee_medium"

InitState == [now |-> 0, seen |-> {}]     \* seen: set of [x, t, v]

Fresh(s, x, now) == {r \in s.seen : r.x = x /\ now - r.t < Ttl(x)}
Expired(s, x, now) == {r \in s.seen : r.x = x /\ now - r.t >= Ttl(x)}

Succ(s, e) ==
    LET now == s.now + e.dt
        t == [s EXCEPT !.now = now]
    IN IF ~e.ok THEN (IF e.prov = "fail" THEN {t} ELSE {})
       ELSE IF e.asked /\ e.prov = "ok" /\ e.ret = e.pval
            THEN {[t EXCEPT !.seen = @ \cup {[x |-> e.x, t |-> now, v |-> e.pval]}], t}      \* storing is the cache's choice
       ELSE IF \E r \in Fresh(s, e.x, now) : r.v = e.ret THEN {t}
       \* last resort: no provider answers now - the last known block count may be served although its time is over
       \* (ServiceFailover!View "cached-or-fail"); a fee estimate may not
       ELSE IF e.x = "blockcount" /\ e.asked /\ e.prov = "fail" /\ \E r \in s.seen : r.x = e.x /\ r.v = e.ret THEN {t}
       ELSE {}

\* why an event is not allowed (for the verdict)
Why(s, e) ==
    LET now == s.now + e.dt IN
    IF ~e.ok THEN "failed-while-a-provider-answers"
    ELSE IF \E r \in Expired(s, e.x, now) : r.v = e.ret THEN "served-after-its-time-to-live"
    ELSE IF \E r \in s.seen : r.v = e.ret THEN "answer-to-another-question"
    ELSE "answer-nobody-gave"
=============================================================================
