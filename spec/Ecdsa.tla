------------------------------- MODULE Ecdsa -------------------------------
(***************************************************************************)
(* C13 - ECDSA signatures over a prime-order group: what a signer may      *)
(* output (valid, low S, strict DER, deterministic, nonce never shared)    *)
(* and what a verifier must answer for every byte string handed to it.     *)
(*                                                                         *)
(* Written from SEC 1 (ECDSA), SEC 2 (secp256k1 order), BIP 62/146 (low S),*)
(* BIP 66 (strict DER) and X.690 (BER, for "what does a non-strict         *)
(* encoding denote").  Group arithmetic is a primitive that stays outside  *)
(* TLC: the relation                                                       *)
(*      EcdsaOk(Q, z, r, s) == 1 <= r < n /\ 1 <= s < n /\ Q on the curve  *)
(*                             /\ x(z/s * G + r/s * Q) mod n = r           *)
(* is evaluated here from the range checks (done by TLC on byte sequences) *)
(* and two "oracle facts" (Q on curve; the x-coordinate equation), which   *)
(* are supplied by the reference interpretation of the primitives - or, in *)
(* the bounded model MC_Ecdsa, computed by TLC on a toy curve.             *)
(*                                                                         *)
(* Scalars are unsigned big-endian byte sequences of any length; leading   *)
(* zero bytes do not change the value.  All operators take the group order *)
(* n as a parameter (secp256k1: Order256; toy curve: one byte).            *)
(***************************************************************************)
EXTENDS Bytes, FiniteSets

\* ------------------------------------------------------------------ scalars
Norm(x) == TrimLead(x)
CmpU(a, b) == CmpLE(Rev(a), Rev(b))                 \* -1, 0, 1 by value
IsZero(x) == Norm(x) = <<>>
SubU(a, b) == Rev(SubLE(Rev(Norm(a)), Rev(Norm(b)), 256))          \* a - b for a >= b
AddU(a, b) == Rev(AddLE(Rev(Norm(a)), Rev(Norm(b)), 256))

\* SEC 2, secp256k1: n = FFFFFFFF FFFFFFFF FFFFFFFF FFFFFFFE BAAEDCE6 AF48A03B BFD25E8C D0364141
Order256 == <<255, 255, 255, 255, 255, 255, 255, 255, 255, 255, 255, 255, 255, 255, 255, 254,
              186, 174, 220, 230, 175, 72, 160, 59, 191, 210, 94, 140, 208, 54, 65, 65>>

\* (n-1)/2 for secp256k1 = 7FFFFFFF FFFFFFFF FFFFFFFF FFFFFFFF 5D576E73 57A4501D DFE92F46 681B20A0
\* (a literal so that the bounded model need not divide; EcdsaEval asserts Half256 = HalfByDivision(Order256))
Half256 == <<127, 255, 255, 255, 255, 255, 255, 255, 255, 255, 255, 255, 255, 255, 255, 255, 93, 87, 110, 115,
            87, 164, 80, 29, 223, 233, 47, 70, 104, 27, 32, 160>>
HalfByDivision(n) == Norm(DivSmallBE(n, 2, 0, 256)[1])
HalfOf(n) == IF n = Order256 THEN Half256 ELSE HalfByDivision(n)      \* (n-1)/2 for odd n
InRange(x, n) == ~IsZero(x) /\ CmpU(x, n) < 0       \* 1 <= x < n
LowS(s, n) == CmpU(s, HalfOf(n)) <= 0               \* BIP 62 rule 5 / BIP 146
Twin(s, n) == SubU(n, s)                            \* the other s that verifies with the same r

Pad32(x) == PadBE(Norm(x), 32)

\* ------------------------------------------------------------------ DER (X.690 8.3/8.9 restricted by BIP 66)
IntContent(v) == LET m == Norm(v) IN IF m = <<>> THEN <<0>> ELSE IF m[1] >= 128 THEN <<0>> \o m ELSE m
DerInt(v) == <<2, Len(IntContent(v))>> \o IntContent(v)
DerSeq(r, s) == LET body == DerInt(r) \o DerInt(s) IN <<48, Len(body)>> \o body       \* body < 128 bytes here
SigDer(r, s, ht) == DerSeq(r, s) \o <<ht>>          \* what goes into a script: DER followed by the hash-type byte

\* BIP 66 IsValidSignatureEncoding, transcribed (BIP indices are 0-based, sequences here 1-based)
IsStrictDER(sig) ==
    /\ Len(sig) >= 9 /\ Len(sig) <= 73
    /\ sig[1] = 48
    /\ sig[2] = Len(sig) - 3
    /\ LET lenR == sig[4] IN
       /\ 5 + lenR < Len(sig)
       /\ LET lenS == sig[6 + lenR] IN
          /\ lenR + lenS + 7 = Len(sig)
          /\ sig[3] = 2
          /\ lenR # 0
          /\ sig[5] < 128
          /\ (lenR > 1 /\ sig[5] = 0) => sig[6] >= 128
          /\ sig[lenR + 5] = 2
          /\ lenS # 0
          /\ sig[lenR + 7] < 128
          /\ (lenS > 1 /\ sig[lenR + 7] = 0) => sig[lenR + 8] >= 128

NoPair == [ok |-> FALSE, neg |-> FALSE, r |-> <<>>, s |-> <<>>, ht |-> 0]
StrictDecode(sig) ==
    IF IsStrictDER(sig)
    THEN LET lenR == sig[4] lenS == sig[6 + lenR] IN
         [ok |-> TRUE, neg |-> FALSE, r |-> Norm(SubSeq(sig, 5, 4 + lenR)), s |-> Norm(SubSeq(sig, lenR + 7, lenR + 6 + lenS)),
          ht |-> sig[Len(sig)]]
    ELSE NoPair

\* BER reading of the same structure (definite lengths in short or long form, any amount of integer padding):
\* this is only used to say which pair a NON-strict encoding denotes, so that accepting it can be judged.
\* Header of the TLV that starts at index i of b (tag at i, length octets after it), not reading beyond index lim:
\* [ok, len (of the content), c (index of the first content octet)]
NoHdr == [ok |-> FALSE, len |-> 0, c |-> 0]
HdrAt(b, i, lim) ==
    IF i + 1 > lim THEN NoHdr
    ELSE IF b[i + 1] < 128 THEN [ok |-> TRUE, len |-> b[i + 1], c |-> i + 2]
    ELSE LET k == b[i + 1] - 128 IN
         IF k = 0 \/ i + 1 + k > lim THEN NoHdr                                  \* indefinite form / truncated
         ELSE LET v == TrimLead(SubSeq(b, i + 2, i + 1 + k)) IN
              IF Len(v) > 2 THEN NoHdr                                           \* longer than any signature
              ELSE [ok |-> TRUE, len |-> BEVal(v), c |-> i + 2 + k]
\* tailOk = FALSE: X.690;  tailOk = TRUE: bytes after the second INTEGER inside the SEQUENCE are ignored (not BER;
\* only used to describe the named deviation "der-trailing-bytes-ignored" below)
BerDecodeG(sig, tailOk) ==       \* sig = encoding sig[1..L] followed by one hash-type byte
    LET L == Len(sig) - 1
        o == HdrAt(sig, 1, L)
    IN IF L < 2 \/ sig[1] # 48 \/ ~o.ok \/ o.c + o.len - 1 # L THEN NoPair      \* the SEQUENCE is the whole encoding
       ELSE LET a == HdrAt(sig, o.c, L) IN
            IF o.c > L \/ sig[o.c] # 2 \/ ~a.ok \/ a.len = 0 \/ a.c + a.len - 1 > L THEN NoPair
            ELSE LET q == a.c + a.len                                            \* where the second INTEGER starts
                     e == HdrAt(sig, q, L)
                 IN IF q > L \/ sig[q] # 2 \/ ~e.ok \/ e.len = 0 \/ e.c + e.len - 1 > L \/ (~tailOk /\ e.c + e.len - 1 # L) THEN NoPair
                    ELSE [ok |-> TRUE, neg |-> sig[a.c] >= 128 \/ sig[e.c] >= 128,  \* two's complement: a negative number
                          r |-> Norm(SubSeq(sig, a.c, a.c + a.len - 1)), s |-> Norm(SubSeq(sig, e.c, e.c + e.len - 1)),
                          ht |-> sig[L + 1]]
BerDecode(sig) == BerDecodeG(sig, FALSE)

\* What a byte string handed to the verifier denotes.  Interface contract of the library: either 64 bytes r || s, or
\* a DER signature followed by the hash-type byte.
\*   raw, strict : denotes the pair; the verifier must answer exactly EcdsaOk
\*   lax         : BER-valid but not BIP-66-strict (padding, long-form lengths), or a strict DER signature that lacks the
\*                 hash-type byte: denotes the pair; refusing is permitted, accepting only if EcdsaOk
\*   negative    : an integer with the sign bit set: denotes a number < 1, not a signature
\*   none        : denotes nothing
\* (a 64-byte string is r || s by contract, also in the practically unreachable case that it is a DER signature as well)
Denote(sig) ==
    IF Len(sig) = 64 THEN [kind |-> "raw", r |-> Norm(SubSeq(sig, 1, 32)), s |-> Norm(SubSeq(sig, 33, 64))]
    ELSE LET sd == StrictDecode(sig) IN
         IF sd.ok THEN [kind |-> "strict", r |-> sd.r, s |-> sd.s]
         ELSE LET bd == BerDecode(sig) IN
              IF bd.ok THEN [kind |-> IF bd.neg THEN "negative" ELSE "lax", r |-> bd.r, s |-> bd.s]
              ELSE LET bare == BerDecode(sig \o <<1>>) IN
                   IF bare.ok /\ ~bare.neg THEN [kind |-> "lax", r |-> bare.r, s |-> bare.s]
                   ELSE [kind |-> "none", r |-> <<>>, s |-> <<>>]
Denoting(d) == d.kind \in {"raw", "strict", "lax"}

\* ------------------------------------------------------------------ public keys (SEC 1, 2.3.3/2.3.4 octet strings)
\* SEC 2, secp256k1: p = FFFFFFFF FFFFFFFF FFFFFFFF FFFFFFFF FFFFFFFF FFFFFFFF FFFFFFFE FFFFFC2F
Prime256 == Rep(255, 27) \o <<254, 255, 255, 252, 47>>
\* A public key is handed over as an octet string.  It denotes a point exactly when it is
\*     02|03 || X  (1 + w octets)   with X < p and X^3 + 7 a square mod p      (compressed), or
\*     04 || X || Y  (1 + 2w octets) with X < p, Y < p and Y^2 = X^3 + 7 mod p  (uncompressed);
\* everything else - other lengths, other prefix octets (00 "infinity", 05, hybrid 06/07), a prefix that does not go with
\* the length, a coordinate that is not a field element (c + p) - denotes no key, and no triple with it may be accepted.
\* The infinite point has no such encoding, so it cannot be a public key.  The curve equation on the integers AS WRITTEN
\* (reduced mod p) is the oracle fact curveEq; length, prefix and range are decided here.
PubForm(pub, w) == IF Len(pub) = 1 + w /\ pub[1] \in {2, 3} THEN "compressed"
                   ELSE IF Len(pub) = 1 + 2 * w /\ pub[1] = 4 THEN "uncompressed" ELSE "malformed"
PubKeyOk(pub, p, w, curveEq) ==
    /\ PubForm(pub, w) # "malformed"
    /\ CmpU(SubSeq(pub, 2, 1 + w), p) < 0
    /\ (PubForm(pub, w) = "uncompressed") => CmpU(SubSeq(pub, 2 + w, 1 + 2 * w), p) < 0
    /\ curveEq

\* Named deviation "public-key-prefix-length-mismatch-accepted": the octet string is classified by its length alone - 65
\* octets with prefix 02/03 are read as 04 || X || Y, 33 octets with prefix 04 as a compressed X - instead of being refused.
\* It covers exactly those strings, and an acceptance only if the key so read is valid and the triple verifies under it
\* (oracle fact eqAlt).
PrefixLengthMismatch(pub, w) == \/ (Len(pub) = 1 + 2 * w /\ pub[1] \in {2, 3})
                                \/ (Len(pub) = 1 + w /\ pub[1] = 4)
\* Named deviation "public-key-hex-string-refused": a public key handed over as hexadecimal text (a documented form) is
\* refused with an internal error whatever it denotes; covers exactly a rejected valid triple whose key came as hex text.
KeyForms == {"bytes", "hex", "Key", "HDKey", "point"}
\* v: verdict of VerifyVerdictT;  re-attribution of the two public-key deviations
PubKeyDeviations(v, pub, w, keyform, obs, eqAlt) ==
    IF v.v = "verifier-rejects-valid-triple" /\ keyform = "hex"
    THEN [v EXCEPT !.dev = "public-key-hex-string-refused"]
    ELSE IF v.v = "verifier-accepts-invalid-triple" /\ v.dev = "" /\ obs = "accept" /\ PrefixLengthMismatch(pub, w) /\ eqAlt
    THEN [v EXCEPT !.dev = "public-key-prefix-length-mismatch-accepted"]
    ELSE v

\* ------------------------------------------------------------------ verifier relation
\* onCurve, eq: oracle facts (Q is a point of the curve; x(z/s*G + r/s*Q) mod n = r), only meaningful when in range
EcdsaOk(r, s, n, onCurve, eq) == InRange(r, n) /\ InRange(s, n) /\ onCurve /\ eq

Ok == [v |-> "ok", dev |-> "", exp |-> <<>>]
Bad(clause, dev, exp) == [v |-> clause, dev |-> dev, exp |-> exp]

\* Named deviation "short-der-refused": a strict DER signature whose total length (with hash type) is at most 64
\* bytes is refused (treated as a raw signature of the wrong length) instead of being decoded.
DevShortDer(sig, d) == d.kind = "strict" /\ Len(sig) <= 64

\* Named deviation "der-trailing-bytes-ignored": the decoder reads the SEQUENCE header and two INTEGERs (each without
\* sign bit and without superfluous padding) and ignores whatever follows the second INTEGER inside the SEQUENCE; such a
\* malformed signature is then verified as the pair it read.  TailPair(sig): that pair, for encodings that denote nothing.
NoTail == [ok |-> FALSE, r |-> <<>>, s |-> <<>>]
TailPairOf(t, sig) ==
    LET body == DerInt(t.r) \o DerInt(t.s)
    IN
    IF t.ok /\ ~t.neg
       /\ sig[2] = Len(sig) - 3                                                    \* short-form length of the whole
       /\ Len(sig) > 3 + Len(body) /\ SubSeq(sig, 3, 2 + Len(body)) = body         \* what it read is strict DER
    THEN [ok |-> TRUE, r |-> t.r, s |-> t.s] ELSE NoTail
TailPairD(sig, d) == IF d.kind # "none" THEN NoTail ELSE CHOOSE p \in {TailPairOf(t, sig) : t \in {BerDecodeG(sig, TRUE)}} : TRUE
TailPair(sig) == TailPairD(sig, Denote(sig))

\* obs: "accept" | "reject" (False returned, or any exception)
\* (d is bound by a set constructor rather than by LET so that TLC evaluates Denote(sig) once in every mode)
\* eqTail: the oracle fact for TailPair(sig) (FALSE when there is none)
VerdictOf(d, sig, n, onCurve, eq, eqTail, obs) ==
    LET valid == Denoting(d) /\ EcdsaOk(d.r, d.s, n, onCurve, eq)
    IN IF obs = "accept" /\ ~valid
       THEN Bad(IF Denoting(d) THEN "verifier-accepts-invalid-triple" ELSE "verifier-accepts-malformed-signature",
                IF \E t \in {TailPairD(sig, d)} : t.ok /\ EcdsaOk(t.r, t.s, n, onCurve, eqTail)
                THEN "der-trailing-bytes-ignored" ELSE "", <<"reject">>)
       ELSE IF obs = "reject" /\ valid /\ d.kind \in {"raw", "strict"}
       THEN Bad("verifier-rejects-valid-triple", IF DevShortDer(sig, d) THEN "short-der-refused" ELSE "", <<"accept">>)
       ELSE Ok
VerifyVerdictT(sig, n, onCurve, eq, eqTail, obs) ==
    CHOOSE v \in {VerdictOf(d, sig, n, onCurve, eq, eqTail, obs) : d \in {Denote(sig)}} : TRUE
VerifyVerdict(sig, n, onCurve, eq, obs) == VerifyVerdictT(sig, n, onCurve, eq, FALSE, obs)

\* Signature.parse_bytes: if it returns a signature object, that object must hold the denoted pair (and hash type);
\* it must not refuse a raw/strict encoding of an in-range pair.  p = [ok, r, s, ht]
ParseOf(d, sig, n, p) ==
    IF p.ok /\ Denoting(d) /\ (Norm(p.r) # d.r \/ Norm(p.s) # d.s)
    THEN Bad("parse-wrong-pair", "", <<d.r, d.s>>)
    ELSE IF p.ok /\ d.kind = "strict" /\ p.ht # sig[Len(sig)]
    THEN Bad("parse-wrong-hash-type", "", <<<<sig[Len(sig)]>>>>)
    ELSE IF ~p.ok /\ d.kind \in {"raw", "strict"} /\ InRange(d.r, n) /\ InRange(d.s, n)
    THEN Bad("parse-refuses-wellformed-signature", IF DevShortDer(sig, d) THEN "short-der-refused" ELSE "", <<d.r, d.s>>)
    ELSE Ok
ParseVerdict(sig, n, p) == CHOOSE v \in {ParseOf(d, sig, n, p) : d \in {Denote(sig)}} : TRUE

\* ------------------------------------------------------------------ encodings of a pair, well-formed and malformed
\* (spec -> code: TLC builds every encoding class of the verifier table from (r, s, hash type))
EncClasses == {"raw64", "der", "der-nohashtype", "der-pad-r", "der-pad-s", "der-longlen-seq", "der-longlen-int",
               "der-neg-r", "der-neg-s", "der-trailing-in-seq", "der-trailing-after-seq", "der-truncated",
               "der-seqlen-plus1", "der-seqlen-minus1", "der-tag-seq", "der-tag-int", "der-empty-int", "raw63", "raw65",
               "der-swapped"}
PaddedInt(v) == LET c == IntContent(v) IN <<2, Len(c) + 1, 0>> \o c
NegInt(v) == LET m == Norm(v) IN <<2, Len(m)>> \o m                      \* sign padding left out
SeqOf(body) == <<48, Len(body)>> \o body
Encode(class, r, s, ht) ==
  CASE class = "raw64" -> Pad32(r) \o Pad32(s)
    [] class = "der" -> SigDer(r, s, ht)
    [] class = "der-nohashtype" -> DerSeq(r, s)
    [] class = "der-pad-r" -> SeqOf(PaddedInt(r) \o DerInt(s)) \o <<ht>>
    [] class = "der-pad-s" -> SeqOf(DerInt(r) \o PaddedInt(s)) \o <<ht>>
    [] class = "der-longlen-seq" -> LET body == DerInt(r) \o DerInt(s) IN <<48, 129, Len(body)>> \o body \o <<ht>>
    [] class = "der-longlen-int" -> LET c == IntContent(r) IN SeqOf(<<2, 129, Len(c)>> \o c \o DerInt(s)) \o <<ht>>
    [] class = "der-neg-r" -> SeqOf(NegInt(r) \o DerInt(s)) \o <<ht>>
    [] class = "der-neg-s" -> SeqOf(DerInt(r) \o NegInt(s)) \o <<ht>>
    [] class = "der-trailing-in-seq" -> SeqOf(DerInt(r) \o DerInt(s) \o <<0>>) \o <<ht>>
    [] class = "der-trailing-after-seq" -> DerSeq(r, s) \o <<0, ht>>
    [] class = "der-truncated" -> LET d == DerSeq(r, s) IN SubSeq(d, 1, Len(d) - 1) \o <<ht>>
    [] class = "der-seqlen-plus1" -> LET body == DerInt(r) \o DerInt(s) IN <<48, Len(body) + 1>> \o body \o <<ht>>
    [] class = "der-seqlen-minus1" -> LET body == DerInt(r) \o DerInt(s) IN <<48, Len(body) - 1>> \o body \o <<ht>>
    [] class = "der-tag-seq" -> LET d == DerSeq(r, s) IN <<49>> \o Tail(d) \o <<ht>>
    [] class = "der-tag-int" -> SeqOf(<<3>> \o Tail(DerInt(r)) \o DerInt(s)) \o <<ht>>
    [] class = "der-empty-int" -> SeqOf(<<2, 0>> \o DerInt(s)) \o <<ht>>
    [] class = "raw63" -> LET b == Pad32(r) \o Pad32(s) IN SubSeq(b, 1, 63)
    [] class = "raw65" -> Pad32(r) \o Pad32(s) \o <<ht>>
    [] class = "der-swapped" -> SigDer(s, r, ht)
\* an encoding class is applicable when the pair fits it (raw: 32-byte values; neg: sign bit set; BIP 66 bound of 73 bytes)
Applicable(class, r, s) ==
    /\ (class \in {"raw64", "raw63", "raw65"}) => (Len(Norm(r)) <= 32 /\ Len(Norm(s)) <= 32)
    /\ (class = "der-neg-r") => (~IsZero(r) /\ Norm(r)[1] >= 128)
    /\ (class = "der-neg-s") => (~IsZero(s) /\ Norm(s)[1] >= 128)
    /\ Len(IntContent(r)) <= 33 /\ Len(IntContent(s)) <= 33
\* what the class is meant to denote (checked against Denote(Encode(..)) by the model MC_Ecdsa)
ClassKind(class) ==
    IF class = "raw64" THEN "raw" ELSE IF class = "der" THEN "strict"
    ELSE IF class \in {"der-nohashtype", "der-pad-r", "der-pad-s", "der-longlen-seq", "der-longlen-int"} THEN "lax"
    ELSE IF class \in {"der-neg-r", "der-neg-s"} THEN "negative"
    ELSE IF class = "der-swapped" THEN "strict-other-pair" ELSE "not-the-pair"

\* ------------------------------------------------------------------ the signing side: one event = one signature produced
\* ev = [mode  : "det" (library derives the nonce) | "random" (library draws it) | "explicit" (caller supplied it),
\*       key, z : identities of private key and 32-byte digest (any values with equality),
\*       rep    : representation in which the digest was handed over ("bytes", "hex", "hex-upper", "hex-mixed"),
\*       ht     : hash type asked for,
\*       r, s   : the pair reported, der : DER + hash type bytes reported, raw : the 64-byte form reported,
\*       valid  : oracle fact EcdsaOk(pub(key), z, r, s) of the reference verifier]
\* The nonce is identified by r = x(k*G) mod n (k and n-k share it, and so do the signatures' security consequences).

\* Named deviation "low-s-threshold-rounded": the signer compares s with n/2 rounded to a binary floating point number
\* (2^255 for secp256k1) and so leaves s in (n/2, 2^255] as it is.
Pow255 == <<128>> \o Rep(0, 31)
DevLowSRounded(s, n) == n = Order256 /\ ~LowS(s, n) /\ CmpU(s, Pow255) <= 0

EventFails(ev, n) ==        \* sequence of failing clauses of a single event (empty: fine)
    LET dec == StrictDecode(ev.der)
        c1 == IF InRange(ev.r, n) /\ InRange(ev.s, n) THEN <<>> ELSE <<Bad("signature-out-of-range", "", <<>>)>>
        c2 == IF ev.valid THEN <<>> ELSE <<Bad("signature-does-not-verify", "", <<>>)>>
        c3 == IF LowS(ev.s, n) THEN <<>>
              ELSE <<Bad("high-s", IF DevLowSRounded(ev.s, n) THEN "low-s-threshold-rounded" ELSE "",
                         IF CmpU(ev.s, n) < 0 THEN Twin(ev.s, n) ELSE <<>>)>>
        c4 == IF ~dec.ok THEN <<Bad("der-not-strict", "", SigDer(ev.r, ev.s, ev.ht))>>
              ELSE IF dec.r # Norm(ev.r) \/ dec.s # Norm(ev.s) THEN <<Bad("der-encodes-other-pair", "", SigDer(ev.r, ev.s, ev.ht))>>
              ELSE IF dec.ht # ev.ht THEN <<Bad("hash-type-byte", "", <<ev.ht>>)>>
              ELSE IF ev.der # SigDer(ev.r, ev.s, ev.ht) THEN <<Bad("der-not-canonical", "", SigDer(ev.r, ev.s, ev.ht))>>
              ELSE <<>>
        c5 == IF Len(Norm(ev.r)) <= 32 /\ Len(Norm(ev.s)) <= 32 /\ ev.raw # Pad32(ev.r) \o Pad32(ev.s)
              THEN <<Bad("raw-form", "", Pad32(ev.r) \o Pad32(ev.s))>> ELSE <<>>
    IN c1 \o c2 \o c3 \o c4 \o c5

\* ledger: sigOf : (key, z) -> <<r, s>> of the first "det" signature for which the digest was given in a canonical
\*         representation (bytes, lower-case hex text); altOf : (key, z, rep) -> the same for other representations of the
\*         same digest (rep = "hex-upper", "hex-mixed": same value, other letter case);
\*         users : nonce id -> set of (key, z) that used it (nonces chosen by the library only)
\* ev.rep: how the caller handed the digest over.  The signature is a function of key and MESSAGE: every representation of
\* one digest must give the one signature.
\* Named deviation "sign-nonce-depends-on-hex-case": the deterministic nonce is derived from the hex TEXT of the digest as
\* given, so the same digest in another letter case gets another nonce and another (valid) signature.  It covers exactly a
\* disagreement between a case-altered representation and another representation of the same digest; two signatures for
\* the same text must still agree.
CanonicalRep(rep) == rep \in {"bytes", "hex"}
LedgerInit == [sigOf |-> <<>>, altOf |-> <<>>, users |-> <<>>]
Extend(f, x, v) == [y \in (DOMAIN f) \cup {x} |-> IF y = x THEN v ELSE f[y]]
LedgerFails(st, ev) ==
    LET p == <<ev.key, ev.z>>
        q == <<ev.key, ev.z, ev.rep>>
        nid == Norm(ev.r)
        sg == <<Norm(ev.r), Norm(ev.s)>>
        same == IF ev.mode # "det" THEN <<>>                    \* same text (or two canonical ones): must agree
                ELSE IF CanonicalRep(ev.rep) /\ p \in DOMAIN st.sigOf /\ st.sigOf[p] # sg THEN <<Bad("not-deterministic", "", st.sigOf[p])>>
                ELSE IF ~CanonicalRep(ev.rep) /\ q \in DOMAIN st.altOf /\ st.altOf[q] # sg THEN <<Bad("not-deterministic", "", st.altOf[q])>>
                ELSE <<>>
        cross == IF ev.mode # "det" \/ same # <<>> THEN <<>>     \* other texts of the same digest: must agree as well
                 ELSE IF ~CanonicalRep(ev.rep) /\ p \in DOMAIN st.sigOf /\ st.sigOf[p] # sg
                      THEN <<Bad("not-deterministic", "sign-nonce-depends-on-hex-case", st.sigOf[p])>>
                 ELSE IF \E a \in DOMAIN st.altOf : a[1] = ev.key /\ a[2] = ev.z /\ a[3] # ev.rep /\ st.altOf[a] # sg
                      THEN <<Bad("not-deterministic", "sign-nonce-depends-on-hex-case", <<>>)>>
                 ELSE <<>>
        u == IF ev.mode # "explicit" /\ nid \in DOMAIN st.users /\ st.users[nid] \ {p} # {}
             THEN <<Bad("nonce-shared", "", <<>>)>> ELSE <<>>
    IN same \o cross \o u
LedgerNext(st, ev) ==
    LET p == <<ev.key, ev.z>>
        q == <<ev.key, ev.z, ev.rep>>
        nid == Norm(ev.r)
        sg == <<Norm(ev.r), Norm(ev.s)>>
    IN [sigOf |-> IF ev.mode = "det" /\ CanonicalRep(ev.rep) /\ p \notin DOMAIN st.sigOf THEN Extend(st.sigOf, p, sg) ELSE st.sigOf,
        altOf |-> IF ev.mode = "det" /\ ~CanonicalRep(ev.rep) /\ q \notin DOMAIN st.altOf THEN Extend(st.altOf, q, sg) ELSE st.altOf,
        users |-> IF ev.mode = "explicit" THEN st.users
                  ELSE Extend(st.users, nid, (IF nid \in DOMAIN st.users THEN st.users[nid] ELSE {}) \cup {p})]

SignFails(st, ev, n) == EventFails(ev, n) \o LedgerFails(st, ev)

\* The same statements, declaratively over a whole history (what the property says); MC_Ecdsa checks that the ledger
\* above reports a failure exactly when one of these is broken.
HistDeterministic(h) == \A i, j \in 1..Len(h) : (h[i].mode = "det" /\ h[j].mode = "det" /\ h[i].key = h[j].key /\ h[i].z = h[j].z)
                                                  => (Norm(h[i].r) = Norm(h[j].r) /\ Norm(h[i].s) = Norm(h[j].s))
HistNonceUnique(h) == \A i, j \in 1..Len(h) : (h[i].mode # "explicit" /\ h[j].mode # "explicit" /\ Norm(h[i].r) = Norm(h[j].r))
                                                  => (h[i].key = h[j].key /\ h[i].z = h[j].z)
HistEventsOk(h, n) == \A i \in 1..Len(h) : /\ InRange(h[i].r, n) /\ InRange(h[i].s, n) /\ h[i].valid /\ LowS(h[i].s, n)
                                           /\ h[i].der = SigDer(h[i].r, h[i].s, h[i].ht) /\ IsStrictDER(h[i].der)
                                           /\ (Len(Norm(h[i].r)) <= 32 /\ Len(Norm(h[i].s)) <= 32) => h[i].raw = Pad32(h[i].r) \o Pad32(h[i].s)
HistOk(h, n) == HistDeterministic(h) /\ HistNonceUnique(h) /\ HistEventsOk(h, n)
=============================================================================
