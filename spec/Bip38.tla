------------------------------- MODULE Bip38 -------------------------------
(***************************************************************************)
(* BIP38 - passphrase-protected private keys - written from the BIP text.  *)
(*                                                                         *)
(* Everything structural is defined here and evaluated by TLC: which       *)
(* fields are concatenated in which order, which half is XOR-ed with       *)
(* which, flag bytes, owner entropy / lot+sequence packing, Base58Check,   *)
(* UTF-8, the address (version byte, hash, checksum) whose hash salts the  *)
(* key derivation, the range checks on the factors, what must be refused.  *)
(*                                                                         *)
(* The primitives (NFC, SHA-256d, HASH160, scrypt, AES-256 single block,   *)
(* secp256k1 multiplication, multiplication modulo the group order) are    *)
(* uninterpreted: an application is a query q = [f |-> name, a |-> args]   *)
(* (args: sequence of sequences of naturals) against an oracle table F,    *)
(*   Has(F, q)  - the table knows q,   Val(F, q) - its value.              *)
(* Has/Val are CONSTANT operators: the conformance module binds them to    *)
(* facts computed by the harness with reference implementations, the       *)
(* model (MC_Bip38) binds them to toy interpretations with the algebraic   *)
(* laws the design relies on (AES decrypt inverts encrypt, the group is    *)
(* commutative).  A function whose next primitive application is unknown   *)
(* returns the queries it needs; nothing is ever computed from a missing   *)
(* value.                                                                  *)
(*                                                                         *)
(* Results:  [st |-> "ok", val |-> v] | [st |-> "need", need |-> queries]  *)
(*           | [st |-> "err"]  (the operation must report an error)        *)
(*                                                                         *)
(* Strings (passphrases) are sequences of Unicode code points, texts in    *)
(* Base58 (tokens, addresses) are sequences of ASCII codes.                *)
(*                                                                         *)
(* The second half of the module is the entropy ledger: the state machine  *)
(* of key generation requests within one process (freshness).              *)
(***************************************************************************)
EXTENDS Bytes, Bitwise, FiniteSets

CONSTANTS Has(_, _), Val(_, _)

Q(f, a)  == [f |-> f, a |-> a]
Ok(v)    == [st |-> "ok",   need |-> <<>>, val |-> v]
Need(qs) == [st |-> "need", need |-> qs,   val |-> <<>>]
Fail     == [st |-> "err",  need |-> <<>>, val |-> <<>>]

Miss(F, qs) == SelectSeq(qs, LAMBDA q : ~Has(F, q))
\* body is evaluated only when every query of qs is answered (TLC passes operator arguments by need)
Stage(F, qs, body) == IF Miss(F, qs) # <<>> THEN Need(Miss(F, qs)) ELSE body
\* two independent computations: ask for everything either of them needs
NeedBoth(a, b) == Need((IF a.st = "need" THEN a.need ELSE <<>>) \o (IF b.st = "need" THEN b.need ELSE <<>>))

(* ----------------------------- reference data ---------------------------- *)
\* version byte of pay-to-pubkey-hash addresses
AddrVersion == [bitcoin |-> 0, testnet |-> 111, testnet4 |-> 111, signet |-> 111, litecoin |-> 48,
                litecoin_testnet |-> 111, dogecoin |-> 30, dogecoin_testnet |-> 113]
KnownNetwork(n) == n \in DOMAIN AddrVersion

\* order of the secp256k1 group, big-endian
OrderN == <<255, 255, 255, 255, 255, 255, 255, 255, 255, 255, 255, 255, 255, 255, 255, 254,
            186, 174, 220, 230, 175, 72, 160, 59, 191, 210, 94, 140, 208, 54, 65, 65>>
\* 32-byte big-endian scalar in 1 .. n-1
InRange(s) == Len(s) = 32 /\ s # Rep(0, 32) /\ CmpBE(s, OrderN) = -1

B58A == <<49, 50, 51, 52, 53, 54, 55, 56, 57, 65, 66, 67, 68, 69, 70, 71, 72, 74, 75, 76, 77, 78, 80, 81, 82, 83, 84,
          85, 86, 87, 88, 89, 90, 97, 98, 99, 100, 101, 102, 103, 104, 105, 106, 107, 109, 110, 111, 112, 113, 114,
          115, 116, 117, 118, 119, 120, 121, 122>>

MagicLot   == <<44, 233, 179, 225, 255, 57, 226, 81>>      \* 2C E9 B3 E1 FF 39 E2 51
MagicNoLot == <<44, 233, 179, 225, 255, 57, 226, 83>>      \* 2C E9 B3 E1 FF 39 E2 53
ConfPrefix == <<100, 59, 246, 168, 154>>                   \* 64 3B F6 A8 9A

(* ----------------------------- structural helpers ------------------------ *)
RECURSIVE LeadCount(_, _)
LeadCount(s, x) == IF s = <<>> \/ s[1] # x THEN 0 ELSE 1 + LeadCount(Tail(s), x)

IsB58(s) == \A i \in 1..Len(s) : \E k \in 1..58 : B58A[k] = s[i]
B58Digit(c) == (CHOOSE k \in 1..58 : B58A[k] = c) - 1

B58Enc(b) == LET nz   == LeadCount(b, 0)
                 digs == Rev(ConvBEtoLE(Drop(b, nz), 256, 58))
             IN Rep(49, nz) \o [i \in 1..Len(digs) |-> B58A[digs[i] + 1]]
B58Dec(s) == LET n1   == LeadCount(s, 49)
                 rest == Drop(s, n1)
                 digs == [i \in 1..Len(rest) |-> B58Digit(rest[i])]
             IN Rep(0, n1) \o Rev(ConvBEtoLE(digs, 58, 256))

Utf8Cp(c) == IF c < 128 THEN <<c>>
             ELSE IF c < 2048 THEN <<192 + (c \div 64), 128 + (c % 64)>>
             ELSE IF c < 65536 THEN <<224 + (c \div 4096), 128 + ((c \div 64) % 64), 128 + (c % 64)>>
             ELSE <<240 + (c \div 262144), 128 + ((c \div 4096) % 64), 128 + ((c \div 64) % 64), 128 + (c % 64)>>
Utf8(cps) == Concat([i \in 1..Len(cps) |-> Utf8Cp(cps[i])])

XorSeq(a, b) == [i \in 1..Len(a) |-> a[i] ^^ b[i]]

\* a curve point is 64 bytes x || y; SEC1 serialisation
Sec(pt, comp) == IF comp THEN <<2 + (pt[64] % 2)>> \o SubSeq(pt, 1, 32) ELSE <<4>> \o pt

(* ----------------------------- queries ----------------------------------- *)
QNfc(cps)        == Q("nfc", <<cps>>)
QSha256d(b)      == Q("sha256d", <<b>>)
QHash160(b)      == Q("hash160", <<b>>)
QScrypt(pw, salt, n, r, p, len) == Q("scrypt", <<pw, salt, <<n>>, <<r>>, <<p>>, <<len>>>>)
QAesEnc(key, blk) == Q("aes256enc", <<key, blk>>)
QAesDec(key, blk) == Q("aes256dec", <<key, blk>>)
QMulG(k)         == Q("ec_mul_g", <<k>>)          \* k*G as x || y; <<>> when k = 0 mod n
QMul(pub, k)     == Q("ec_mul", <<pub, k>>)       \* k*P for a SEC1 point P; <<>> when P is no point or the result is infinity
QMulModN(a, b)   == Q("mulmod_n", <<a, b>>)       \* a*b mod n, 32 bytes

(* the passphrase as the key-derivation function sees it: NFC, then UTF-8.   *)
(* norm = FALSE describes the deviation "no normalisation".                *)
(* A passphrase is text (code points: what BIP38 talks about) or, where an API accepts them, raw bytes used as     *)
(* they are.  Text is never interpreted: a passphrase made of hexadecimal digits, of Base58 characters, with        *)
(* surrounding blanks ... is that text.                                                                              *)
Txt(s) == [text |-> TRUE, s |-> s]
Raw(b) == [text |-> FALSE, s |-> b]
PassQs(pw) == IF pw.text THEN <<QNfc(pw.s)>> ELSE <<>>
PassBytes(F, pw, norm) == IF ~pw.text THEN pw.s ELSE IF norm THEN Utf8(Val(F, QNfc(pw.s))) ELSE Utf8(pw.s)

Base58Check(F, payload) ==
    LET q == QSha256d(payload) IN Stage(F, <<q>>, Ok(B58Enc(payload \o SubSeq(Val(F, q), 1, 4))))

\* pay-to-pubkey-hash address of a serialised public key ("the Bitcoin address" of BIP38)
AddrOfPub(F, pub, ver) ==
    LET qh == QHash160(pub) IN
    Stage(F, <<qh>>, Base58Check(F, <<ver>> \o Val(F, qh)))

AddrHashOfPub(F, pub, ver) ==
    LET a == AddrOfPub(F, pub, ver) IN
    IF a.st # "ok" THEN a
    ELSE LET q == QSha256d(a.val) IN Stage(F, <<q>>, Ok(SubSeq(Val(F, q), 1, 4)))

AddrOfPriv(F, priv, comp, ver) ==
    LET qg == QMulG(priv) IN
    Stage(F, <<qg>>, IF Val(F, qg) = <<>> THEN Fail ELSE AddrOfPub(F, Sec(Val(F, qg), comp), ver))

(* ----------------------------- no EC multiplication ---------------------- *)
FlagNonEC(comp) == IF comp THEN 224 ELSE 192            \* E0 / C0

\* ah: the 4 salt bytes; pw: passphrase bytes
EncryptWithAH(F, priv, comp, ah, pw) ==
    LET qs == QScrypt(pw, ah, 16384, 8, 8, 64) IN
    Stage(F, <<qs>>,
      LET d   == Val(F, qs)
          dh1 == SubSeq(d, 1, 32)
          dh2 == SubSeq(d, 33, 64)
          q1  == QAesEnc(dh2, XorSeq(SubSeq(priv, 1, 16), SubSeq(dh1, 1, 16)))
          q2  == QAesEnc(dh2, XorSeq(SubSeq(priv, 17, 32), SubSeq(dh1, 17, 32)))
      IN Stage(F, <<q1, q2>>,
           Base58Check(F, <<1, 66, FlagNonEC(comp)>> \o ah \o Val(F, q1) \o Val(F, q2))))

EncryptNonEC(F, priv, comp, ver, pw, norm) ==
    IF ~InRange(priv) THEN Fail
    ELSE LET qg == QMulG(priv)
         IN Stage(F, <<qg>> \o PassQs(pw),
              LET ah == AddrHashOfPub(F, Sec(Val(F, qg), comp), ver) IN
              IF ah.st # "ok" THEN ah ELSE EncryptWithAH(F, priv, comp, ah.val, PassBytes(F, pw, norm)))

\* decryption result
\* (seed, oe: the generator's entropy and the owner entropy recovered from an EC-multiplied token, else empty)
Key(priv, comp, ec, lot, seq, seed, oe) ==
    [priv |-> priv, comp |-> comp, ec |-> ec, lot |-> lot, seq |-> seq, seed |-> seed, oe |-> oe]

\* last step of both decryptions: the key is returned only if its address hashes to the salt in the token
CheckedKey(F, priv, comp, ver, ah, ec, lot, seq, seed, oe) ==
    IF ~InRange(priv) THEN Fail
    ELSE LET qg == QMulG(priv) IN
         Stage(F, <<qg>>,
           LET h == AddrHashOfPub(F, Sec(Val(F, qg), comp), ver) IN
           IF h.st # "ok" THEN h
           ELSE IF h.val = ah THEN Ok(Key(priv, comp, ec, lot, seq, seed, oe)) ELSE Fail)

DecryptNonEC(F, pl, pw, ver) ==
    LET flag == pl[3]
        ah   == SubSeq(pl, 4, 7)
        qs   == QScrypt(pw, ah, 16384, 8, 8, 64)
    IN IF flag \notin {192, 224} THEN Fail
       ELSE Stage(F, <<qs>>,
         LET d   == Val(F, qs)
             dh1 == SubSeq(d, 1, 32)
             dh2 == SubSeq(d, 33, 64)
             q1  == QAesDec(dh2, SubSeq(pl, 8, 23))
             q2  == QAesDec(dh2, SubSeq(pl, 24, 39))
         IN Stage(F, <<q1, q2>>,
              CheckedKey(F, XorSeq(Val(F, q1) \o Val(F, q2), dh1), flag = 224, ver, ah, FALSE, 0, 0, <<>>, <<>>)))

(* ----------------------------- EC multiplication ------------------------- *)
\* lot (20 bits) and sequence (12 bits) packed big-endian into 4 bytes
LotSeqBytes(lot, seq) == <<lot \div 4096, (lot \div 16) % 256, ((lot % 16) * 16) + (seq \div 256), seq % 256>>
LotOf(b) == (b[1] * 4096) + (b[2] * 16) + (b[3] \div 16)
SeqOf(b) == ((b[3] % 16) * 256) + b[4]

\* passfactor from the passphrase bytes and the owner entropy (8 bytes); hasLot: first 4 bytes are the salt
PassFactor(F, pw, oe, hasLot) ==
    LET salt == IF hasLot THEN SubSeq(oe, 1, 4) ELSE oe
        qs   == QScrypt(pw, salt, 16384, 8, 8, 32)
    IN Stage(F, <<qs>>,
         IF ~hasLot THEN Ok(Val(F, qs))
         ELSE LET qh == QSha256d(Val(F, qs) \o oe) IN Stage(F, <<qh>>, Ok(Val(F, qh))))

\* passpoint: compressed public key of the passfactor
PassPoint(F, pf) ==
    IF ~InRange(pf) THEN Fail
    ELSE LET qg == QMulG(pf) IN Stage(F, <<qg>>, Ok(Sec(Val(F, qg), TRUE)))

\* lotseq: <<>> or <<lot, sequence>>; salt: owner salt (8 bytes, or 4 with lot and sequence; a longer salt supplied with
\* lot and sequence is cut to its first 4 bytes)
Intermediate(F, pw, lotseq, salt, norm) ==
    LET hasLot == lotseq # <<>> IN
    IF hasLot /\ ~(lotseq[1] \in 0..1048575 /\ lotseq[2] \in 0..4095 /\ Len(salt) \in {4, 8}) THEN Fail
    ELSE IF ~hasLot /\ Len(salt) # 8 THEN Fail
    ELSE LET oe == IF hasLot THEN SubSeq(salt, 1, 4) \o LotSeqBytes(lotseq[1], lotseq[2]) ELSE salt
         IN Stage(F, PassQs(pw),
              LET pf == PassFactor(F, PassBytes(F, pw, norm), oe, hasLot) IN
              IF pf.st # "ok" THEN pf
              ELSE LET pp == PassPoint(F, pf.val) IN
                   IF pp.st # "ok" THEN pp
                   ELSE Base58Check(F, (IF hasLot THEN MagicLot ELSE MagicNoLot) \o oe \o pp.val))

FlagEC(comp, hasLot) == (IF comp THEN 32 ELSE 0) + (IF hasLot THEN 4 ELSE 0)

\* a new key from an intermediate code and 24 bytes of entropy: token, confirmation code, public key, address
CreateNew(F, inter, comp, seedb, ver) ==
    IF ~IsB58(inter) \/ Len(seedb) # 24 THEN Fail
    ELSE LET raw == B58Dec(inter) IN
    IF Len(raw) # 53 THEN Fail
    ELSE LET pl  == SubSeq(raw, 1, 49)
             qc  == QSha256d(pl)
             qf  == QSha256d(seedb)
             mg  == SubSeq(pl, 1, 8)
             oe  == SubSeq(pl, 9, 16)
             pp  == SubSeq(pl, 17, 49)
             hasLot == mg = MagicLot
             flag == FlagEC(comp, hasLot)
    IN Stage(F, <<qc, qf>>,
         IF SubSeq(Val(F, qc), 1, 4) # SubSeq(raw, 50, 53) \/ mg \notin {MagicLot, MagicNoLot} THEN Fail
         ELSE LET fb == Val(F, qf) IN
         IF ~InRange(fb) THEN Fail
         ELSE LET qm == QMul(pp, fb)
                  qb == QMulG(fb)
         IN Stage(F, <<qm, qb>>,
              IF Val(F, qm) = <<>> THEN Fail
              ELSE LET pub  == Sec(Val(F, qm), comp)
                       addr == AddrOfPub(F, pub, ver)
              IN IF addr.st # "ok" THEN addr
                 ELSE LET qa == QSha256d(addr.val) IN
                 Stage(F, <<qa>>,
                   LET ah == SubSeq(Val(F, qa), 1, 4)
                       qs == QScrypt(pp, ah \o oe, 1024, 1, 1, 64)
                   IN Stage(F, <<qs>>,
                        LET d   == Val(F, qs)
                            dh1 == SubSeq(d, 1, 32)
                            dh2 == SubSeq(d, 33, 64)
                            pb  == Sec(Val(F, qb), TRUE)
                            q1  == QAesEnc(dh2, XorSeq(SubSeq(seedb, 1, 16), SubSeq(dh1, 1, 16)))
                            qx1 == QAesEnc(dh2, XorSeq(SubSeq(pb, 2, 17), SubSeq(dh1, 1, 16)))
                            qx2 == QAesEnc(dh2, XorSeq(SubSeq(pb, 18, 33), SubSeq(dh1, 17, 32)))
                        IN Stage(F, <<q1, qx1, qx2>>,
                             LET e1 == Val(F, q1)
                                 q2 == QAesEnc(dh2, XorSeq(SubSeq(e1, 9, 16) \o SubSeq(seedb, 17, 24), SubSeq(dh1, 17, 32)))
                             IN Stage(F, <<q2>>,
                                  LET tok  == Base58Check(F, <<1, 67, flag>> \o ah \o oe \o SubSeq(e1, 1, 8) \o Val(F, q2))
                                      conf == Base58Check(F, ConfPrefix \o <<flag>> \o ah \o oe
                                                              \o <<pb[1] ^^ (dh2[32] & 1)>> \o Val(F, qx1) \o Val(F, qx2))
                                  IN IF tok.st # "ok" \/ conf.st # "ok" THEN NeedBoth(tok, conf)
                                     ELSE Ok([tok |-> tok.val, conf |-> conf.val, pub |-> pub, addr |-> addr.val])))))))

DecryptEC(F, pl, pw, ver) ==
    LET flag   == pl[3]
        hasLot == (flag & 4) = 4
        comp   == (flag & 32) = 32
        ah     == SubSeq(pl, 4, 7)
        oe     == SubSeq(pl, 8, 15)
        part1a == SubSeq(pl, 16, 23)
        part2  == SubSeq(pl, 24, 39)
    IN IF flag \notin {0, 4, 32, 36} THEN Fail
       ELSE LET pf == PassFactor(F, pw, oe, hasLot) IN
       IF pf.st # "ok" THEN pf
       ELSE LET pp == PassPoint(F, pf.val) IN
       IF pp.st # "ok" THEN pp
       ELSE LET qs == QScrypt(pp.val, ah \o oe, 1024, 1, 1, 64) IN
       Stage(F, <<qs>>,
         LET d   == Val(F, qs)
             dh1 == SubSeq(d, 1, 32)
             dh2 == SubSeq(d, 33, 64)
             q2  == QAesDec(dh2, part2)
         IN Stage(F, <<q2>>,
              LET t2 == XorSeq(Val(F, q2), SubSeq(dh1, 17, 32))     \* encryptedpart1[8..15] || seedb[16..23]
                  q1 == QAesDec(dh2, part1a \o SubSeq(t2, 1, 8))
              IN Stage(F, <<q1>>,
                   LET seedb == XorSeq(Val(F, q1), SubSeq(dh1, 1, 16)) \o SubSeq(t2, 9, 16)
                       qf    == QSha256d(seedb)
                   IN Stage(F, <<qf>>,
                        IF ~InRange(Val(F, qf)) THEN Fail
                        ELSE LET qm == QMulModN(pf.val, Val(F, qf)) IN
                             Stage(F, <<qm>>,
                               CheckedKey(F, Val(F, qm), comp, ver, ah, TRUE,
                                          IF hasLot THEN LotOf(SubSeq(oe, 5, 8)) ELSE 0,
                                          IF hasLot THEN SeqOf(SubSeq(oe, 5, 8)) ELSE 0, seedb, oe))))))

(* ----------------------------- decryption of any token ------------------- *)
Decrypt(F, tok, pw, ver, norm) ==
    IF ~IsB58(tok) THEN Fail
    ELSE LET raw == B58Dec(tok) IN
    IF Len(raw) # 43 THEN Fail
    ELSE LET pl == SubSeq(raw, 1, 39)
             qc == QSha256d(pl)
    IN Stage(F, <<qc>> \o PassQs(pw),
         IF SubSeq(Val(F, qc), 1, 4) # SubSeq(raw, 40, 43) THEN Fail
         ELSE IF pl[1] = 1 /\ pl[2] = 66 THEN DecryptNonEC(F, pl, PassBytes(F, pw, norm), ver)
         ELSE IF pl[1] = 1 /\ pl[2] = 67 THEN DecryptEC(F, pl, PassBytes(F, pw, norm), ver)
         ELSE Fail)

(***************************************************************************)
(* Entropy ledger.  One process issues generation requests; a request      *)
(* either carries its entropy (explicit: the caller's business, it must be *)
(* honoured, i.e. out = arg) or draws it (out must be new).  Event         *)
(*   e = [op |-> kind of request, explicit |-> BOOLEAN, arg, out]          *)
(* Successor-set style: GenSucc(s, e) = {} means the event is not allowed. *)
(***************************************************************************)
LedgerInit == [issued |-> {}, first |-> <<>>]      \* first: op -> the first value drawn by a request of that kind

FirstOf(s, op) == IF op \in DOMAIN s.first THEN s.first[op] ELSE <<>>
Remember(s, e) == [issued |-> s.issued \cup {<<e.op, e.out>>},
                   first  |-> IF e.op \in DOMAIN s.first THEN s.first
                              ELSE [x \in (DOMAIN s.first) \cup {e.op} |-> IF x = e.op THEN e.out ELSE s.first[x]]]

GenSucc(s, e) ==
    IF e.explicit THEN (IF e.out = e.arg THEN {s} ELSE {})
    ELSE IF e.out = <<>> \/ <<e.op, e.out>> \in s.issued THEN {} ELSE {Remember(s, e)}

\* named deviation: the default entropy of the two BIP38 generator functions (owner salt of the intermediate code, seed
\* of a new EC-multiplied key) is drawn once per process and reused by every later request without explicit entropy
DrawnOnceOps == {"intermediate", "intermediate-lot", "new"}
GenSuccDevDrawnOnce(s, e) ==
    IF ~e.explicit /\ e.op \in DrawnOnceOps /\ e.op \in DOMAIN s.first /\ e.out = s.first[e.op] THEN {s} ELSE {}
=============================================================================
