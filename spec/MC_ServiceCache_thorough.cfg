SPECIFICATION Spec
CONSTANTS
  Txs <- MCTxs
  NBlock = 3
  Limits = {1, 2, 3}
  Pages = {1, 2, 3}
  FeeVals = {10, 11}
  Groups = {"low", "medium"}
CONSTRAINT Bound
INVARIANT CacheFaithful
INVARIANT NoFabrication
INVARIANT ValueIsRequested
INVARIANT QueriesFaithful
INVARIANT QueriesNotFabricated
INVARIANT HistoryNotFabricated
PROPERTY NoStoreOnFailure
CHECK_DEADLOCK FALSE
