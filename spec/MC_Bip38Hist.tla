---------------------------- MODULE MC_Bip38Hist ----------------------------
(***************************************************************************)
(* Bounded model of Bip38Hist: every history of calls (decrypt / encrypt / *)
(* intermediate code) up to MaxSteps, for the memoryless implementation of *)
(* the specification and for each implementation with memory.             *)
(***************************************************************************)
EXTENDS Bip38Hist, TLC
CONSTANTS MaxSteps
VARIABLES impl, m, hist, blamed
vars == <<impl, m, hist, blamed>>

Init == impl \in HImpls /\ m = {} /\ hist = <<>> /\ blamed = FALSE
Call(c) == /\ Len(hist) < MaxSteps
           /\ \E x \in {HStep(impl, m, c)} : m' = x.m /\ blamed' = (blamed \/ x.ans # HAns(c))
           /\ hist' = Append(hist, c)
           /\ UNCHANGED impl
Dec == \E c \in HCalls : c.c = "dec" /\ Call(c)
Enc == \E c \in HCalls : c.c = "enc" /\ Call(c)
Inter == \E c \in HCalls : c.c = "inter" /\ Call(c)
Next == Dec \/ Enc \/ Inter
Spec == Init /\ [][Next]_vars

\* the answer of the specification never depends on the history
SpecNeverBlamed == impl = "spec" => ~blamed
\* the incremental judge and the judge of whole histories agree
SameJudge == blamed = HExposes(hist, impl)
\* a single call never exposes anything: only histories do
OneCallIsFine == Len(hist) <= 1 => ~blamed

P1 == HTok("ec", "P", "S", 1)
P2 == HTok("ec", "P", "S", 2)
P0 == HTok("ec", "P", "S", 0)
Q1 == HTok("ec", "Q", "S", 1)
T1 == HTok("ec", "P", "T", 1)
PL == HTok("plain", "P", "-", 0)
D(t, pw) == HCall("dec", t, pw)
\* the histories the property is about, each with the kinds of memory it exposes
ASSUME HExposed(<<D(P1, "P"), D(P2, "P")>>) = {"passfactor-by-passphrase-and-salt", "passfactor-by-passphrase-and-salt-prefix",
                                              "passfactor-by-salt", "passfactor-by-passphrase", "derived-key-by-passphrase"}
ASSUME "passfactor-by-salt" \in HExposed(<<D(P1, "Q"), D(P1, "P")>>)                 \* wrong passphrase first, then the right one
ASSUME "answer-by-token" \in HExposed(<<D(P1, "P"), D(P1, "Q")>>)                    \* right one first: the wrong one must still fail
ASSUME "answer-by-token" \in HExposed(<<D(PL, "Q"), D(PL, "P")>>)
ASSUME "passfactor-by-salt" \in HExposed(<<D(Q1, "Q"), D(P1, "P")>>)                 \* same salt, another passphrase
ASSUME HExposed(<<D(P0, "P"), D(P1, "P")>>) \cap {"passfactor-by-passphrase-and-salt-prefix", "passfactor-by-passphrase-and-salt"}
           = {"passfactor-by-passphrase-and-salt-prefix"}                             \* with and without lot sharing salt bytes
ASSUME "passfactor-by-passphrase" \in HExposed(<<D(P1, "P"), D(T1, "P")>>)
ASSUME "derived-key-by-passphrase" \in HExposed(<<D(P1, "P"), D(PL, "P"), D(P1, "P")>>)   \* a plain key between
ASSUME "intermediate-by-passphrase-and-salt" \in HExposed(<<HCall("inter", P1, "P"), HCall("inter", P2, "P")>>)
ASSUME HExposed(<<D(P1, "P"), D(P1, "P")>>) = {}                                      \* the same key twice
ASSUME \A i \in HImpls \ {"spec"} : \E h \in Histories(2) : HExposes(h, i)
ASSUME \A h \in Histories(2) : ~HExposes(h, "spec")
=============================================================================
