----------------------------- MODULE MC_SigHash -----------------------------
(* Bounded model of the commitment structure: two-input transactions over all pairs of input kinds, one field        *)
(* mutated at a time.  Invariant (what consensus says a SIGHASH_ALL signature of input i commits to): the digest     *)
(* term changes exactly when a committed field changes - all outpoints, all sequences, all outputs, version,         *)
(* locktime, the script code of input i only, and the amount of input i iff it is a witness input.                   *)
EXTENDS SigHash, TLC
VARIABLES k1, k2, field
MCKinds == {"p2pkh", "p2pk", "p2sh-multisig", "p2wpkh", "p2sh-p2wpkh", "p2wsh-multisig"}
Fields == {"version", "locktime", "in1.outpoint", "in2.outpoint", "in1.seq", "in2.seq", "out.value", "out.script",
           "in1.amount", "in2.amount", "in1.key", "in2.key", "in1.scriptsig", "in2.witness"}
MkIn(kind, n) == [txid |-> Rep(n, 32), vout |-> <<n, 0, 0, 0>>, script |-> <<>>, seq |-> <<255, 255, 255, 250 + n>>, wit |-> <<>>,
                  kind |-> kind, amount |-> <<n, 0, 0, 0, 1, 0, 0, 0>>, pkh |-> Rep(10 + n, 20), pub |-> <<2>> \o Rep(20 + n, 32),
                  keys |-> << <<2>> \o Rep(30 + n, 32), <<3>> \o Rep(40 + n, 32) >>, m |-> 1]
Base == [version |-> <<2, 0, 0, 0>>, segwit |-> FALSE, locktime |-> <<7, 0, 0, 0>>,
         ins |-> <<MkIn(k1, 1), MkIn(k2, 2)>>, outs |-> <<[value |-> <<1, 2, 3, 4, 5, 0, 0, 0>>, script |-> <<81>>]>>]
BumpKey(in) == [in EXCEPT !.pkh = Rep(99, 20), !.pub = <<3>> \o Rep(99, 32), !.keys = << <<2>> \o Rep(98, 32), @[2] >>]
Mut(tx, f) ==
  CASE f = "version" -> [tx EXCEPT !.version = <<1, 0, 0, 0>>]
    [] f = "locktime" -> [tx EXCEPT !.locktime = <<8, 0, 0, 0>>]
    [] f = "in1.outpoint" -> [tx EXCEPT !.ins[1].vout = <<9, 0, 0, 0>>]
    [] f = "in2.outpoint" -> [tx EXCEPT !.ins[2].txid = Rep(77, 32)]
    [] f = "in1.seq" -> [tx EXCEPT !.ins[1].seq = <<0, 0, 0, 0>>]
    [] f = "in2.seq" -> [tx EXCEPT !.ins[2].seq = <<0, 0, 0, 0>>]
    [] f = "out.value" -> [tx EXCEPT !.outs[1].value = <<1, 2, 3, 4, 5, 0, 0, 1>>]
    [] f = "out.script" -> [tx EXCEPT !.outs[1].script = <<82>>]
    [] f = "in1.amount" -> [tx EXCEPT !.ins[1].amount = <<0, 0, 0, 0, 2, 0, 0, 0>>]
    [] f = "in2.amount" -> [tx EXCEPT !.ins[2].amount = <<0, 0, 0, 0, 2, 0, 0, 0>>]
    [] f = "in1.key" -> [tx EXCEPT !.ins[1] = BumpKey(@)]
    [] f = "in2.key" -> [tx EXCEPT !.ins[2] = BumpKey(@)]
    [] f = "in1.scriptsig" -> [tx EXCEPT !.ins[1].script = <<1, 1>>]
    [] OTHER -> [tx EXCEPT !.ins[2].wit = << <<1>> >>]
\* what a SIGHASH_ALL signature of input i commits to
Committed(tx, i, f) ==
    \/ f \in {"version", "locktime", "in1.outpoint", "in2.outpoint", "in1.seq", "in2.seq", "out.value", "out.script"}
    \/ (f = "in1.key" /\ i = 1) \/ (f = "in2.key" /\ i = 2)
    \/ (f = "in1.amount" /\ i = 1 /\ tx.ins[1].kind \in SegwitKinds)
    \/ (f = "in2.amount" /\ i = 2 /\ tx.ins[2].kind \in SegwitKinds)
Init == k1 \in MCKinds /\ k2 \in MCKinds /\ field \in Fields
Next == UNCHANGED <<k1, k2, field>>
Spec == Init /\ [][Next]_<<k1, k2, field>>
CommitmentExact == \A i \in {1, 2} : (Digest(Base, i) # Digest(Mut(Base, field), i)) <=> Committed(Base, i, field)
InputsDiffer == Digest(Base, 1) # Digest(Base, 2)
\* ---- BIP143 with the other hash types: what a signature of witness input i commits to
HashTypes == {1, 2, 3, 129, 130, 131}
Base2 == [Base EXCEPT !.outs = @ \o <<[value |-> <<9, 9, 0, 0, 0, 0, 0, 0>>, script |-> <<83>>]>>]       \* two outputs
Mut2(tx, f) == IF f = "out2.value" THEN [tx EXCEPT !.outs[2].value = <<9, 9, 0, 0, 0, 0, 0, 1>>] ELSE Mut(tx, f)
\* the role of field f seen from input i (output k is "at the index" of input k), then SigHash!CommitsHT
Role(i, f) ==
    LET other == IF i = 1 THEN "in2" ELSE "in1"
        own == IF i = 1 THEN "in1" ELSE "in2" IN
    CASE f \in {"version", "locktime"} -> f
      [] f = own \o ".outpoint" -> "own.outpoint" [] f = own \o ".seq" -> "own.seq" [] f = own \o ".key" -> "own.key"
      [] f = own \o ".amount" -> "own.amount"
      [] f = other \o ".outpoint" -> "other.outpoint" [] f = other \o ".seq" -> "other.seq"
      [] f \in {"out.value", "out.script"} -> IF i = 1 THEN "out.same" ELSE "out.other"
      [] f = "out2.value" -> IF i = 2 THEN "out.same" ELSE "out.other"
      [] OTHER -> "none"
CommittedHT(tx, i, f, ht) == Role(i, f) # "none" /\ CommitsHT(Role(i, f), ht)
HashTypeCommitment ==
    \A i \in {1, 2}, ht \in HashTypes :
        Base2.ins[i].kind \in SegwitKinds =>
            \A f \in {field, "out2.value"} :
                (DigestHT(Base2, i, ht) # DigestHT(Mut2(Base2, f), i, ht)) <=> CommittedHT(Base2, i, f, ht)
HashTypeAllIsDefault == \A i \in {1, 2} : Base.ins[i].kind \in SegwitKinds => DigestHT(Base, i, 1) = Digest(Base, i)
HashTypesDiffer == \A i \in {1, 2}, a, b \in HashTypes : a # b => DigestHT(Base2, i, a) # DigestHT(Base2, i, b)
=============================================================================
