SPECIFICATION Spec
CONSTANTS
  MaxDamage = 1
  StrLen = 5
  Wide = TRUE
INVARIANT B58Bijective
INVARIANT B58RoundTrip
INVARIANT B58Foreign
INVARIANT ChkSeedVerdict
INVARIANT ChkAcceptedCanonical
INVARIANT ChkLeadingOnes
INVARIANT ChkDevPad
INVARIANT ChkDevFold
INVARIANT ChkDevXCheck
INVARIANT ChkSeedHasIO
INVARIANT SegSeedRoundTrip
INVARIANT SegUpperAccepted
INVARIANT SegQPSeed
INVARIANT SegDamageRejected
INVARIANT SegWrongConstant
INVARIANT SegUnknownHrp
CHECK_DEADLOCK FALSE
