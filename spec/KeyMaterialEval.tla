--------------------------- MODULE KeyMaterialEval ---------------------------
(***************************************************************************)
(* Conformance binding for KeyMaterial (C04).  TLC reads records: what was *)
(* handed to the implementation and what it answered.  Primitive values    *)
(* are collected in fact tables (sequences of [f, m, v], v = primitive f   *)
(* applied to the byte string m by harness/ref.py), see Solve below.       *)
(* The verdict is total:                                                   *)
(*   [v |-> "ok"]                         the answer is what the specification says                *)
(*   [v |-> "need", exp |-> requests]     (intermediate) primitive values the specification needs   *)
(*   [v |-> clause, dev |-> name, exp]    disagreement; dev names the deviation (below) whose       *)
(*                                        predicted result is exactly what was observed, else ""    *)
(* Python only transports values; which bytes are hashed, compared, refused is decided here.       *)
(***************************************************************************)
EXTENDS KeyMaterial, Json, IOUtils, TLC

Recs == ndJsonDeserialize(IOEnv.IN_FILE)

Ok == [v |-> "ok", dev |-> "", exp |-> <<>>]
Bad(clause, dev, exp) == [v |-> clause, dev |-> dev, exp |-> exp]
RECURSIVE SetSeq(_)
SetSeq(S) == IF S = {} THEN <<>> ELSE LET x == CHOOSE x \in S : TRUE IN <<x>> \o SetSeq(S \ {x})
Need(q) == [v |-> "need", dev |-> "", exp |-> SetSeq(q)]

Fact(r, f, m) == LET S == {i \in DOMAIN r.facts : r.facts[i].f = f /\ r.facts[i].m = m} IN
                 IF S = {} THEN <<>> ELSE r.facts[CHOOSE i \in S : TRUE].v

(* ---------------------------------------------------------------- named deviations ------------------------------ *)
\* private scalars are not range checked.  k >= n, k # 0 (mod n): the key object carries the point (k mod n)*G
\* (the repository's tests pin this for 64-byte hex strings) ...
DevScalarAbove == "scalar-above-n-reduced-mod-n"
\* ... and k = 0 (mod n), for which no public key exists: the key object carries the "point" x = y = 0
DevScalarZero == "scalar-zero-mod-n-accepted"
\* the integer 0 is taken for "no key given": a fresh random key is generated instead of refusing
DevIntZero == "int-zero-generates-random-key"
\* public keys are not validated: any prefix-02/03/04 encoding (and any coordinate pair) of the right length becomes
\* a key object carrying the x it was given
DevPubUnchecked == "public-key-not-checked-on-curve"
\* p2tr address of a key: the witness program is SHA256(serialized key) instead of the BIP341 output key
DevTrSha == "p2tr-program-is-sha256-of-key"
\* a 32-byte-program type (p2wsh, p2tr) asked for in base58: Base58Check(p2pkh version || 32-byte hash)
DevB58Long == "base58-address-with-32-byte-hash"
\* Key.address(compressed=True) on a key imported as uncompressed still hashes the uncompressed serialization
DevCompArg == "compressed-argument-ignored-for-uncompressed-key"

(* ---------------------------------------------------------------- key objects ----------------------------------- *)
\* what an accepted key object must report (r: observation, pt: the point, cexp: compressed?)
KeyClauses(O(_, _), r, pt, cexp) ==
    IF r.pubc # SerC(pt) THEN Bad("public-compressed", "", SerC(pt))
    ELSE IF r.pubu # SerU(pt) THEN Bad("public-uncompressed", "", SerU(pt))
    ELSE IF r.px # pt.x \/ r.py # pt.y THEN Bad("public-point", "", pt.x \o pt.y)
    ELSE IF r.comp # cexp THEN Bad("compressed-flag", "", <<>>)
    ELSE IF r.pubhex # Ser(pt, cexp) THEN Bad("public-hex", "", Ser(pt, cexp))
    ELSE LET h == H160(O, Ret(Ser(pt, cexp))) IN
         IF h.q # {} THEN Need(h.q)
         ELSE IF r.h160 # h.v THEN Bad("hash160", "", h.v) ELSE Ok

\* an uncompressed WIF (33-byte payload) whose scalar ends in the byte 01 is taken for a compressed WIF: the byte is
\* stripped as if it were the compression marker and the remaining 31 bytes become the secret
DevWif01 == "wif-uncompressed-scalar-ending-01-read-as-compressed"
\* (where the remaining 31 bytes are not a valid scalar - k = 1 - the import may then be refused for that reason)
Wif01(r) == /\ r.fmt = "wif" /\ Len(r.k) = 32 /\ r.k[32] = 1
            /\ \/ (r.acc /\ TrimLead(r.sec) = TrimLead(SubSeq(r.k, 1, 31)) /\ r.comp)
               \/ (~r.acc /\ ~ValidScalar(SubSeq(r.k, 1, 31)))

JudgePriv(O(_, _), r) ==
    LET key == PubOfScalar(O, r.k, OrderN) IN
    IF Wif01(r) THEN Bad(IF r.acc THEN "secret" ELSE "valid-private-key-refused", DevWif01, r.k)
    ELSE IF key.q # {} THEN Need(key.q)
    ELSE IF key.v.ok THEN
         IF ~r.acc THEN Bad("valid-private-key-refused", "", SerC(key.v))
         ELSE IF TrimLead(r.sec) # TrimLead(r.k) THEN Bad("secret", "", r.k)
         ELSE KeyClauses(O, r, key.v, CompOfPriv(r.fmt, r.param))
    ELSE IF ~r.acc THEN Ok
    ELSE IF r.fmt = "int" /\ BEZero(r.k) THEN Bad("invalid-scalar-accepted", DevIntZero, <<>>)
    ELSE LET g == Ask(O, "ec_mul_G", Ret(r.k)) IN              \* the deviation's prediction
         IF g.q # {} THEN Need(g.q)
         ELSE Bad("invalid-scalar-accepted",
                  IF g.v = <<0>> THEN (IF r.pubc = <<2>> \o Zeros(32) THEN DevScalarZero ELSE "")
                  ELSE IF r.pubc = SerC(Split(g.v)) THEN DevScalarAbove ELSE "", <<>>)

JudgePub(O(_, _), r) ==
    LET key == DecodePub(O, [pre |-> r.pre, x |-> r.x, y |-> r.y], FieldP) IN
    IF key.q # {} THEN Need(key.q)
    ELSE IF key.v.ok THEN
         IF ~r.acc THEN Bad("valid-public-key-refused", "", SerC(key.v))
         ELSE KeyClauses(O, r, key.v, CompOfPub(r.fmt, r.param))
    ELSE IF ~r.acc THEN Ok
    ELSE Bad("invalid-public-key-accepted",
             IF r.pre \in {2, 3, 4} /\ Len(r.x) = 32 /\ Len(r.pubc) = 33 /\ Tail(r.pubc) = r.x THEN DevPubUnchecked ELSE "",
             <<>>)

(* ---------------------------------------------------------------- addresses ------------------------------------- *)
Hrp(net) == NetOf(net).hrp

AddrDeviation(O(_, _), r) ==
    IF r.t = "p2tr" /\ r.src # "hash" /\ r.e = "bech32"
    THEN Map1(LAMBDA h : IF r.got = SegwitEncode(Hrp(r.net), 1, h) THEN DevTrSha ELSE "",
              S256(O, DataOf(O, r.src, r.d, r.comp)))
    ELSE IF r.e = "base58" /\ r.t \in {"p2wsh", "p2tr"}
    THEN LET h == IF r.src = "hash" THEN Ret(r.d) ELSE S256(O, DataOf(O, r.src, r.d, r.comp))
             pre == Map1(LAMBDA x : <<NetOf(r.net).pkh>> \o x, h)
         IN Map2(LAMBDA p, c : IF r.got = B58Encode(p \o Take(c, 4)) THEN DevB58Long ELSE "", pre, Ask(O, "sha256d", pre))
    ELSE IF r.route = "key-compressed-arg" /\ r.src = "key" /\ r.comp
    THEN Map1(LAMBDA a : IF r.got = a THEN DevCompArg ELSE "", StdAddr(O, r.net, r.t, "key", r.d, FALSE))
    ELSE Ret("")

WithDeviation(O(_, _), r, clause, exp) ==
    LET dv == AddrDeviation(O, r) IN IF dv.q # {} THEN Need(dv.q) ELSE Bad(clause, dv.v, exp)

\* r.got equals the standard address of one of the types in S (at most four) ?
OrElse(a, b) == IF a.q # {} THEN a ELSE IF a.v THEN a ELSE b
GotAmong(O(_, _), r, S) ==
    LET us == SetSeq(S)
        T(i) == IF i > Len(us) THEN Ret(FALSE)
                ELSE Map1(LAMBDA a : a = r.got, StdAddr(O, r.net, us[i], r.src, r.d, r.comp))
    IN OrElse(T(1), OrElse(T(2), OrElse(T(3), T(4))))

JudgeAddr(O(_, _), r) ==
    IF r.route = "default"                         \* no type / encoding chosen: any standard address of this key
    THEN IF ~r.acc THEN Bad("address-refused", "", <<>>)
         ELSE LET g == GotAmong(O, r, {"p2pkh", "p2wpkh"}) IN
              IF g.q # {} THEN Need(g.q) ELSE IF g.v THEN Ok ELSE Bad("default-address-not-standard", "", <<>>)
    ELSE IF Compatible(r.t, r.e)
    THEN LET std == StdAddr(O, r.net, r.t, r.src, r.d, r.comp) IN
         IF std.q # {} THEN Need(std.q)
         ELSE IF r.acc /\ r.got = std.v THEN Ok
         ELSE IF ~r.acc /\ UncompressedSegwit(r.t, r.src, r.d, r.comp) THEN Ok       \* refusing is the standard behaviour
         ELSE WithDeviation(O, r, IF r.acc THEN "address" ELSE "address-refused", std.v)
    ELSE IF ~r.acc THEN Ok
    ELSE LET g == GotAmong(O, r, AltTypes(r.t, r.e, r.src)) IN
         IF g.q # {} THEN Need(g.q)
         ELSE IF g.v THEN Ok
         ELSE WithDeviation(O, r, "no-standard-form-but-nonstandard-address-returned", <<>>)

(* ---------------------------------------------------------------- call histories -------------------------------- *)
DevCache == "address-cache-ignores-script-type-and-compressed"
\* r.obj, r.wt, r.net (network at creation), r.d (scalar), r.comp0, r.calls; r.acc / r.got: the answer to the last call
JudgeHist(O(_, _), r) ==
    LET last == r.calls[Len(r.calls)]
        net  == HistNet(r.net, r.calls)
        cs   == SetSeq(HistCandidates(r.obj, r.wt, r.comp0, r.calls))
        T(i) == IF i > Len(cs) THEN Ret(FALSE)
                ELSE Map1(LAMBDA a : a = r.got, StdAddrP(O, net, cs[i][1], "key", r.d, cs[i][2], last.pfx))
        g == OrElse(T(1), OrElse(T(2), OrElse(T(3), OrElse(T(4), OrElse(T(5), OrElse(T(6), OrElse(T(7), T(8))))))))
    IN IF Len(cs) > 8 \/ cs = <<>> THEN Bad("history-candidates", "", <<>>)
       ELSE IF ~r.acc THEN (IF \E i \in 1..Len(cs) : UncompressedSegwit(cs[i][1], "key", r.d, cs[i][2]) THEN Ok
                            ELSE Bad("address-refused-after-history", "", <<>>))
       ELSE IF g.q # {} THEN Need(g.q)
       ELSE IF g.v THEN Ok
       ELSE LET e1 == StdAddrP(O, net, cs[1][1], "key", r.d, cs[1][2], last.pfx)
                \* named deviation: the Address object cached by an earlier address call is returned when the prefix
                \* given now equals the cached one and the encoding is the same; the script type and compressed
                \* arguments of the call are ignored - the answer is the address of this key under the given prefix
                \* for another script type / serialization
                ds   == SetSeq({<<t, c>> : t \in {u \in DefaultKeyTypes : last.e = "" \/ EncOf(u) = last.e}, c \in BOOLEAN})
                D(i) == IF i > Len(ds) THEN Ret(FALSE)
                        ELSE Map1(LAMBDA a : a = r.got, StdAddrP(O, net, ds[i][1], "key", r.d, ds[i][2], last.pfx))
                dv == IF last.pfx # <<>> /\ \E j \in 1..(Len(r.calls) - 1) : r.calls[j].op \in {"address", "address_uncompressed"}
                      THEN OrElse(D(1), OrElse(D(2), OrElse(D(3), OrElse(D(4), OrElse(D(5), D(6))))))
                      ELSE Ret(FALSE)
            IN IF dv.q # {} THEN Need(dv.q)
               ELSE Bad("address-after-history", IF dv.v THEN DevCache ELSE "", IF e1.q = {} THEN e1.v ELSE <<>>)

JudgeWith(r, facts) ==
    LET O(f, m) == Fact([facts |-> facts], f, m) IN
    CASE r.kind = "consts" -> [v |-> "ok", dev |-> "", exp |-> <<FieldP, OrderN>>]
      [] r.kind = "wif"    -> LET w == Wif(O, r.net, r.k, r.comp) IN          \* (G) input generation
                              IF w.q # {} THEN Need(w.q) ELSE [v |-> "ok", dev |-> "", exp |-> w.v]
      [] r.kind = "priv"   -> JudgePriv(O, r)
      [] r.kind = "pub"    -> JudgePub(O, r)
      [] r.kind = "addr"   -> JudgeAddr(O, IF r.route \in {"hdkey", "address-wt", "input-wt"}
                                               THEN [r EXCEPT !.t = WitnessTypeAddr(r.wt).t, !.e = WitnessTypeAddr(r.wt).e]
                                               ELSE r)
      [] r.kind = "hist"   -> JudgeHist(O, r)
      [] OTHER -> Bad("unknown-record-kind", "", <<>>)

(* The oracle loop.  Open requests of all records are written to a file, the helper named by the environment     *)
(* (harness/c04_prim.py: applies harness/ref.py to each requested byte string, nothing else) answers them, and  *)
(* the records concerned are judged again with the enlarged fact tables - until no verdict is "need".           *)
RECURSIVE Solve(_, _, _)
Solve(out, F, n) ==
    LET needy == {i \in DOMAIN out : out[i].v = "need"} IN
    IF needy = {} \/ n = 0 THEN out
    ELSE LET req  == TLCEval([i \in DOMAIN out |-> IF i \in needy THEN out[i].exp ELSE <<>>])
             fin  == IOEnv.IN_FILE \o ".req" \o ToString(n)
             fout == IOEnv.IN_FILE \o ".ans" \o ToString(n)
         IN IF JsonSerialize(fin, req) /\ IOExec(<<IOEnv.C04_PYTHON, IOEnv.C04_PRIM, fin, fout>>).exitValue = 0
            THEN LET ans == JsonDeserialize(fout)
                     F2  == TLCEval([i \in DOMAIN out |-> IF i \in needy THEN F[i] \o ans[i] ELSE F[i]])
                 IN Solve(TLCEval([i \in DOMAIN out |-> IF i \in needy THEN JudgeWith(Recs[i], F2[i]) ELSE out[i]]),
                          F2, n - 1)
            ELSE [i \in DOMAIN out |-> Bad("primitive-helper-failed", "", <<>>)]

Out == Solve(TLCEval([i \in 1..Len(Recs) |-> JudgeWith(Recs[i], <<>>)]), [i \in 1..Len(Recs) |-> <<>>], 12)
ASSUME ndJsonSerialize(IOEnv.OUT_FILE, Out)
=============================================================================
