------------------------------- MODULE Bip32 -------------------------------
(***************************************************************************)
(* BIP32 - hierarchical deterministic keys - written from the BIP text and *)
(* the statement of property C03.                                          *)
(*                                                                         *)
(* Everything structural is defined here and evaluated by TLC: which bytes *)
(* are handed to HMAC-SHA512 (00 || ser256(k) || ser32(i) for a hardened   *)
(* child, serP(K) || ser32(i) for a normal one), which half of the output  *)
(* is the key material and which the chain code, the addition modulo the   *)
(* group order (256-bit byte arithmetic of Bytes), the invalid-key rules,  *)
(* depth, parent fingerprint, child number, the 78-byte serialization and  *)
(* its Base58Check text, the path notation (m / M, decimal indices, the    *)
(* hardened markers ' h H p P, the meaning of an index >= 2^31) and the    *)
(* rule that a public parent has no hardened children.                     *)
(*                                                                         *)
(* The primitives HMAC-SHA512, HASH160, SHA-256d and the secp256k1 group   *)
(* (k*G, k*G+P, decoding of a SEC1 point) are uninterpreted: an application  *)
(* is a query q = [f |-> name, a |-> args] against an oracle table F,      *)
(*   Has(F, q) - the table knows q,   Val(F, q) - its value.               *)
(* Has/Val are CONSTANT operators.  The conformance module (Bip32Eval)     *)
(* binds them to facts computed by the harness with reference              *)
(* implementations; the model (MC_Bip32) binds the group to a cyclic group *)
(* of small prime order and HMAC to a table that is filled with arbitrary  *)
(* values, lazily (a random oracle).  A function whose next primitive      *)
(* application is unknown returns the queries it needs.                    *)
(*                                                                         *)
(* Results:  [st |-> "ok", val |-> v] | [st |-> "need", need |-> queries]  *)
(*           | [st |-> "err"]  (no key: the request must fail)             *)
(*                                                                         *)
(* OrderN (big-endian) and W (bytes of a scalar = bytes of a chain code =  *)
(* half of the HMAC output) are constants so that the model can run the    *)
(* very same operators over a toy group (W = 1).                           *)
(*                                                                         *)
(* Extended key:  [priv, k (W bytes, <<>> when public), K (point x || y),  *)
(*                 c, depth, fp (4 bytes), idx (4 bytes, big-endian)]      *)
(* Texts (paths, Base58) are sequences of ASCII codes.                     *)
(***************************************************************************)
EXTENDS Bytes, FiniteSets

CONSTANTS Has(_, _), Val(_, _), OrderN, W

Q(f, a)  == [f |-> f, a |-> a]
Ok(v)    == [st |-> "ok",   need |-> <<>>, val |-> v]
Need(qs) == [st |-> "need", need |-> qs,   val |-> <<>>]
Fail     == [st |-> "err",  need |-> <<>>, val |-> <<>>]

Miss(F, qs) == SelectSeq(qs, LAMBDA q : ~Has(F, q))
\* body is evaluated only when every query of qs is answered (TLC passes operator arguments by need)
Stage(F, qs, body) == IF Miss(F, qs) # <<>> THEN Need(Miss(F, qs)) ELSE body

QHmac(key, data) == Q("hmac512", <<key, data>>)      \* 2W bytes
QHash160(b)      == Q("hash160", <<b>>)
QSha256d(b)      == Q("sha256d", <<b>>)
QMulG(k)         == Q("ec_mul_g", <<k>>)             \* k*G as x || y; <<>> when k = 0 mod n
QMulGAdd(k, p)   == Q("ec_mul_g_add", <<k, p>>)      \* point(k) + P = k*G + P (P a point x || y); <<>> when infinity
QPoint(sec)      == Q("ec_point", <<sec>>)           \* point of a SEC1 encoding as x || y; <<>> when it is no curve point

(* ----------------------------- scalars ----------------------------------- *)
Zero4  == <<0, 0, 0, 0>>
ZeroW  == Rep(0, W)
NLE    == Trim(Rev(OrderN))
ToLE(s) == Trim(Rev(s))
\* W-byte big-endian scalar in 1 .. n-1
InRange(s) == Len(s) = W /\ s # ZeroW /\ CmpBE(s, OrderN) = -1
\* (a + b) mod n for a, b < n, W bytes big-endian
AddModN(a, b) == LET s == AddLE(ToLE(a), ToLE(b), 256)
                     r == IF CmpLE(s, NLE) >= 0 THEN SubLE(s, NLE, 256) ELSE s
                 IN Rev(PadLE(r, W))

\* serP: SEC1 compressed form of a point x || y
SerP(pt) == <<2 + (pt[2 * W] % 2)>> \o SubSeq(pt, 1, W)

BitcoinSeed == <<66, 105, 116, 99, 111, 105, 110, 32, 115, 101, 101, 100>>      \* "Bitcoin seed"

(* ----------------------------- keys -------------------------------------- *)
MkPriv(F, k, c, depth, fp, idx) ==
    Stage(F, <<QMulG(k)>>,
          IF Val(F, QMulG(k)) = <<>> THEN Fail
          ELSE Ok([priv |-> TRUE, k |-> k, K |-> Val(F, QMulG(k)), c |-> c, depth |-> depth, fp |-> fp, idx |-> idx]))

MkPub(K, c, depth, fp, idx) ==
    [priv |-> FALSE, k |-> <<>>, K |-> K, c |-> c, depth |-> depth, fp |-> fp, idx |-> idx]

\* the function N of BIP32: the public extended key of a private one
Neuter(key) == [key EXCEPT !.priv = FALSE, !.k = <<>>]

\* master key generation
Master(F, seed) ==
    LET q == QHmac(BitcoinSeed, seed) IN
    Stage(F, <<q>>,
          LET I == Val(F, q) IL == SubSeq(I, 1, W) IR == SubSeq(I, W + 1, 2 * W) IN
          IF ~InRange(IL) THEN Fail ELSE MkPriv(F, IL, IR, 0, Zero4, Zero4))

\* a master key given directly
DirectMaster(F, k, c) == IF ~InRange(k) \/ Len(c) # W THEN Fail ELSE MkPriv(F, k, c, 0, Zero4, Zero4)

Hardened(idx) == idx[1] >= 128        \* i >= 2^31

(* SEC1 encodings of a point x || y.  BIP32 knows one: serP is the COMPRESSED form, whatever the software object    *)
(* holding the key prefers for its addresses.                                                                    *)
SerU(pt) == <<4>> \o pt
EncP(pt, unc) == IF unc THEN SerU(pt) ELSE SerP(pt)

(* private parent -> private child.  `hard` selects the data formula; in BIP32 hard = Hardened(idx).  `unc`       *)
(* selects the encoding of the parent's point in the data and in the fingerprint; in BIP32 unc = FALSE.           *)
(* (The general form exists only to state what an implementation does that uses the wrong formula.)              *)
CKDprivG(F, par, idx, hard, unc) ==
    LET data == IF hard THEN <<0>> \o par.k \o idx ELSE EncP(par.K, unc) \o idx
        qh   == QHmac(par.c, data)
        qf   == QHash160(EncP(par.K, unc))
    IN Stage(F, <<qh, qf>>,
         LET I == Val(F, qh) IL == SubSeq(I, 1, W) IR == SubSeq(I, W + 1, 2 * W) IN
         IF CmpBE(IL, OrderN) >= 0 THEN Fail                                   \* parse256(IL) >= n
         ELSE LET ki == AddModN(IL, par.k) IN
              IF ki = ZeroW THEN Fail                                          \* k_i = 0
              ELSE IF par.depth >= 255 THEN Fail
              ELSE MkPriv(F, ki, IR, par.depth + 1, SubSeq(Val(F, qf), 1, 4), idx))

(* public parent -> public child (normal data formula; BIP32 defines it for idx < 2^31 only) *)
CKDpubG(F, par, idx, unc) ==
    LET data == EncP(par.K, unc) \o idx
        qh   == QHmac(par.c, data)
        qf   == QHash160(EncP(par.K, unc))
    IN Stage(F, <<qh, qf>>,
         LET I == Val(F, qh) IL == SubSeq(I, 1, W) IR == SubSeq(I, W + 1, 2 * W) IN
         IF CmpBE(IL, OrderN) >= 0 THEN Fail
         ELSE LET qa == QMulGAdd(IL, par.K) IN                                 \* K_i = point(parse256(IL)) + K_par
              Stage(F, <<qa>>,
                    IF Val(F, qa) = <<>> THEN Fail                             \* K_i is the point at infinity
                    ELSE IF par.depth >= 255 THEN Fail
                    ELSE Ok(MkPub(Val(F, qa), IR, par.depth + 1, SubSeq(Val(F, qf), 1, 4), idx))))

CKDpriv(F, par, idx) == IF ~par.priv THEN Fail ELSE CKDprivG(F, par, idx, Hardened(idx), FALSE)
CKDpub(F, par, idx)  == IF Hardened(idx) THEN Fail ELSE CKDpubG(F, Neuter(par), idx, FALSE)

(* ----------------------------- key objects and their history -------------------------------------------------- *)
(* An implementation holds an extended key in an object that also answers questions about it (addresses in        *)
(* several forms, serializations, hashes, dumps) and may cache what it answered.  For BIP32 the object IS the      *)
(* extended key: derivation is a function of (k or K, c, depth, fingerprint data, index) and of nothing else.      *)
(*   - Observing a key does not change it:  Observe(key, o) = key  for every observer o, so any history of         *)
(*     observations before or between derivations leaves every derived key and every serialization as it is.      *)
(*   - Attributes of the object that are not part of the extended key - first of all whether it presents its       *)
(*     public key / address compressed or uncompressed - do not enter derivation either: serP is the compressed    *)
(*     encoding for every parent object.                                                                           *)
Observers == {"address", "address_uncompressed", "address_compressed_false", "address_obj", "wif", "wif_public",
              "wif_private", "wif_key", "public", "hash160", "fingerprint", "as_dict", "as_dict_private", "as_json",
              "info", "repr", "public_point", "public_uncompressed", "public_byte",
              "child_private", "child_public", "subkey_for_path"}      \* deriving a child does not change the parent either
Observe(key, o) == key
RECURSIVE AfterHistory(_, _)
AfterHistory(key, hist) == IF hist = <<>> THEN key ELSE AfterHistory(Observe(key, Head(hist)), Tail(hist))

(* ----------------------------- path notation ----------------------------- *)
Slash   == 47
Markers == {39, 72, 104, 80, 112}          \* ' H h P p
LowerM  == <<109>>
UpperM  == <<77>>

RECURSIVE SplitAt(_, _, _)
SplitAt(s, sep, cur) == IF s = <<>> THEN <<cur>>
                        ELSE IF s[1] = sep THEN <<cur>> \o SplitAt(Tail(s), sep, <<>>)
                        ELSE SplitAt(Tail(s), sep, Append(cur, s[1]))
Tokens(s) == SplitAt(s, Slash, <<>>)

IsDigits(s) == s # <<>> /\ \A i \in 1..Len(s) : s[i] \in 48..57

\* an element: decimal digits, optionally followed by one hardened marker.  v: the value, minimal little-endian bytes
ParseElem(tok) ==
    LET m    == tok # <<>> /\ tok[Len(tok)] \in Markers
        body == IF m THEN SubSeq(tok, 1, Len(tok) - 1) ELSE tok
    IN IF ~IsDigits(body) THEN [ok |-> FALSE, marker |-> FALSE, v |-> <<>>]
       ELSE [ok |-> TRUE, marker |-> m, v |-> ConvBEtoLE([i \in 1..Len(body) |-> body[i] - 48], 10, 256)]

Lt31(v) == Len(v) < 4 \/ (Len(v) = 4 /\ v[4] < 128)
Lt32(v) == Len(v) <= 4
Is31(v) == v = <<0, 0, 0, 128>>
Ser32(v) == Rev(PadLE(v, 4))
SetTop(idx) == [idx EXCEPT ![1] = @ + 128]

\* m: the key itself; M: its public extended key; no prefix: the key itself (relative path)
ParsePath(toks) ==
    IF toks # <<>> /\ toks[1] = LowerM THEN [forcePub |-> FALSE, elems |-> Tail(toks)]
    ELSE IF toks # <<>> /\ toks[1] = UpperM THEN [forcePub |-> TRUE, elems |-> Tail(toks)]
    ELSE [forcePub |-> FALSE, elems |-> toks]

(* named deviations: what an implementation is known to do instead (see ElemStep) *)
DevPubMarker == "public-derivation-ignores-hardened-marker"
DevPub231    == "public-derivation-accepts-index-2^31"
DevBare      == "private-derivation-of-bare-index-ge-2^31-uses-normal-formula"
DevWrap      == "hardened-marker-on-index-ge-2^31-not-refused"
\* an object with compressed = False hashes the UNCOMPRESSED encoding of its point: data of normal children and fingerprint
DevUncomp    == "uncompressed-parent-object-derives-with-uncompressed-point"
AllDevs      == {DevPubMarker, DevPub231, DevBare, DevWrap, DevUncomp}

Range(s) == {s[i] : i \in 1..Len(s)}
DevOrder == <<DevPubMarker, DevPub231, DevBare, DevWrap, DevUncomp>>
ErrStep == [act |-> "err", idx |-> Zero4, hard |-> FALSE, lenient |-> FALSE, fired |-> <<>>]
Step(idx, hard, lenient, fired) == [act |-> "ckd", idx |-> idx, hard |-> hard, lenient |-> lenient, fired |-> fired]

(* One element of a path, applied to a private (priv = TRUE) or public key.                                     *)
(*   value < 2^31 with a marker:  the hardened child value + 2^31;  without: the normal child                  *)
(*   a bare value in [2^31, 2^32) IS a BIP32 index and denotes a hardened child (i >= 2^31 <=> hardened);       *)
(*      an implementation may also refuse this spelling (lenient)                                               *)
(*   a marker on a value >= 2^31, a value >= 2^32, anything that is not a number:  no key                       *)
(*   a hardened child of a public key:  no key                                                                  *)
(* D: the deviations enabled (the property is D = {}).                                                          *)
ElemStep(priv, pe, D) ==
    IF ~pe.ok \/ ~Lt32(pe.v) THEN ErrStep
    ELSE IF priv THEN
        IF pe.marker THEN
            IF Lt31(pe.v) THEN Step(SetTop(Ser32(pe.v)), TRUE, FALSE, <<>>)
            ELSE IF DevWrap \in D THEN Step(Ser32(pe.v), TRUE, FALSE, <<DevWrap>>)      \* "| 2^31" changes nothing
            ELSE ErrStep
        ELSE IF Lt31(pe.v) THEN Step(Ser32(pe.v), FALSE, FALSE, <<>>)
        ELSE IF DevBare \in D THEN Step(Ser32(pe.v), FALSE, FALSE, <<DevBare>>)        \* data = serP(K) || ser32(v)
        ELSE Step(Ser32(pe.v), TRUE, TRUE, <<>>)
    ELSE
        LET ign == pe.marker /\ DevPubMarker \in D                                        \* marker dropped
            f1  == IF ign THEN <<DevPubMarker>> ELSE <<>>
        IN IF pe.marker /\ ~ign THEN ErrStep
           ELSE IF Lt31(pe.v) THEN Step(Ser32(pe.v), FALSE, FALSE, f1)
           ELSE IF Is31(pe.v) /\ DevPub231 \in D THEN Step(Ser32(pe.v), FALSE, FALSE, f1 \o <<DevPub231>>)
           ELSE ErrStep

ApplyStepU(F, key, st, unc) ==
    IF st.act = "err" THEN Fail
    ELSE IF key.priv THEN CKDprivG(F, key, st.idx, st.hard, unc)
    ELSE CKDpubG(F, key, st.idx, unc)

ApplyStep(F, key, st) ==
    IF st.act = "err" THEN Fail
    ELSE IF key.priv THEN CKDprivG(F, key, st.idx, st.hard, FALSE)
    ELSE CKDpubG(F, key, st.idx, FALSE)

StepTok(F, key, tok, D) == ApplyStep(F, key, ElemStep(key.priv, ParseElem(tok), D))

\* the plan of a path: independent of key material (the mode is fixed by the start key and the root marker)
Plan(priv, elems, D) ==
    LET steps == [i \in 1..Len(elems) |-> ElemStep(priv, ParseElem(elems[i]), D)] IN
    [ok      |-> \A i \in 1..Len(steps) : steps[i].act # "err",
     steps   |-> steps,
     lenient |-> \E i \in 1..Len(steps) : steps[i].lenient,
     fired   |-> UNION {Range(steps[i].fired) : i \in 1..Len(steps)}]

\* the key of a whole path: the steps one after the other (Bip32Eval judges the same steps side by side, each from
\* the key observed for the preceding prefix)
RECURSIVE Run(_, _, _)
Run(F, res, steps) == IF res.st # "ok" \/ steps = <<>> THEN res
                      ELSE Run(F, ApplyStep(F, res.val, Head(steps)), Tail(steps))

(* ----------------------------- element classes of the bounded enumerations -------------------------------- *)
Dg(ds) == [i \in 1..Len(ds) |-> 48 + ds[i]]
T31m1 == Dg(<<2, 1, 4, 7, 4, 8, 3, 6, 4, 7>>)      \* 2^31 - 1
T31   == Dg(<<2, 1, 4, 7, 4, 8, 3, 6, 4, 8>>)      \* 2^31
T32m1 == Dg(<<4, 2, 9, 4, 9, 6, 7, 2, 9, 5>>)      \* 2^32 - 1
T32   == Dg(<<4, 2, 9, 4, 9, 6, 7, 2, 9, 6>>)      \* 2^32
ElemClasses == <<
    <<48>>, <<49>>, T31m1,                                             \* 0  1  2^31-1
    <<48, 39>>, <<48, 104>>, <<48, 72>>, <<48, 112>>, <<48, 80>>,      \* 0' 0h 0H 0p 0P
    Append(T31m1, 39),                                                 \* (2^31-1)'
    T31, T32m1,                                                        \* bare 2^31, bare 2^32-1: hardened indices
    T32,                                                               \* out of range
    <<>>, <<45, 49>>,                                                  \* empty, -1
    Append(T31, 104),                                                  \* marker on a value >= 2^31
    <<48, 48, 55>>,                                                    \* 007
    <<120>> >>                                                         \* x

\* all sequences of exactly d elements
RECURSIVE ShapesOfLen(_)
ShapesOfLen(d) == IF d = 0 THEN << <<>> >>
                  ELSE LET prev == ShapesOfLen(d - 1) IN
                       Concat([i \in 1..Len(prev) |-> [j \in 1..Len(ElemClasses) |-> Append(prev[i], ElemClasses[j])]])

(* ----------------------------- serialization ----------------------------- *)
B58A == <<49, 50, 51, 52, 53, 54, 55, 56, 57, 65, 66, 67, 68, 69, 70, 71, 72, 74, 75, 76, 77, 78, 80, 81, 82, 83, 84,
          85, 86, 87, 88, 89, 90, 97, 98, 99, 100, 101, 102, 103, 104, 105, 106, 107, 109, 110, 111, 112, 113, 114,
          115, 116, 117, 118, 119, 120, 121, 122>>

RECURSIVE LeadCount(_, _)
LeadCount(s, x) == IF s = <<>> \/ s[1] # x THEN 0 ELSE 1 + LeadCount(Tail(s), x)

B58Enc(b) == LET nz   == LeadCount(b, 0)
                 digs == Rev(ConvBEtoLE(Drop(b, nz), 256, 58))
             IN Rep(49, nz) \o [i \in 1..Len(digs) |-> B58A[digs[i] + 1]]

\* digit value of a character code (99: not in the alphabet); a constant table, evaluated once
B58Idx == [c \in 0..127 |-> IF \E k \in 1..58 : B58A[k] = c THEN (CHOOSE k \in 1..58 : B58A[k] = c) - 1 ELSE 99]
IsB58(s) == \A i \in 1..Len(s) : s[i] \in 0..127 /\ B58Idx[s[i]] < 58
B58Digit(c) == B58Idx[c]

(* value of a digit string in base 58 as little-endian limbs in base 65536, two digits per step                 *)
(* (3364 * 65536 + 3363 < 2^31)                                                                                  *)
RECURSIVE B58Fold(_, _)
B58Fold(digs, acc) ==
    IF digs = <<>> THEN acc
    ELSE IF Len(digs) % 2 = 1 THEN B58Fold(Tail(digs), MulSmall(acc, 58, digs[1], 65536))
    ELSE B58Fold(Drop(digs, 2), MulSmall(acc, 3364, digs[1] * 58 + digs[2], 65536))
LimbsToBytesLE(l) == Trim(Concat([i \in 1..Len(l) |-> <<l[i] % 256, l[i] \div 256>>]))

(* text is THE Base58 encoding of the byte string b: same number of leading '1' as leading zero bytes, the rest  *)
(* is the number in base 58 without leading zero digit.  Equivalent to text = B58Enc(b), evaluated by            *)
(* multiplication (decoding) instead of division, which TLC does an order of magnitude faster.                   *)
IsB58Of(text, b) ==
    /\ IsB58(text)
    /\ LET n1   == LeadCount(text, 49)
           rest == Drop(text, n1)
       IN /\ n1 = LeadCount(b, 0)
          /\ LimbsToBytesLE(B58Fold([i \in 1..Len(rest) |-> B58Digit(rest[i])], <<>>)) = ToLE(b)

Base58Check(F, payload) ==
    LET q == QSha256d(payload) IN Stage(F, <<q>>, Ok(B58Enc(payload \o SubSeq(Val(F, q), 1, 4))))
\* the bytes whose Base58 text is the Base58Check encoding of payload
Base58CheckBytes(F, payload) ==
    LET q == QSha256d(payload) IN Stage(F, <<q>>, Ok(payload \o SubSeq(Val(F, q), 1, 4)))

\* version bytes of extended keys (BIP32, SLIP-132), single-signature script types
Versions == [bitcoin  |-> [legacy        |-> [pub |-> <<4, 136, 178, 30>>,  prv |-> <<4, 136, 173, 228>>],
                           p2sh_segwit   |-> [pub |-> <<4, 157, 124, 178>>, prv |-> <<4, 157, 120, 120>>],
                           segwit        |-> [pub |-> <<4, 178, 71, 70>>,   prv |-> <<4, 178, 67, 12>>]],
             testnet  |-> [legacy        |-> [pub |-> <<4, 53, 135, 207>>,  prv |-> <<4, 53, 131, 148>>],
                           p2sh_segwit   |-> [pub |-> <<4, 74, 82, 98>>,    prv |-> <<4, 74, 78, 40>>],
                           segwit        |-> [pub |-> <<4, 95, 28, 246>>,   prv |-> <<4, 95, 24, 188>>]],
             litecoin |-> [legacy        |-> [pub |-> <<1, 157, 164, 98>>,  prv |-> <<1, 157, 156, 254>>]]]

KnownVersion(net, wt) == net \in DOMAIN Versions /\ wt \in DOMAIN Versions[net]

\* the 78 bytes: version, depth, parent fingerprint, child number, chain code, key data
SerPub(key, ver)  == ver \o <<key.depth>> \o key.fp \o key.idx \o key.c \o SerP(key.K)
SerPriv(key, ver) == ver \o <<key.depth>> \o key.fp \o key.idx \o key.c \o <<0>> \o key.k
=============================================================================
