SPECIFICATION Spec
CONSTANTS
  Providers = {"p1", "p2", "p3"}
  MaxProvidersRange = {1, 2}
  MaxErrorsRange = {1, 2, 3, 4}
INVARIANT Emit
