---------------------------- MODULE TransportEval ----------------------------
(* (G) the realizations of the abstract response kinds, as the harness draws from them; (V) the kind of an exchange. *)
EXTENDS Transport, Json, IOUtils, TLC, Sequences, SequencesExt
Recs == ndJsonDeserialize(IOEnv.IN_FILE)
Judge(r) ==
    CASE r.k = "realizations" -> [ok |-> SetToSeq({x \in Exchanges : Answers(x)}),
                                  raise |-> SetToSeq({x \in Realizations("raise") : Exact(x)}),
                                  emptyish |-> SetToSeq({x \in Exchanges : Emptyish(x)}),
                                  malformed |-> SetToSeq({x \in Exchanges : Malformed(x)})]
      [] r.k = "kinds" -> [kinds |-> SetToSeq(Kinds(r.x)), answers |-> Answers(r.x)]
      [] OTHER -> [error |-> "unknown record kind"]
Out == [i \in 1..Len(Recs) |-> Judge(Recs[i])]
ASSUME ndJsonSerialize(IOEnv.OUT_FILE, Out)
=============================================================================
