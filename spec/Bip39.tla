------------------------------- MODULE Bip39 -------------------------------
(***************************************************************************)
(* BIP39: mnemonic sentences.  Written from the BIP, not from the code.     *)
(*                                                                         *)
(*   ENT  bits of entropy, ENT in {128,160,192,224,256}                    *)
(*   CS   = ENT/32 checksum bits = the first CS bits of SHA-256(entropy)   *)
(*   the ENT+CS bits are cut into groups of 11 bits, each group is the     *)
(*   index (0..2047) of a word of the list; MS = (ENT+CS)/11 words.        *)
(*   seed = PBKDF2-HMAC-SHA512(password = UTF-8(NFKD(sentence)),           *)
(*            salt = "mnemonic" o UTF-8(NFKD(passphrase)), 2048 rounds,    *)
(*            64 bytes)                                                    *)
(*                                                                         *)
(* Entropy and digests are byte sequences (big-endian as in the BIP), a    *)
(* sentence is a sequence of word indices; text is a sequence of Unicode   *)
(* code points.  Primitives stay outside TLC (DESIGN 1.4): SHA-256 enters  *)
(* as the oracle fact `h` (digest bytes of the entropy, the first byte is  *)
(* enough), NFKD as the oracle fact "normal form of this text", PBKDF2 and *)
(* HMAC as terms [prim, pw, salt, ...] whose byte strings are built here   *)
(* and evaluated by harness/ref.py.  Everything structural - bit slicing,  *)
(* which bits are the checksum, what is rejected, which bytes are hashed - *)
(* is decided here.                                                        *)
(***************************************************************************)
EXTENDS Bytes, FiniteSets

EntLens    == {16, 20, 24, 28, 32}            \* bytes of entropy
WordCounts == {12, 15, 18, 21, 24}
CsLen(entlen)  == entlen \div 4                \* ENT/32 with ENT = 8*entlen
NWords(entlen) == (8 * entlen + CsLen(entlen)) \div 11
WordBits == 11
ListSize == 2048

(* ---------- bits (most significant first), non-recursive for speed ------ *)
Pow2(k) == 2 ^ k
BitsOf(s) == [k \in 1..(8 * Len(s)) |-> (s[((k - 1) \div 8) + 1] \div Pow2(7 - ((k - 1) % 8))) % 2]
IdxBits(idx) == [k \in 1..(WordBits * Len(idx)) |->
                    (idx[((k - 1) \div WordBits) + 1] \div Pow2(WordBits - 1 - ((k - 1) % WordBits))) % 2]
RECURSIVE Val(_, _, _)
Val(bits, from, n) == IF n = 0 THEN 0 ELSE 2 * Val(bits, from, n - 1) + bits[from + n - 1]   \* value of n bits at `from`
Regroup(bits, w) == [g \in 1..(Len(bits) \div w) |-> Val(bits, (g - 1) * w + 1, w)]

(* ---------- entropy -> sentence ----------------------------------------- *)
CsBits(h, entlen) == SubSeq(BitsOf(<<h[1]>>), 1, CsLen(entlen))       \* CS <= 8: the first digest byte suffices
Indices(ent, h)   == Regroup(BitsOf(ent) \o CsBits(h, Len(ent)), WordBits)

(* ---------- sentence -> entropy ----------------------------------------- *)
WellFormed(idx) == Len(idx) \in WordCounts /\ \A i \in 1..Len(idx) : idx[i] \in 0..(ListSize - 1)
\* payload of a well-formed sentence: the entropy bytes and the checksum bits it carries
Decode(idx) == LET bits == IdxBits(idx)
                   cs   == Len(idx) \div 3
                   eb   == WordBits * Len(idx) - cs
               IN [ent |-> Regroup(SubSeq(bits, 1, eb), 8), cs |-> SubSeq(bits, eb + 1, Len(bits))]
\* h: SHA-256 of Decode(idx).ent (oracle fact)
Valid(idx, h) == WellFormed(idx) /\ Decode(idx).cs = CsBits(h, Len(Decode(idx).ent))

(* ---------- text ---------------------------------------------------------*)
Utf8One(c) == IF c < 128 THEN <<c>>
              ELSE IF c < 2048 THEN <<192 + (c \div 64), 128 + (c % 64)>>
              ELSE IF c < 65536 THEN <<224 + (c \div 4096), 128 + ((c \div 64) % 64), 128 + (c % 64)>>
              ELSE <<240 + (c \div 262144), 128 + ((c \div 4096) % 64), 128 + ((c \div 64) % 64), 128 + (c % 64)>>
Utf8(cps) == LET f[j \in 0..Len(cps)] == IF j = 0 THEN <<>> ELSE f[j - 1] \o Utf8One(cps[j]) IN f[Len(cps)]
\* the sentence as text: the words (code point sequences) separated by ONE space U+0020 (what NFKD makes of the
\* ideographic space U+3000 used to display Japanese sentences)
JoinWords(ws) == LET f[j \in 0..Len(ws)] == IF j = 0 THEN <<>>
                                            ELSE IF j = 1 THEN ws[1] ELSE f[j - 1] \o <<32>> \o ws[j]
                 IN f[Len(ws)]

(* ---------- seed ----------------------------------------------------------*)
AsciiMnemonic   == <<109, 110, 101, 109, 111, 110, 105, 99>>                      \* "mnemonic"
AsciiBitcoinSeed == <<66, 105, 116, 99, 111, 105, 110, 32, 115, 101, 101, 100>>    \* "Bitcoin seed" (BIP32)
\* sent, pass: NFKD forms (code points) of sentence and passphrase
SeedTerm(sent, pass) == [prim |-> "pbkdf2-hmac-sha512", pw |-> Utf8(sent), salt |-> AsciiMnemonic \o Utf8(pass),
                         iters |-> 2048, dklen |-> 64]
\* BIP32 master key of a seed: I = HMAC-SHA512(key = "Bitcoin seed", data = seed); key = I[0..31], chain code = I[32..63]
MasterTerm(seed) == [prim |-> "hmac-sha512", key |-> AsciiBitcoinSeed, data |-> seed]

(* ---------- secp256k1 group order (only for the documented check_on_curve refusal) *)
OrderN == <<255,255,255,255,255,255,255,255,255,255,255,255,255,255,255,254,
            186,174,220,230,175,72,160,59,191,210,94,140,208,54,65,65>>
\* the documented flag check_on_curve=True may refuse an entropy whose integer value is 0 or >= n
OutsideScalarRange(ent) == LET v == Rev(TrimLead(ent)) IN v = <<>> \/ CmpLE(v, Rev(OrderN)) >= 0

(* ---------- word lists: SHA-256 of the list files (2048 lines, NFKD, one word per line) ----------------------- *)
\* english: the digest published with the BIP (also checked against the Trezor vectors below); the other lists are
\* pinned to the files of the BIP repository as bundled; dutch is not a BIP39 list, pinned to the bundled file.
ListDigest == [ english             |-> "2f5eed53a4727b4bf8880d8f3f199efc90e58503646d9ff8eff3a2ed3b24dbda",
                japanese            |-> "2eed0aef492291e061633d7ad8117f1a2b03eb80a29d0e4e3117ac2528d05ffd",
                spanish             |-> "46846a5a0139d1e3cb77293e521c2865f7bcdb82c44e8d0a06a2cd0ecba48c0b",
                chinese_simplified  |-> "5c5942792bd8340cb8b27cd592f1015edf56a8c5b26276ee18a482428e7c5726",
                chinese_traditional |-> "417b26b3d8500a4ae3d59717d7011952db6fc2fb84b807f3f94ac734e89c1b5f",
                french              |-> "ebc3959ab7801a1df6bac4fa7d970652f1df76b683cd2f4003c941c63d517e59",
                italian             |-> "d392c49fdb700a24cd1fceb237c1f65dcc128f6b34a8aacb58b59384b5c648c2",
                portuguese          |-> "2685e9c194c82ae67e10ba59d9ea5345a23dc093e92276fc5361f6667d79cd3f",
                dutch               |-> "c2019fa4d23ee907c2a7bc30949f42aaa4b59714b464a67c5ed97f5505386567" ]
Languages == DOMAIN ListDigest

(* ---------- static facts of the lists (words = code point sequences in NFKD, as BIP39 publishes them) ---------- *)
\* code points a list word may consist of: a-z, combining accents (what NFKD leaves of the Latin diacritics), hiragana
\* incl. the combining (semi-)voiced marks, CJK unified ideographs.  No space, no control / format character (a byte
\* order mark U+FEFF, a carriage return), no upper case, no digit.
WordCp(c) == c \in 97..122 \/ c \in 768..879 \/ c \in 12353..12438 \/ c \in {12441, 12442} \/ c \in 19968..40959
\* first / last word of every list and whether the list is in code point order (english, italian, portuguese: sorted
\* as the BIP says; dutch - not a BIP39 list - as bundled; french / spanish / japanese follow their own collation)
ListFacts == [ english             |-> [first |-> <<97,98,97,110,100,111,110>>, last |-> <<122,111,111>>, sorted |-> TRUE],     \* abandon .. zoo
               spanish             |-> [first |-> <<97,769,98,97,99,111>>, last |-> <<122,117,114,100,111>>, sorted |-> FALSE], \* a'baco .. zurdo
               french              |-> [first |-> <<97,98,97,105,115,115,101,114>>, last |-> <<122,111,111,108,111,103,105,101>>, sorted |-> FALSE], \* abaisser .. zoologie
               italian             |-> [first |-> <<97,98,97,99,111>>, last |-> <<122,117,112,112,97>>, sorted |-> TRUE],       \* abaco .. zuppa
               portuguese          |-> [first |-> <<97,98,97,99,97,116,101>>, last |-> <<122,117,109,98,105,100,111>>, sorted |-> TRUE], \* abacate .. zumbido
               japanese            |-> [first |-> <<12354,12356,12371,12367,12375,12435>>, last |-> <<12431,12428,12427>>, sorted |-> FALSE], \* aikokushin .. wareru
               chinese_simplified  |-> [first |-> <<30340>>, last |-> <<27463>>, sorted |-> FALSE],                             \* de .. xie
               chinese_traditional |-> [first |-> <<30340>>, last |-> <<27463>>, sorted |-> FALSE],
               dutch               |-> [first |-> <<97,97,110,98,111,100>>, last |-> <<122,119,105,106,103,101,110>>, sorted |-> TRUE] ] \* aanbod .. zwijgen
\* strict lexicographic order of code point sequences
SeqLess(a, b) == \E k \in 1..(Len(a) + 1) :
                    /\ \A j \in 1..(k - 1) : j <= Len(b) /\ a[j] = b[j]
                    /\ k <= Len(b)
                    /\ (k = Len(a) + 1 \/ a[k] < b[k])
\* what a list of `lang` must satisfy; returns the name of the first fact that fails ("" = all hold)
\* (english additionally: 3..8 letters and the first four letters identify the word, as the BIP says)
Prefix4(w) == SubSeq(w, 1, IF Len(w) < 4 THEN Len(w) ELSE 4)
ListDefect(lang, ws) ==
    IF Len(ws) # ListSize THEN "not-2048-words"
    ELSE IF \E i \in 1..Len(ws) : ws[i] = <<>> \/ \E j \in 1..Len(ws[i]) : ~WordCp(ws[i][j]) THEN "word-with-a-character-that-is-no-letter"
    ELSE IF ws[1] # ListFacts[lang].first THEN "first-word"
    ELSE IF ws[ListSize] # ListFacts[lang].last THEN "last-word"
    ELSE IF ListFacts[lang].sorted /\ \E i \in 1..(ListSize - 1) : ~SeqLess(ws[i], ws[i + 1]) THEN "not-sorted"
    ELSE IF Cardinality({ws[i] : i \in 1..ListSize}) # ListSize THEN "duplicate-word"
    ELSE IF lang = "english" /\ (\E i \in 1..ListSize : Len(ws[i]) \notin 3..8) THEN "english-word-length"
    ELSE IF lang = "english" /\ Cardinality({Prefix4(ws[i]) : i \in 1..ListSize}) # ListSize THEN "english-4-letter-prefix-not-unique"
    ELSE ""

(* ---------- Trezor reference vectors (python-mnemonic vectors.json, english) -------------------------------- *)
W8a == <<"legal", "winner", "thank", "year", "wave", "sausage", "worth", "useful">>
W8b == <<"letter", "advice", "cage", "absurd", "amount", "doctor", "acoustic", "avoid">>
TrezorVectors == <<
  [ent |-> Rep(0, 16),   words |-> Rep("abandon", 11) \o <<"about">>],
  [ent |-> Rep(127, 16), words |-> W8a \o <<"legal", "winner", "thank", "yellow">>],
  [ent |-> Rep(128, 16), words |-> W8b \o <<"letter", "advice", "cage", "above">>],
  [ent |-> Rep(255, 16), words |-> Rep("zoo", 11) \o <<"wrong">>],
  [ent |-> Rep(0, 24),   words |-> Rep("abandon", 17) \o <<"agent">>],
  [ent |-> Rep(127, 24), words |-> W8a \o W8a \o <<"legal", "will">>],
  [ent |-> Rep(128, 24), words |-> W8b \o W8b \o <<"letter", "always">>],
  [ent |-> Rep(255, 24), words |-> Rep("zoo", 17) \o <<"when">>],
  [ent |-> Rep(0, 32),   words |-> Rep("abandon", 23) \o <<"art">>],
  [ent |-> Rep(127, 32), words |-> W8a \o W8a \o SubSeq(W8a, 1, 7) \o <<"title">>],
  [ent |-> Rep(128, 32), words |-> W8b \o W8b \o SubSeq(W8b, 1, 7) \o <<"bless">>],
  [ent |-> Rep(255, 32), words |-> Rep("zoo", 23) \o <<"vote">>],
  [ent |-> <<158,136,93,149,42,211,98,202,235,78,254,52,168,233,27,210>>,
   words |-> <<"ozone", "drill", "grab", "fiber", "curtain", "grace", "pudding", "thank", "cruise", "elder", "eight", "picnic">>] >>
\* seed of vector 1 with passphrase "TREZOR" (checks the term evaluator end to end)
TrezorSeed1 == <<197,82,87,195,96,192,124,114,2,154,235,193,181,60,5,237,3,98,173,163,142,173,62,62,158,250,55,8,
                 229,52,149,83,31,9,166,152,117,153,209,130,100,193,225,201,47,44,241,65,99,12,122,60,74,183,200,27,
                 47,0,22,152,231,70,59,4>>
=============================================================================
