------------------------------- MODULE SigHash -------------------------------
(***************************************************************************)
(* The message a transaction signature commits to (SIGHASH_ALL):           *)
(* the legacy preimage (protocol documentation / OP_CHECKSIG) and the      *)
(* BIP143 preimage for version-0 witness programs, with the script code    *)
(* per kind of input.  Hashes are not computed by TLC: a preimage is a     *)
(* *term*  B(bytes) | Cat(<<terms>>) | H("sha256d", term)  that the        *)
(* harness evaluates with the reference primitives (DESIGN 1.4); all       *)
(* structure - which fields, in which order and encoding, which script     *)
(* code, which nested hashes - is decided here.                            *)
(*                                                                         *)
(* A transaction is a TxFormat transaction whose inputs carry in addition  *)
(*   kind   : "p2pkh" | "p2pk" | "p2sh-multisig" | "p2wpkh" | "p2sh-p2wpkh" *)
(*            | "p2wsh-multisig" | "p2sh-p2wsh-multisig"                   *)
(*   amount : 8 bytes (value of the output being spent)                    *)
(*   pkh    : hash160 of the public key (single-key kinds)                 *)
(*   pub    : the public key (p2pk)                                        *)
(*   keys, m: public keys in script order and threshold (multisig kinds)   *)
(***************************************************************************)
EXTENDS TxFormat

B(x) == [t |-> "b", f |-> "", b |-> x, s |-> <<>>]
Cat(parts) == [t |-> "cat", f |-> "", b |-> <<>>, s |-> parts]
H(f, x) == [t |-> "h", f |-> f, b |-> <<>>, s |-> <<x>>]

SegwitKinds == {"p2wpkh", "p2sh-p2wpkh", "p2wsh-multisig", "p2sh-p2wsh-multisig"}
MultisigKinds == {"p2sh-multisig", "p2wsh-multisig", "p2sh-p2wsh-multisig"}
Kinds == {"p2pkh", "p2pk"} \cup SegwitKinds \cup MultisigKinds

RECURSIVE PushAll(_, _)
PushAll(keys, k) == IF k > Len(keys) THEN <<>> ELSE Push(keys[k]) \o PushAll(keys, k + 1)
MultisigScript(m, keys) == <<80 + m>> \o PushAll(keys, 1) \o <<80 + Len(keys), 174>>
P2pkhScript(pkh) == <<118, 169, 20>> \o pkh \o <<136, 172>>

\* the script code: for P2PKH/P2PK the scriptPubKey of the output being spent, for P2SH the redeem script,
\* for P2WPKH (native or nested) the P2PKH script of the key hash (BIP143), for P2WSH the witness script
ScriptCode(in) ==
    IF in.kind \in {"p2pkh", "p2wpkh", "p2sh-p2wpkh"} THEN P2pkhScript(in.pkh)
    ELSE IF in.kind = "p2pk" THEN Push(in.pub) \o <<172>>
    ELSE MultisigScript(in.m, in.keys)

Outpoint(in) == in.txid \o in.vout
HashTypeAll == <<1, 0, 0, 0>>

\* ---- legacy: the transaction with every scriptSig emptied except input i, which carries the script code
RECURSIVE LegacyIns(_, _, _)
LegacyIns(ins, i, k) == IF k > Len(ins) THEN <<>>
                        ELSE Outpoint(ins[k]) \o (IF k = i THEN VarBytes(ScriptCode(ins[k])) ELSE <<0>>) \o ins[k].seq
                             \o LegacyIns(ins, i, k + 1)
LegacyPreimage(tx, i) ==
    B(tx.version \o CS(Len(tx.ins)) \o LegacyIns(tx.ins, i, 1) \o CS(Len(tx.outs)) \o CatMap(SerOut, tx.outs, 1)
      \o tx.locktime \o HashTypeAll)

\* ---- BIP143
Bip143Preimage(tx, i) ==
    Cat(<< B(tx.version),
           H("sha256d", B(CatMap(Outpoint, tx.ins, 1))),                       \* hashPrevouts
           H("sha256d", B(CatMap(LAMBDA in : in.seq, tx.ins, 1))),             \* hashSequence
           B(Outpoint(tx.ins[i]) \o VarBytes(ScriptCode(tx.ins[i])) \o tx.ins[i].amount \o tx.ins[i].seq),
           H("sha256d", B(CatMap(SerOut, tx.outs, 1))),                        \* hashOutputs
           B(tx.locktime \o HashTypeAll) >>)

\* BIP143 for every hash type ht (an integer 1..255: base type in the low five bits, ANYONECANPAY = 128):
\*   hashPrevouts  zero with ANYONECANPAY;   hashSequence  zero with ANYONECANPAY, SINGLE or NONE;
\*   hashOutputs   all outputs (ALL), output i only (SINGLE with i within the outputs), zero otherwise
Zero32 == [k \in 1..32 |-> 0]
BaseType(ht) == ht % 32
AnyoneCanPay(ht) == (ht \div 128) % 2 = 1
Bip143PreimageHT(tx, i, ht) ==
    Cat(<< B(tx.version),
           IF AnyoneCanPay(ht) THEN B(Zero32) ELSE H("sha256d", B(CatMap(Outpoint, tx.ins, 1))),
           IF AnyoneCanPay(ht) \/ BaseType(ht) \in {2, 3} THEN B(Zero32) ELSE H("sha256d", B(CatMap(LAMBDA in : in.seq, tx.ins, 1))),
           B(Outpoint(tx.ins[i]) \o VarBytes(ScriptCode(tx.ins[i])) \o tx.ins[i].amount \o tx.ins[i].seq),
           IF BaseType(ht) \notin {2, 3} THEN H("sha256d", B(CatMap(SerOut, tx.outs, 1)))
           ELSE IF BaseType(ht) = 3 /\ i <= Len(tx.outs) THEN H("sha256d", B(SerOut(tx.outs[i])))
           ELSE B(Zero32),
           B(tx.locktime \o <<ht, 0, 0, 0>>) >>)
DigestHT(tx, i, ht) == H("sha256d", Bip143PreimageHT(tx, i, ht))

\* What a BIP143 signature of a witness input with hash type ht COMMITS TO, by role of the field seen from that input
\* (MC_SigHash!HashTypeCommitment shows that this table is exactly where DigestHT changes):
\*   own.*      the input's own outpoint, sequence, amount, key        - always
\*   other.outpoint / other.seq   another input's outpoint / sequence   - not with ANYONECANPAY / only with plain ALL
\*   out.same   the output at the input's own index                      - ALL and SINGLE
\*   out.other  any other output                                         - ALL only
CommitRoles == {"version", "locktime", "own.outpoint", "own.seq", "own.amount", "own.key", "other.outpoint", "other.seq",
                "out.same", "out.other"}
CommitsHT(f, ht) ==
    \/ f \in {"version", "locktime", "own.outpoint", "own.seq", "own.amount", "own.key"}
    \/ (f = "other.outpoint" /\ ~AnyoneCanPay(ht))
    \/ (f = "other.seq" /\ ~AnyoneCanPay(ht) /\ BaseType(ht) = 1)
    \/ (f = "out.same" /\ BaseType(ht) \in {1, 3})
    \/ (f = "out.other" /\ BaseType(ht) = 1)

Preimage(tx, i) == IF tx.ins[i].kind \in SegwitKinds THEN Bip143Preimage(tx, i) ELSE LegacyPreimage(tx, i)
Digest(tx, i) == H("sha256d", Preimage(tx, i))
=============================================================================
