------------------------------ MODULE MC_Wire ------------------------------
(***************************************************************************)
(* Bounded model of the wire primitives.  Init ranges over a domain of     *)
(* CompactSize values, script numbers and scripts; for scripts the parser  *)
(* runs as a state machine (one item per step).  Invariants are the        *)
(* design properties C18 states: decode(encode(v)) = v, the shortest form, *)
(* and parse(serialize(s)) = s.                                            *)
(***************************************************************************)
EXTENDS Wire, TLC
CONSTANTS NumBound,      \* script numbers -NumBound..NumBound are enumerated
          ItemDomain,    \* set of items scripts are built from
          MaxItems

MCItems == {Op(0), Op(79), Op(81), Op(96), Op(99), Op(104), Op(118), Op(135), Op(169), Op(172), Op(174), Op(255)} \cup { Data([i \in 1..n |-> (i * 7 + n) % 256]) : n \in {1,2,20,33,75,76,255,256} }

VARIABLES mode, x, buf, out
vars == <<mode, x, buf, out>>

\* boundary values of CompactSize as LE byte sequences, each with neighbours
Boundaries == { <<>>, <<1>>, <<251>>, <<252>>, <<253>>, <<254>>, <<255>>, <<0, 1>>, <<1, 1>>,
                <<254, 255>>, <<255, 255>>, <<0, 0, 1>>, <<1, 0, 1>>, <<255, 255, 255>>, <<0, 0, 0, 1>>,
                <<254, 255, 255, 255>>, <<255, 255, 255, 255>>, <<0, 0, 0, 0, 1>>, <<1, 0, 0, 0, 1>>,
                <<255, 255, 255, 255, 255, 255, 255, 127>>, <<0, 0, 0, 0, 0, 0, 0, 128>>,
                <<254, 255, 255, 255, 255, 255, 255, 255>>, <<255, 255, 255, 255, 255, 255, 255, 255>> }

Scripts == UNION { [1..n -> ItemDomain] : n \in 0..MaxItems }

Init == \/ mode = "cs" /\ x \in Boundaries /\ buf = CSEnc(x) /\ out = <<>>
        \/ mode = "num" /\ x \in (0 - NumBound)..NumBound /\ buf = NumEnc(x) /\ out = <<>>
        \/ mode = "script" /\ x \in Scripts /\ buf = SerScript(x) /\ out = <<>>

ParseStep == /\ mode = "script" /\ buf # <<>>
             /\ LET r == ParseItem(buf) IN
                /\ r.ok
                /\ out' = Append(out, r.item)
                /\ buf' = Drop(buf, r.n)
             /\ UNCHANGED <<mode, x>>
Next == ParseStep
Spec == Init /\ [][Next]_vars

CSRoundTrip == mode = "cs" => CSDec(buf) = [ok |-> TRUE, v |-> Trim(x), n |-> Len(buf)]
CSShortest  == mode = "cs" => /\ CSCanonical(buf)
                              /\ \A w \in {0, 2, 4, 8} : (1 + w < Len(buf)) => ~CSFits(Trim(x), w)
CSTrailing  == mode = "cs" => CSDec(buf \o <<7, 7>>) = CSDec(buf)      \* decoding ignores what follows
NumRoundTrip == mode = "num" => NumDec(buf) = x /\ NumMinimal(buf) /\ Len(buf) <= 4
ScriptPrefix == mode = "script" => SerScript(out) \o buf = SerScript(x)
ScriptDone   == (mode = "script" /\ buf = <<>>) => (out = x /\ ParseScript(SerScript(x)) = [ok |-> TRUE, items |-> x])
ParserNeverStuck == (mode = "script" /\ buf # <<>>) => ParseItem(buf).ok
=============================================================================
