SPECIFICATION Spec
INVARIANT RuleSatisfiable
INVARIANT RefusalNeeded
CHECK_DEADLOCK FALSE
