------------------------------ MODULE MC_Bip39 ------------------------------
(***************************************************************************)
(* Bounded model of the BIP39 sentence codec.  SHA-256 is an arbitrary     *)
(* function here: the first digest byte `h` of the entropy is chosen       *)
(* freely in Init (every statement below therefore holds for ANY hash).    *)
(* Encode turns the entropy into a sentence, Substitute replaces one word. *)
(* Invariants = the design-level statements of C14: full length also with  *)
(* leading zeros, round trip, the checksum sits in the low bits of the     *)
(* last word, a substituted sentence never decodes to the same payload,    *)
(* and "accepted" is exactly "image of the encoder".                       *)
(***************************************************************************)
EXTENDS Bip39, FiniteSets, TLC
CONSTANTS HashBytes,     \* values tried for the first byte of a SHA-256 digest
          BitPositions,  \* single-bit entropies: bit values tried in every byte position
          SubstituteEverything  \* TRUE: all 2047 substitutions per position, FALSE: the representative ones

VARIABLES ent, h, sent, st, pos
vars == <<ent, h, sent, st, pos>>

OneByte(L, j, v) == [i \in 1..L |-> IF i = j THEN v ELSE 0]
Base(L) == { Rep(0, L), Rep(255, L), <<0>> \o Rep(255, L - 1), <<0, 0>> \o Rep(1, L - 2),
             <<0, 31>> \o Rep(170, L - 2), <<0, 0, 0, 0, 1>> \o Rep(0, L - 5), <<128>> \o Rep(0, L - 1),
             Rep(170, L), Rep(85, L), Rep(127, L), Rep(128, L), [i \in 1..L |-> (37 * i + L) % 256] }
Patterns(L) == Base(L) \cup { OneByte(L, j, v) : j \in 1..L, v \in BitPositions }

\* words tried at a position holding w: extremes, neighbour, lowest / highest / a middle bit flipped
Subst(w) == { 0, 2047, (w + 1) % 2048, IF w % 2 = 0 THEN w + 1 ELSE w - 1, (w + 1024) % 2048, (w + 16) % 2048 } \ {w}
SubstAll(w) == IF SubstituteEverything THEN (0..2047) \ {w} ELSE Subst(w)

Init == /\ ent \in UNION { Patterns(L) : L \in EntLens }
        /\ h \in HashBytes
        /\ sent = <<>> /\ st = "entropy" /\ pos = 0

Encode == /\ st = "entropy"
          /\ sent' = Indices(ent, <<h>>)
          /\ st' = "sentence"
          /\ UNCHANGED <<ent, h, pos>>

\* (single-word substitutions are explored for the base patterns; the single-bit entropies only add slicing cases)
Substitute == /\ st = "sentence" /\ ent \in Base(Len(ent))
              /\ \E i \in 1..Len(sent) : \E w \in SubstAll(sent[i]) :
                    /\ sent' = [sent EXCEPT ![i] = w]
                    /\ pos' = i
              /\ st' = "mutated"
              /\ UNCHANGED <<ent, h>>

Next == Encode \/ Substitute
Spec == Init /\ [][Next]_vars

LeadingZeroBits(s) == LET b == BitsOf(s) IN Cardinality({k \in 1..Len(b) : \A j \in 1..k : b[j] = 0})

\* a sentence always has the full number of words, each a list index
Shape == st = "sentence" => Len(sent) = NWords(Len(ent)) /\ WellFormed(sent)
\* leading zero bits of the entropy are leading "word 0"s; nothing is dropped
LeadingZeros == st = "sentence" => LET z == LeadingZeroBits(ent) IN \A i \in 1..Len(sent) : (11 * i <= z) => sent[i] = 0
RoundTrip == st = "sentence" => /\ Decode(sent) = [ent |-> ent, cs |-> CsBits(<<h>>, Len(ent))]
                                /\ Valid(sent, <<h>>)
\* whatever the digest of the decoded entropy is: accepted <=> the sentence is what the encoder makes of that entropy
ImageOnly(s, d) == \A hd \in HashBytes : (WellFormed(s) /\ d.cs = CsBits(<<hd>>, Len(d.ent))) <=> Indices(d.ent, <<hd>>) = s
AcceptedIsImage == st = "sentence" => ImageOnly(sent, Decode(sent))
Mutated == st = "mutated" =>
    LET d == Decode(sent)
        o == Indices(ent, <<h>>)
        c == Pow2(CsLen(Len(ent)))
    IN  \* Injective: another sentence carries another payload
        /\ d # [ent |-> ent, cs |-> CsBits(<<h>>, Len(ent))]
        \* CsInLastWord: only the low CS bits of the last word are checksum
        /\ (d.ent = ent) <=> (pos = Len(sent) /\ sent[pos] \div c = o[pos] \div c)
        \* SameEntropyRejected: the same entropy has the same digest - such a mutant is rejected for sure
        /\ (d.ent = ent) => ~Valid(sent, <<h>>)
        /\ ImageOnly(sent, d)
\* well-formedness is part of validity
IllFormedInvalid == /\ ~Valid(<<0, 0, 0>>, <<0>>)
                    /\ ~Valid(Rep(0, 11), <<0>>)
                    /\ ~Valid(Rep(0, 13), <<0>>)
                    /\ ~Valid(Rep(0, 11) \o <<2048>>, <<0>>)
                    /\ ~Valid(Rep(0, 11) \o <<0 - 1>>, <<0>>)
\* SHA-256(16 zero bytes) starts with 0x37: "abandon" x 11 + "about" (index 3)
KnownVector == /\ Indices(Rep(0, 16), <<55>>) = Rep(0, 11) \o <<3>>
               /\ Valid(Rep(0, 11) \o <<3>>, <<55>>)
               /\ \A w \in (0..15) \ {3} : ~Valid(Rep(0, 11) \o <<w>>, <<55>>)
               /\ Utf8(<<97, 228, 12354, 128512>>) = <<97, 195, 164, 227, 129, 130, 240, 159, 152, 128>>
               /\ JoinWords(<<<<97>>, <<98, 99>>>>) = <<97, 32, 98, 99>>
               /\ OutsideScalarRange(Rep(0, 16)) /\ OutsideScalarRange(Rep(255, 32)) /\ OutsideScalarRange(OrderN)
               /\ ~OutsideScalarRange(Rep(255, 28)) /\ ~OutsideScalarRange(Rep(0, 31) \o <<1>>)
               /\ ~OutsideScalarRange([OrderN EXCEPT ![32] = 64])
\* the list facts: every pinned list has facts; the order on words; a defective list is recognised
ListFactsSane == /\ DOMAIN ListFacts = Languages
                 /\ SeqLess(<<1>>, <<1, 2>>) /\ SeqLess(<<1, 2>>, <<1, 3>>) /\ SeqLess(<<>>, <<1>>)
                 /\ ~SeqLess(<<1, 2>>, <<1, 2>>) /\ ~SeqLess(<<2>>, <<1, 5>>) /\ ~SeqLess(<<1, 2>>, <<1>>)
                 /\ \A c \in {32, 10, 13, 65, 48, 160, 12288, 65279, 8203} : ~WordCp(c)
                 /\ ListDefect("english", <<ListFacts.english.first>>) = "not-2048-words"
                 /\ ListDefect("french", [i \in 1..2048 |-> IF i = 1 THEN <<65279>> \o ListFacts.french.first ELSE <<97, 98>>])
                      = "word-with-a-character-that-is-no-letter"
                 /\ ListDefect("french", [i \in 1..2048 |-> <<97, 98>>]) = "first-word"
ASSUME ListFactsSane
ASSUME IllFormedInvalid
ASSUME KnownVector
=============================================================================
