SPECIFICATION Spec
CONSTANTS
  MaxCalls = 2
INVARIANT ConformingNeverBlamed
INVARIANT StaleBlamedOnlyWhenWrong
INVARIANT FaultyBlamedOnlyWhenWrong
CHECK_DEADLOCK FALSE
