SPECIFICATION Spec
CONSTANTS
  MaxCalls = 3
INVARIANT ConformingNeverBlamed
INVARIANT StaleBlamedOnlyWhenWrong
CHECK_DEADLOCK FALSE
