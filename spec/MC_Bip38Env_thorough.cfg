SPECIFICATION Spec
CONSTANTS
  Has <- NoHas
  Val <- NoVal
  MaxSteps = 5
INVARIANT SpecGeneratorNeverBlamed
INVARIANT JudgeExact
INVARIANT SameJudge
INVARIANT ExplicitNeverBlamed
CHECK_DEADLOCK FALSE
