------------------------------ MODULE MC_Bip32 ------------------------------
(***************************************************************************)
(* Bounded model of Bip32: the operators of the specification themselves   *)
(* (path notation, CKDpriv, CKDpub, N, the invalid-key rules, byte         *)
(* arithmetic modulo the group order) run as the path machine of the       *)
(* design, over a toy interpretation of the primitives:                    *)
(*   - the group is the cyclic group of prime order QQ (a scalar is one    *)
(*     byte, W = 1; the point s*G is encoded as <<s, y(s)>>),              *)
(*   - HMAC is a random oracle: a table H that is extended with an         *)
(*     ARBITRARY value (IL in 0..QQ - so IL >= n occurs -, IR any chain    *)
(*     code) when an application is needed for the first time.             *)
(* An owner derives privately along a path (StepPriv); at any point the    *)
(* public extended key is handed to a watcher (ToPublic); from then on     *)
(* both apply the same path elements (StepBoth), the owner with CKDpriv,   *)
(* the watcher with CKDpub.                                                *)
(* Invariants = design-level statements of C03:                            *)
(*   Commute      whenever the watcher has a key it is N(owner's key):     *)
(*                public and private derivation agree                      *)
(*   CommuteFail  the watcher fails only where BIP32 says so: hardened or  *)
(*                unparsable element, or an invalid child (which is        *)
(*                invalid for the owner as well)                           *)
(*   NoHardenedFromPublic  an element that denotes a hardened child never  *)
(*                gives the watcher a key                                  *)
(*   (ObserveKey: observing a key object is a step that leaves every       *)
(*                variable derivation reads unchanged - history independence)*)
(*   Fields       depth = number of steps, fingerprint = that of the       *)
(*                parent, child number >= 2^31 iff hardened, K = k*G,      *)
(*                k = IL + k_par (mod n) in plain integer arithmetic       *)
(* and, as ASSUMEs, the rules of the path notation at the boundaries       *)
(* 2^31-1 / 2^31 / 2^32-1 / 2^32 and for every marker spelling.            *)
(***************************************************************************)
EXTENDS Bip32, TLC

CONSTANTS QQ,          \* order of the toy group (prime < 255)
          MaxDepth,    \* path length
          MToks,       \* path elements the machine may apply
          Chains       \* chain code bytes

VARIABLES H, own, prevOwn, wat, split, splitAt, n, pend, lastTok
vars == <<H, own, prevOwn, wat, split, splitAt, n, pend, lastTok>>

ToyN == <<QQ>>
ToyW == 1
NoTok == <<999>>
MCToks == {<<48>>, <<49, 39>>, T31, <<45, 49>>}     \* 0   1'   2147483648   -1

Sc(pt) == IF pt = <<>> THEN 0 ELSE pt[1]
ToyPoint(s) == IF s % QQ = 0 THEN <<>> ELSE <<s % QQ, ((s % QQ) * (s % QQ) + 1) % 3>>
ToyHas(F, q) == q.f # "hmac512" \/ \E p \in F : p[1] = q
ToyVal(F, q) ==
    CASE q.f = "hmac512"  -> (CHOOSE p \in F : p[1] = q)[2]
      [] q.f = "hash160"  -> SubSeq(q.a[1] \o <<7, 7, 7, 7>>, 1, 4) \o Rep(9, 16)
      [] q.f = "ec_mul_g" -> ToyPoint(q.a[1][1])
      [] q.f = "ec_mul_g_add" -> ToyPoint(q.a[1][1] + Sc(q.a[2]))
      [] OTHER            -> <<>>

PendNeeds == LET a == StepTok(H, own.val, pend, {})
                 b == IF split THEN StepTok(H, wat.val, pend, {}) ELSE Fail
             IN (IF a.st = "need" THEN a.need ELSE <<>>) \o (IF b.st = "need" THEN b.need ELSE <<>>)

Init == /\ H = {}
        /\ \E k \in 1..(QQ - 1), c \in Chains : own = DirectMaster({}, <<k>>, <<c>>)
        /\ prevOwn = own
        /\ wat = Fail
        /\ split = FALSE /\ splitAt = 0 /\ n = 0
        /\ pend = NoTok /\ lastTok = NoTok

Alive == own.st = "ok" /\ (split => wat.st = "ok")

Choose == /\ pend = NoTok /\ n < MaxDepth /\ Alive
          /\ \E t \in MToks : pend' = t
          /\ UNCHANGED <<H, own, prevOwn, wat, split, splitAt, n, lastTok>>

Answer == /\ pend # NoTok /\ PendNeeds # <<>>
          /\ \E il \in 0..QQ, ir \in Chains : H' = H \cup {<<PendNeeds[1], <<il, ir>>>>}
          /\ UNCHANGED <<own, prevOwn, wat, split, splitAt, n, pend, lastTok>>

StepPriv == /\ pend # NoTok /\ ~split /\ PendNeeds = <<>>
            /\ own' = StepTok(H, own.val, pend, {})
            /\ prevOwn' = own /\ n' = n + 1 /\ lastTok' = pend /\ pend' = NoTok
            /\ UNCHANGED <<H, wat, split, splitAt>>

ToPublic == /\ pend = NoTok /\ ~split /\ own.st = "ok"
            /\ split' = TRUE /\ splitAt' = n /\ wat' = Ok(Neuter(own.val))
            /\ UNCHANGED <<H, own, prevOwn, n, pend, lastTok>>

StepBoth == /\ pend # NoTok /\ split /\ PendNeeds = <<>>
            /\ own' = StepTok(H, own.val, pend, {})
            /\ wat' = StepTok(H, wat.val, pend, {})
            /\ prevOwn' = own /\ n' = n + 1 /\ lastTok' = pend /\ pend' = NoTok
            /\ UNCHANGED <<H, split, splitAt>>

\* asking a key object anything (address, serialization, hash, dump, ...) at any time leaves the key as it is;
\* as an action of the machine this is a step that changes nothing that derivation reads
ObsRes(res, o) == IF res.st = "ok" THEN Ok(Observe(res.val, o)) ELSE res
ObserveKey == /\ \E o \in Observers : own' = ObsRes(own, o) /\ wat' = ObsRes(wat, o) /\ prevOwn' = ObsRes(prevOwn, o)
              /\ UNCHANGED <<H, split, splitAt, n, pend, lastTok>>

Next == Choose \/ Answer \/ StepPriv \/ ToPublic \/ StepBoth \/ ObserveKey
Spec == Init /\ [][Next]_vars

(* ----------------------------- invariants -------------------------------- *)
PubElem == ElemStep(FALSE, ParseElem(lastTok), {})
PrivElem == ElemStep(TRUE, ParseElem(lastTok), {})
Stepped == split /\ n > splitAt

Commute == (split /\ wat.st = "ok") => (own.st = "ok" /\ Neuter(own.val) = wat.val)

CommuteFail == (Stepped /\ wat.st = "err" /\ own.st = "ok") => PubElem.act = "err"

NoHardenedFromPublic ==
    Stepped => /\ (PubElem.act = "err" => wat.st = "err")
               /\ (PrivElem.act = "ckd" /\ Hardened(PrivElem.idx) => wat.st = "err")

HVal(q) == (CHOOSE p \in H : p[1] = q)[2]
Fields ==
    own.st = "ok" =>
      /\ own.val.depth = n
      /\ own.val.priv /\ InRange(own.val.k) /\ own.val.K = ToyPoint(own.val.k[1])
      /\ (n = 0 => own.val.fp = Zero4 /\ own.val.idx = Zero4)
      /\ (n > 0 => LET p == prevOwn.val
                       data == IF Hardened(own.val.idx) THEN <<0>> \o p.k \o own.val.idx ELSE SerP(p.K) \o own.val.idx
                       I == HVal(QHmac(p.c, data))
                   IN /\ own.val.fp = <<2 + (p.K[2] % 2), p.K[1], 7, 7>>
                      /\ own.val.depth = p.depth + 1
                      /\ Hardened(own.val.idx) = PrivElem.hard
                      /\ own.val.idx = PrivElem.idx
                      /\ I[1] < QQ
                      /\ own.val.k[1] = (I[1] + p.k[1]) % QQ
                      /\ own.val.c = <<I[2]>>)

\* a failed owner step is one of: unparsable element, IL >= n, k_i = 0
OwnerFailsOnlyWhereSpecified ==
    (own.st = "err" /\ n > 0) =>
        \/ PrivElem.act = "err"
        \/ LET p == prevOwn.val
               data == IF PrivElem.hard THEN <<0>> \o p.k \o PrivElem.idx ELSE SerP(p.K) \o PrivElem.idx
               I == HVal(QHmac(p.c, data))
           IN I[1] >= QQ \/ (I[1] + p.k[1]) % QQ = 0

(* ----------------------------- path notation ----------------------------- *)
Tick == 39
PrivE(tok) == ElemStep(TRUE, ParseElem(tok), {})
PubE(tok)  == ElemStep(FALSE, ParseElem(tok), {})
Bodies == {<<48>>, <<49>>, T31m1, <<48, 48, 55>>, <<52, 52>>}

ASSUME \A b \in Bodies, m \in Markers :
          /\ PrivE(Append(b, m)) = PrivE(Append(b, Tick))
          /\ PrivE(Append(b, m)).act = "ckd" /\ PrivE(Append(b, m)).hard /\ ~PrivE(Append(b, m)).lenient
          /\ PrivE(Append(b, m)).idx = SetTop(PrivE(b).idx)
          /\ PrivE(b).act = "ckd" /\ ~PrivE(b).hard /\ ~Hardened(PrivE(b).idx)
          /\ PubE(Append(b, m)).act = "err"
          /\ PubE(b) = PrivE(b)
ASSUME PrivE(<<48>>).idx = Zero4 /\ PrivE(<<49>>).idx = <<0, 0, 0, 1>> /\ PrivE(<<48, 48, 55>>).idx = <<0, 0, 0, 7>>
ASSUME PrivE(T31m1).idx = <<127, 255, 255, 255>> /\ PrivE(Append(T31m1, Tick)).idx = <<255, 255, 255, 255>>
\* a bare index >= 2^31 is a hardened index: 2^31 + v is v'
ASSUME PrivE(T31).act = "ckd" /\ PrivE(T31).hard /\ PrivE(T31).idx = PrivE(<<48, Tick>>).idx /\ PrivE(T31).lenient
ASSUME PrivE(T32m1).hard /\ PrivE(T32m1).idx = PrivE(Append(T31m1, Tick)).idx
ASSUME PubE(T31).act = "err" /\ PubE(T32m1).act = "err"
ASSUME \A t \in {T32, <<>>, <<45, 49>>, Append(T31, Tick), Append(T32m1, 104), <<120>>, <<Tick>>, <<109>>, <<77>>,
                 <<48, 39, 39>>, <<48, 32>>, <<43, 49>>} : PrivE(t).act = "err" /\ PubE(t).act = "err"
ASSUME Tokens(<<109, 47, 48, 47, 49, 39>>) = <<<<109>>, <<48>>, <<49, 39>>>>
ASSUME Tokens(<<>>) = << <<>> >> /\ Tokens(<<109, 47>>) = <<<<109>>, <<>>>> /\ Tokens(<<47>>) = << <<>>, <<>> >>
ASSUME ParsePath(<<<<109>>, <<48>>>>) = [forcePub |-> FALSE, elems |-> <<<<48>>>>]
ASSUME ParsePath(<<<<77>>, <<48>>>>) = [forcePub |-> TRUE, elems |-> <<<<48>>>>]
ASSUME ParsePath(<<<<48>>, <<109>>>>) = [forcePub |-> FALSE, elems |-> <<<<48>>, <<109>>>>]
\* with every deviation enabled nothing changes for paths no deviation covers
ASSUME \A b \in Bodies : ElemStep(TRUE, ParseElem(b), AllDevs) = PrivE(b) /\ ElemStep(FALSE, ParseElem(b), AllDevs) = PubE(b)
ASSUME \A i \in 1..Len(ElemClasses) : LET t == ElemClasses[i] IN
          (ElemStep(TRUE, ParseElem(t), AllDevs).fired = <<>> => ElemStep(TRUE, ParseElem(t), AllDevs) = PrivE(t))
          /\ (ElemStep(FALSE, ParseElem(t), AllDevs).fired = <<>> => ElemStep(FALSE, ParseElem(t), AllDevs) = PubE(t))
=============================================================================
