---------------------------- MODULE ScriptVMEval ----------------------------
(* Conformance binding for ScriptVM: each record is a program (items), the environment with oracle facts, and what    *)
(* bitcoinlib's Script.evaluate observed (success flag, remaining stack).  TLC evaluates the program under the        *)
(* consensus semantics; on disagreement it searches the smallest sets of named deviations under which the             *)
(* specification reproduces the observation exactly (attribution by the specification, DESIGN 4).                     *)
EXTENDS ScriptVM, Json, IOUtils, FiniteSets, TLC

Recs == ndJsonDeserialize(IOEnv.IN_FILE)
Prog(items) == [i \in 1..Len(items) |-> IF items[i].t = "op" THEN Op(items[i].c) ELSE Data(items[i].d)]
Match(obs, r) == r.status = "done" /\ obs.ok = r.ok /\ (obs.ok => obs.stack = r.stack)

Subsets(S, k) == {T \in SUBSET S : Cardinality(T) = k}
RECURSIVE Explain(_, _, _, _)
Explain(prog, env, obs, k) ==
    IF k > 4 THEN {}
    ELSE LET hits == {T \in Subsets(Deviations, k) : Match(obs, Exec(prog, env, T))} IN
         IF hits # {} THEN hits ELSE Explain(prog, env, obs, k + 1)

SetToSeq(S) == CHOOSE f \in [1..Cardinality(S) -> S] : \A i, j \in 1..Cardinality(S) : i # j => f[i] # f[j]
NoNeed == [kind |-> "", name |-> "", a |-> <<>>, b |-> <<>>]

Judge(r) ==
    LET prog == Prog(r.prog)
        r0 == Exec(prog, r.env, {}) IN
    IF r0.status = "need" THEN [v |-> "need", need |-> r0.need, exp_ok |-> FALSE, exp_stack |-> <<>>, devs |-> <<>>]
    ELSE IF Match(r.obs, r0) THEN [v |-> "ok", need |-> NoNeed, exp_ok |-> r0.ok, exp_stack |-> r0.stack, devs |-> <<>>]
    ELSE LET ex == Explain(prog, r.env, r.obs, 1)
             \* an evaluation under deviations may ask for oracle facts the consensus path did not need
             open == IF ex # {} THEN {} ELSE {T \in (Subsets(Deviations, 1) \cup Subsets(Deviations, 2) \cup Subsets(Deviations, 3))
                                               : Exec(prog, r.env, T).status = "need"} IN
         IF open # {} THEN [v |-> "need", need |-> Exec(prog, r.env, CHOOSE T \in open : TRUE).need, exp_ok |-> FALSE,
                            exp_stack |-> <<>>, devs |-> <<>>]
         ELSE
         [v |-> "mismatch", need |-> NoNeed, exp_ok |-> r0.ok, exp_stack |-> r0.stack,
          devs |-> [i \in 1..Cardinality(ex) |-> SetToSeq(SetToSeq(ex)[i])]]

Out == [i \in 1..Len(Recs) |-> Judge(Recs[i])]
ASSUME ndJsonSerialize(IOEnv.OUT_FILE, Out)
=============================================================================
