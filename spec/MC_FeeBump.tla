---------------------------- MODULE MC_FeeBump ----------------------------
(* The rule of FeeBump is satisfiable exactly when refusing is not required: a reference way of taking the increase from *)
(* the change outputs in order satisfies BumpWhy for every small transaction and request, and where the change cannot   *)
(* pay nothing satisfies it.                                                                                            *)
EXTENDS FeeBump, TLC
VARIABLES pre, q
Vals == 0..3
Outs == UNION {[1..n -> [v : Vals, change : BOOLEAN]] : n \in 1..3}
Init == pre \in [ins : {12}, outs : Outs] /\ q \in [fee : {-1}, extra : 1..4] \cup [fee : 3..9, extra : {-1}]
Next == UNCHANGED <<pre, q>>
Spec == Init /\ [][Next]_<<pre, q>>
RECURSIVE Take(_, _)
\* outputs after taking `need` from the change outputs in order (an output that cannot pay its share is removed)
Take(o, need) ==
    IF Len(o) = 0 THEN <<>>
    ELSE IF ~o[1].change \/ need = 0 THEN <<o[1]>> \o Take(Tail(o), need)
    ELSE IF o[1].v > need THEN <<[o[1] EXCEPT !.v = @ - need]>> \o Take(Tail(o), 0)
    ELSE Take(Tail(o), need - o[1].v)
Ref == [ins |-> pre.ins, outs |-> Take(pre.outs, Wanted(pre, q) - Fee(pre))]
Sane == Fee(pre) >= 0 /\ Wanted(pre, q) > Fee(pre)
RuleSatisfiable == (Sane /\ ~MustRefuse(pre, q)) => BumpWhy(pre, Ref, q) = "ok"
\* when the change cannot pay, no outcome with untouched payments and inputs reaches the requested fee
RefusalNeeded == (Sane /\ MustRefuse(pre, q)) => Fee([ins |-> pre.ins, outs |-> Payments(pre)]) < Wanted(pre, q)
=============================================================================
