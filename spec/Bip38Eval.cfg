CONSTANTS
  Has <- FactHas
  Val <- FactVal
