------------------------------- MODULE Cosign -------------------------------
(***************************************************************************)
(* C10: m-of-n multisignature cosigner wallets.                            *)
(*                                                                         *)
(* Written from BIP11 (m-of-n CHECKMULTISIG outputs), BIP16 (P2SH),        *)
(* BIP141 (P2WSH, P2SH-P2WSH), BIP67 (lexicographic key order, which makes *)
(* the script independent of who lists the keys in which order) and the    *)
(* property text - not from the library.                                   *)
(*                                                                         *)
(* Configuration  cfg = [n, m, holder, afs, height, knows]:  n cosigner    *)
(* keys 1..n, threshold m,                                                 *)
(* m, and W = Len(holder) cosigner *wallets*; wallet w holds key           *)
(* holder[w] privately and the other keys publicly (two wallets may hold   *)
(* the same key: they are then the same signer).  afs[w]: wallet w was     *)
(* created with anti-fee-sniping (its own proposals get locktime = height, *)
(* the current block height); such per-wallet settings shape what a wallet *)
(* proposes and must not touch what it imports.  knows[w]: what wallet w   *)
(* knows about the output being spent when a copy arrives:                 *)
(*   "utxo"  it has a record of the output (it updated its UTXOs)          *)
(*   "keys"  it has derived the address but never fetched UTXOs (an        *)
(*           offline / air-gapped signer)                                  *)
(*   "none"  it has not even derived the address yet                       *)
(* An export as object, file or dictionary carries everything an importer  *)
(* needs (outpoint, amount, address, signatures): a wallet that knows the  *)
(* keys must accept it, add its signature, and the copy is valid once m    *)
(* distinct cosigners signed - exactly as for a wallet that knows the      *)
(* output.  A raw transaction carries neither amount nor (while            *)
(* incomplete) the address: a wallet without the output may refuse it; a   *)
(* wallet that has never derived the address may refuse every form.  A     *)
(* refused import changes nothing.  Only a wallet that knows the output    *)
(* can propose the spend.                                                  *)
(*                                                                         *)
(* Part 1 - agreement.  A wallet is created from the n keys listed in some *)
(* order (a permutation of 1..n).  The public keys at one derivation path  *)
(* are ordered by rank (rank[k] = position of key k's public key in        *)
(* lexicographic order at that path).  Redeem script and address are       *)
(* *defined* as functions of the key set, m and the rank:                  *)
(*     ScriptOf(cfg, order, rank) = [m, keys sorted by rank]               *)
(* so that agreement between wallets is a theorem here; the binding tests  *)
(* it for the code (CosignEval builds the bytes).                          *)
(*                                                                         *)
(* Part 2 - the signing ceremony of one spend of the common address.       *)
(* State s = [copy, by, pushed]:                                           *)
(*   copy[w]  the transaction object wallet w currently has:               *)
(*            [has: BOOLEAN, signed: per input, the set of keys whose       *)
(*             signature that input holds,                                 *)
(*             body: everything a signature commits to - version,          *)
(*             locktime, outpoints, sequences, outputs]                    *)
(*   by[w]    history: per input, the keys that signed it on the chain of  *)
(*            copies that led to copy[w]                                   *)
(*   pushed   some copy has been broadcast                                 *)
(* Every action is a successor-set operator A(cfg, s, args) (empty set =   *)
(* disabled), used by the model checker and by the trace judge alike.      *)
(*   Propose(w, body)      w creates the unsigned spend; its body is the   *)
(*                         proposer's choice (its wallet settings such as  *)
(*                         anti-fee-sniping, and the locktime / replace-   *)
(*                         by-fee arguments of the call, decide it)        *)
(*   Sign(w)               w signs its copy (all inputs) with its key      *)
(*   SignIn(w, I)          w signs the inputs I only                       *)
(*   SignKey(w, k, I)      w signs and also uses the key of cosigner k for *)
(*                         the inputs I (an extra key handed to sign())    *)
(*   HandOff(w, v, form)   w exports its copy, v imports it                *)
(*                         form: "object" | "dict" | "file" | "raw"        *)
(*   Send(w)               w asks for broadcast of its copy                *)
(*   Verify(w)             w asks its copy for the verdict (no change)     *)
(* A copy is Valid iff EVERY input holds signatures of at least m distinct *)
(* keys.                                                                   *)
(* Signatures are made over the body.  No action but Propose chooses a     *)
(* body: signing, verifying, sending and a hand-off in any form - whatever *)
(* the settings of the importing wallet - leave the body as it is, so that *)
(* the digest every signature was made over is the digest of the copy it   *)
(* travels with.                                                           *)
(* A raw transaction is the network serialization: a complete input        *)
(* carries exactly m signatures (CHECKMULTISIG consumes m), so a raw       *)
(* hand-off of a copy with more than m signatures carries some m of them;  *)
(* an incomplete input keeps what it has (property semantics).             *)
(*                                                                         *)
(* Named deviation (DESIGN 4, known finding):                              *)
(*   "raw-omits-partial-multisig"  raw() leaves out the signatures of an   *)
(*   input that has fewer than m of them: after a raw hand-off of an       *)
(*   incomplete copy the receiver holds no signature at all.               *)
(*   "dict-import-send-raises"  a copy imported from a dictionary keeps    *)
(*   the exported serialization as text (object and file hand-offs pass    *)
(*   it on); Send of such a copy, once valid, broadcasts it and then fails *)
(*   (raises) while recording it in the wallet: see SendRaises (how a copy *)
(*   arrived is read off the history).                                     *)
(*   "resign-scrambles-unattributed-signatures"  a dictionary carries bare *)
(*   signatures; the importer learns which key made which signature only   *)
(*   for the first m it verifies.  Sign on a copy that arrived that way    *)
(*   and holds more than m signatures re-sorts the list wrongly (one       *)
(*   signature duplicated, another dropped; the result may no longer       *)
(*   verify): see SignScrambles.  Nothing is predicted for that copy       *)
(*   afterwards.                                                           *)
(*   "raw-import-applies-importer-locktime"  a raw transaction with        *)
(*   locktime 0 imported by a wallet with anti-fee-sniping gets that       *)
(*   wallet's locktime (the block height), as if it were a new proposal.   *)
(*   "dict-import-resets-sequences"  a dictionary import ignores the       *)
(*   sequence numbers: every input gets the importer's default (fffffffe   *)
(*   with anti-fee-sniping, ffffffff without), a replace-by-fee signal is  *)
(*   lost.  Both: see BodyAfter.  The signatures the copy carries were     *)
(*   made over the old body; nothing is predicted for them afterwards.     *)
(*   "offline-dict-import-forgets-multisig"  a dictionary imported by a    *)
(*   wallet that knows only the keys is rebuilt as a single-key input: the *)
(*   signatures it carries and gets are useless (see OfflineDictBreaks);   *)
(*   nothing is predicted for the signatures of that copy afterwards.      *)
(***************************************************************************)
EXTENDS Naturals, Sequences, FiniteSets

Forms == {"object", "dict", "file", "raw"}
DeviationNames == {"raw-omits-partial-multisig", "dict-import-send-raises", "resign-scrambles-unattributed-signatures",
                   "raw-import-applies-importer-locktime", "dict-import-resets-sequences",
                   "offline-dict-import-forgets-multisig"}

Perms(n) == {p \in [1..n -> 1..n] : \A i, j \in 1..n : i # j => p[i] # p[j]}
Range(f) == {f[i] : i \in DOMAIN f}

\* ------------------------------------------------------------------ part 1: scripts
\* the keys of S as a sequence in increasing rank (BIP67 order of their public keys)
RECURSIVE SortedKeys(_, _)
SortedKeys(S, rank) ==
    IF S = {} THEN <<>>
    ELSE LET k == CHOOSE x \in S : \A y \in S : rank[x] <= rank[y] IN <<k>> \o SortedKeys(S \ {k}, rank)
\* the redeem script of a wallet that was given the keys in the order `order`
ScriptOf(cfg, order, rank) == [m |-> cfg.m, keys |-> SortedKeys(Range(order), rank)]
\* the one script all cosigners must arrive at
TheScript(cfg, rank) == [m |-> cfg.m, keys |-> SortedKeys(1..cfg.n, rank)]

\* ------------------------------------------------------------------ part 2: ceremony
Wallets(cfg) == 1..Len(cfg.holder)
NoBody == [version |-> <<>>, locktime |-> <<>>, ins |-> <<>>, outs |-> <<>>]     \* (no transaction)
\* signed[i] = the keys whose signature INPUT i of the copy holds (every input is signed on its own: the spend may draw
\* on several outputs, of one or of several addresses of the group); by[w][i] = history, the keys that signed input i on
\* the chain of copies that led to copy[w]
NoCopy == [has |-> FALSE, signed |-> <<>>, body |-> NoBody]
InitS(cfg) == [copy |-> [w \in Wallets(cfg) |-> NoCopy], by |-> [w \in Wallets(cfg) |-> <<>>], pushed |-> FALSE]

Inputs(cp) == 1..Len(cp.signed)
NSig(cp) == [i \in Inputs(cp) |-> Cardinality(cp.signed[i])]
\* "with fewer than m signatures it neither verifies nor is broadcast" holds per input: EVERY input needs m distinct signers
Valid(cfg, cp) == cp.has /\ \A i \in Inputs(cp) : Cardinality(cp.signed[i]) >= cfg.m
Exists(s) == \E w \in DOMAIN s.copy : s.copy[w].has

A_Propose(cfg, s, w, body) ==
    IF Exists(s) \/ cfg.knows[w] # "utxo" THEN {}      \* one spend per ceremony, proposed by a wallet that knows the output
    ELSE {[s EXCEPT !.copy[w] = [has |-> TRUE, signed |-> [i \in 1..Len(body.ins) |-> {}], body |-> body],
                    !.by[w] = [i \in 1..Len(body.ins) |-> {}]]}

\* key k signs the inputs I of w's copy
AddSig(s, w, k, I) == [s EXCEPT !.copy[w].signed = [i \in Inputs(s.copy[w]) |-> IF i \in I THEN @[i] \cup {k} ELSE @[i]],
                                !.by[w] = [i \in Inputs(s.copy[w]) |-> IF i \in I THEN @[i] \cup {k} ELSE @[i]]]
\* w signs its copy: every input, with the key it holds
A_Sign(cfg, s, w) ==
    IF ~s.copy[w].has THEN {} ELSE {AddSig(s, w, cfg.holder[w], Inputs(s.copy[w]))}
\* w signs the inputs I only (Transaction.sign(index_n=...))
A_SignIn(cfg, s, w, I) ==
    IF ~s.copy[w].has \/ ~(I \subseteq Inputs(s.copy[w])) THEN {} ELSE {AddSig(s, w, cfg.holder[w], I)}
\* w signs its copy and is also given the private key of cosigner key k for the addresses of the inputs I (sign(keys=...):
\* "use existing keys from wallet or use keys argument for extra keys")
A_SignKey(cfg, s, w, k, I) ==
    IF ~s.copy[w].has \/ ~(I \subseteq Inputs(s.copy[w])) \/ k \notin 1..cfg.n THEN {}
    ELSE {AddSig(AddSig(s, w, cfg.holder[w], Inputs(s.copy[w])), w, k, I)}

\* the signature sets of ONE input that can arrive when a copy holding S on it is handed over in `form`
Carried(cfg, S, form, devs) ==
    IF form # "raw" THEN {S}
    ELSE IF Cardinality(S) < cfg.m
         THEN (IF "raw-omits-partial-multisig" \in devs THEN {{}} ELSE {S})
         ELSE {T \in SUBSET S : Cardinality(T) = cfg.m}
\* all sequences q with q[i] \in Q[i]
RECURSIVE Prod(_, _)
Prod(Q, i) == IF i > Len(Q) THEN {<<>>} ELSE {<<x>> \o t : x \in Q[i], t \in Prod(Q, i + 1)}
CarriedAll(cfg, signed, form, devs) == Prod([i \in 1..Len(signed) |-> Carried(cfg, signed[i], form, devs)], 1)

\* the body wallet v holds after importing a copy with that body: the same (property); the deviations rewrite fields
Zero4 == <<0, 0, 0, 0>>
SeqFinal == <<255, 255, 255, 255>>
SeqLocktime == <<254, 255, 255, 255>>
BodyAfter(cfg, body, v, form, devs) ==
    IF form = "raw" /\ "raw-import-applies-importer-locktime" \in devs /\ cfg.afs[v] /\ body.locktime = Zero4
    THEN [body EXCEPT !.locktime = cfg.height]
    ELSE IF form = "dict" /\ "dict-import-resets-sequences" \in devs
    THEN [body EXCEPT !.ins = [i \in 1..Len(body.ins) |->
                                 [body.ins[i] EXCEPT !.seq = IF cfg.afs[v] THEN SeqLocktime ELSE SeqFinal]]]
    ELSE body

\* the importer may answer with a refusal (which changes nothing); otherwise the import must succeed
MayRefuse(cfg, v, form) == cfg.knows[v] = "none" \/ (cfg.knows[v] = "keys" /\ form = "raw")
\* input class of the deviation: the imported copy is no multisig spend any more
OfflineDictBreaks(cfg, v, form, devs) == "offline-dict-import-forgets-multisig" \in devs /\ form = "dict" /\ cfg.knows[v] = "keys"

A_HandOff(cfg, s, w, v, form, devs) ==
    IF ~s.copy[w].has \/ w = v THEN {}
    ELSE {[s EXCEPT !.copy[v] = [has |-> TRUE, signed |-> T, body |-> BodyAfter(cfg, s.copy[w].body, v, form, devs)], !.by[v] = s.by[w]] :
            T \in CarriedAll(cfg, s.copy[w].signed, form, devs)}

\* Send answers with "broadcast" exactly for a valid copy
SendPushes(cfg, s, w) == Valid(cfg, s.copy[w])
A_Send(cfg, s, w) ==
    IF ~s.copy[w].has THEN {}
    ELSE {[s EXCEPT !.pushed = @ \/ SendPushes(cfg, s, w)]}

\* the call Send(w) does not return normally although it broadcasts (the property: every enabled action succeeds);
\* via = how w's copy arrived ("dict": imported from a dictionary, possibly passed on as object or file since), a fact of
\* the history that no other rule depends on
SendRaises(cfg, s, w, via, devs) == "dict-import-send-raises" \in devs /\ Valid(cfg, s.copy[w]) /\ via = "dict"

\* Sign(w) may leave a corrupted signature list behind: the input class of the deviation (via as for SendRaises)
SignScrambles(cfg, s, w, via, devs) == "resign-scrambles-unattributed-signatures" \in devs /\ s.copy[w].has
                                       /\ via = "dict" /\ \E i \in Inputs(s.copy[w]) : Cardinality(s.copy[w].signed[i]) > cfg.m

\* one event a = [op, w, v, form, body, ins, key] (ins: set of input numbers, key: a cosigner key, for sign_in / sign_key;
\* "send_to" = Propose; Sign; Send in one call of the wallet API; body: the body
\* the proposer chose, used by propose / send_to only)
Compose(F(_), S) == UNION {F(x) : x \in S}
Act(cfg, s, a, devs) ==
    CASE a.op = "propose" -> A_Propose(cfg, s, a.w, a.body)
      [] a.op = "sign"    -> A_Sign(cfg, s, a.w)
      [] a.op = "sign_in" -> A_SignIn(cfg, s, a.w, a.ins)
      [] a.op = "sign_key" -> A_SignKey(cfg, s, a.w, a.key, a.ins)
      [] a.op = "handoff" -> A_HandOff(cfg, s, a.w, a.v, a.form, devs)
      [] a.op = "send"    -> A_Send(cfg, s, a.w)
      [] a.op = "verify"  -> IF s.copy[a.w].has THEN {s} ELSE {}          \* asking the copy for its verdict changes nothing
      [] a.op = "send_to" -> Compose(LAMBDA s2 : A_Send(cfg, s2, a.w),
                                     Compose(LAMBDA s1 : A_Sign(cfg, s1, a.w), A_Propose(cfg, s, a.w, a.body)))
      [] OTHER -> {}
\* the wallet whose copy an event leaves behind (whose observations are compared)
TargetOf(a) == IF a.op = "handoff" THEN a.v ELSE a.w
=============================================================================
