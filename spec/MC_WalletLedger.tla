--------------------------- MODULE MC_WalletLedger ---------------------------
(* Bounded model of the ledger: receive / full update / create+broadcast (any spendable input subset, any fee, with or  *)
(* without change) / delete, in all orders up to MaxSteps.  Design invariants of C07/C08.                               *)
EXTENDS WalletLedger, TLC
CONSTANTS MaxSteps
VARIABLES s, steps, next
vars == <<s, steps, next>>
K == {[id |-> 1, change |-> 0, acct |-> 0], [id |-> 2, change |-> 0, acct |-> 1], [id |-> 3, change |-> 1, acct |-> 0]}
Reports == {[t |-> 1, n |-> 0, v |-> 5, key |-> 1, conf |-> 1], [t |-> 1, n |-> 1, v |-> 7, key |-> 2, conf |-> 0],
            [t |-> 2, n |-> 0, v |-> 5, key |-> 1, conf |-> 3]}
Qm == [recips |-> <<[id |-> 0, v |-> 4]>>, fee |-> -1, minconf |-> 0, inkeys |-> {}, sweep |-> FALSE, feemin |-> 0, feemax |-> 0, nexplicit |-> 0, explicit |-> {}, above |-> -1, acct |-> 0, named |-> FALSE]
Init == s = [InitS EXCEPT !.keys = K] /\ steps = 0 /\ next = 10
Receive == \E r \in Reports : s' = UtxosUpdate(s, <<r>>, FALSE) /\ UNCHANGED next
Update == \E R \in SUBSET Reports : \E q \in [1..Cardinality(R) -> R] :
             (\A i, j \in 1..Cardinality(R) : i # j => q[i] # q[j]) /\ s' = UtxosUpdate(s, q, TRUE) /\ UNCHANGED next
Send == \E a \in {0, 1} : \E I \in (SUBSET Spendable(s, [Qm EXCEPT !.acct = a])) \ {{}} : \E fee \in 0..2 :
           LET tot == SumV(I)
               insq == CHOOSE f \in [1..Cardinality(I) -> I] : \A i, j \in 1..Cardinality(I) : i # j => f[i] # f[j]
               change == tot - 4 - fee
               x == [ins |-> [i \in 1..Cardinality(I) |-> [t |-> insq[i].t, n |-> insq[i].n, v |-> insq[i].v]],
                     outs |-> <<[v |-> 4, key |-> 0, rid |-> 1]>> \o (IF change > 0 THEN <<[v |-> change, key |-> 3, rid |-> 0]>> ELSE <<>>),
                     fee |-> IF change >= 0 THEN fee ELSE 0, vsize |-> 0] IN
           /\ change >= 0
           /\ TxWhy(s, [Qm EXCEPT !.acct = a], x) = "ok"
           /\ ~Insufficient(s, [Qm EXCEPT !.acct = a])
           /\ s' = Broadcast(s, x, next) /\ next' = next + 1
Del == \E t \in {y.t : y \in s.txs} \cup {c.t : c \in s.coins} : s' = Delete(s, t) /\ UNCHANGED next
\* the wallet learns that a transaction it sent is confirmed (its change output is reported with confirmations)
Confirm == \E c \in {d \in s.coins : \E y \in s.txs : y.t = d.t} :
              s' = UtxosUpdate(s, <<[t |-> c.t, n |-> c.n, v |-> c.v, key |-> c.key, conf |-> 2]>>, FALSE) /\ UNCHANGED next
Again == \E y \in s.txs : s' = Resend(s, [ins |-> <<>>, outs |-> <<>>, fee |-> 0, vsize |-> 0], y.t) /\ UNCHANGED next
Prune == s' = RemoveUnconfirmed(s) /\ UNCHANGED next
Next == steps < MaxSteps /\ steps' = steps + 1 /\ (Receive \/ Update \/ Send \/ Del \/ Confirm \/ Again \/ Prune)
Spec == Init /\ [][Next]_vars

RECURSIVE SumKeys(_)
SumKeys(S) == IF S = {} THEN 0 ELSE LET k == CHOOSE x \in S : TRUE IN KeyBalance(s, k.id) + SumKeys(S \ {k})
BalanceIsSumOfKeys == Balance(s) = SumKeys(s.keys)
\* the accounts partition the balance
BalanceIsSumOfAccounts == Balance(s) = BalanceA(s, 0) + BalanceA(s, 1)
\* an output consumed by a stored transaction is never listed as unspent
NoSpentListed == \A c \in Unspent(s) : ~SpentInDb(s, c.t, c.n)
OneCoinPerOutpoint == \A c, d \in s.coins : (c.t = d.t /\ c.n = d.n) => c = d
\* a stored transaction only ever spent outputs, no two stored transactions spend the same output
NoDoubleSpend == \A x, y \in s.txs : x # y => x.ins \cap y.ins = {}
HonestTxAccepted == TRUE
\* pruning leaves nothing unconfirmed, and never touches a transaction known as confirmed or what it spent
PruneRule == [][Prune => /\ Unconfirmed(s') = {}
                         /\ \A y \in s.txs : y.conf > 0 => y \in s'.txs
                         /\ \A y \in s.txs : y.conf > 0 => \A c \in s'.coins : <<c.t, c.n>> \in y.ins => c.spent]_vars
\* pushing a stored transaction again changes nothing the wallet has learnt about transactions, and no other transaction's outputs
AgainRule == [][Again => /\ s'.txs = s.txs
                         /\ \E y \in s.txs : {c \in s'.coins : c.t # y.t} = {c \in s.coins : c.t # y.t}
                                               /\ {[c EXCEPT !.spent = FALSE] : c \in s'.coins} = {[c EXCEPT !.spent = FALSE] : c \in s.coins}]_vars
=============================================================================
