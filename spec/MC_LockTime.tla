---------------------------- MODULE MC_LockTime ----------------------------
(* Bounded model of the lock-time setters: every sequence of up to MaxSteps setter calls on a transaction with NIn       *)
(* inputs, arguments at and around every boundary.  `last` records the last call with the state before it; the          *)
(* invariants state what each setter must establish in terms of the meaning a validating node gives the fields.         *)
EXTENDS LockTime, TLC
CONSTANTS NIn, MaxSteps
VARIABLES s, last, n
RelArgs == {0, 1, 2, 511, 512, 513, 1023, 1024, 65535, 65536, 33553920, 33554431, 33554432}
AbsArgs == {Zero32, <<0, 1>>, <<0, 65535>>, FromInt(499999999), Threshold32, FromInt(500000001), EnableLock32, Final32}
Locks == {Zero32, <<0, 700>>}
SeqStart == {Final32, EnableLock32, <<65535, 65533>>, <<0, 5>>, <<64, 3>>}
None == [op |-> "none"]
Init == /\ s \in [ver : {1, 2}, lock : {Zero32, <<0, 9>>}, seqs : [1..NIn -> SeqStart]]
        /\ last = [e |-> None, pre |-> s, ok |-> TRUE]
        /\ n = 0
Call(e) == LET r == Step(s, e) IN s' = r.s /\ last' = [e |-> e, pre |-> s, ok |-> r.ok] /\ n' = n + 1
DoRelBlocks == \E i \in 1..NIn, b \in RelArgs, l \in Locks : Call([op |-> "rel_blocks", i |-> i, a |-> FromInt(b), l |-> l])
DoRelTime == \E i \in 1..NIn, b \in RelArgs, l \in Locks : Call([op |-> "rel_time", i |-> i, a |-> FromInt(b), l |-> l])
DoAbsBlocks == \E a \in AbsArgs : Call([op |-> "abs_blocks", i |-> 0, a |-> a, l |-> Zero32])
DoAbsTime == \E a \in AbsArgs : Call([op |-> "abs_time", i |-> 0, a |-> a, l |-> Zero32])
Next == n < MaxSteps /\ (DoRelBlocks \/ DoRelTime \/ DoAbsBlocks \/ DoAbsTime)
Spec == Init /\ [][Next]_<<s, last, n>>

e == last.e
pre == last.pre
ArgInt == e.a[1] * 65536 + e.a[2]
Others(P(_)) == \A j \in 1..NIn : j # e.i => P(j)
\* a refused call changes nothing
RefusedUnchanged == ~last.ok => s = pre
\* relative setters: the addressed input carries exactly the requested lock, no other nSequence changes
RelBlocksMeaning == e.op = "rel_blocks" /\ last.ok =>
    /\ RelLock(s, e.i) = IF ArgInt = 0 THEN [kind |-> "none", n |-> 0] ELSE [kind |-> "blocks", n |-> ArgInt]
    /\ Others(LAMBDA j : s.seqs[j] = pre.seqs[j])
RelTimeMeaning == e.op = "rel_time" /\ last.ok =>
    /\ IF ArgInt = 0 THEN RelLock(s, e.i).kind = "none"
       ELSE /\ RelLock(s, e.i).kind = "time"
            /\ LET u == RelLock(s, e.i).n IN u >= 1 /\ (ArgInt >= 512 => u * 512 <= ArgInt /\ ArgInt < (u + 1) * 512)
    /\ Others(LAMBDA j : s.seqs[j] = pre.seqs[j])
\* refused exactly when BIP68 has no encoding for the request
RelRefusal == e.op \in {"rel_blocks", "rel_time"} =>
    (last.ok <=> IF e.op = "rel_blocks" THEN ArgInt <= 65535 ELSE ArgInt \div 512 <= 65535)
\* absolute setters: the lock is in force (needs a non-final nSequence) and is of the requested kind; removing it
\* leaves the transaction final at every height and time
AbsMeaning == e.op \in {"abs_blocks", "abs_time"} /\ last.ok =>
    IF e.a = Zero32 THEN AbsLock(s).kind = "none"
    ELSE AbsLock(s) = [kind |-> IF e.op = "abs_blocks" THEN "height" ELSE "time", at |-> e.a]
\* ... without creating or destroying relative locks and without signalling replaceability
AbsFrame == e.op \in {"abs_blocks", "abs_time"} =>
    /\ \A j \in 1..NIn : RelLock(s, j) = RelLock(pre, j)
    /\ Rbf(s) <=> Rbf(pre)
    /\ s.ver = pre.ver
\* the deviations named in LockTime break the meaning (so they are deviations, not alternative encodings)
ASSUME LET s0 == [ver |-> 2, lock |-> Zero32, seqs |-> <<Final32>>]
           s1 == AbsBlocks(s0, <<0, 100>>).s
           z == [op |-> "abs_blocks", i |-> 0, a |-> Zero32, l |-> Zero32] IN
       /\ AbsLock(Step(s1, z).s).kind = "none"
       /\ AbsLock(DevNoLockMax(s1, z).s).kind = "time"
       /\ AbsLock(DevThreshold(s0, [z EXCEPT !.a = Threshold32]).s).kind = "time"
=============================================================================
