----------------------------- MODULE KeyMaterial -----------------------------
(***************************************************************************)
(* C04: private key -> public key -> address, and the refusal of values    *)
(* that are not keys.  Written from SEC 1 / SEC 2 (secp256k1: scalar range *)
(* [1, n-1], point encodings 02/03/04, validity = the curve equation),     *)
(* the WIF format, BIP13/16 (P2SH), BIP141/143 (P2WPKH, P2WSH and their    *)
(* P2SH-nested forms, compressed keys only), BIP173/350 (Bech32 for        *)
(* witness version 0, Bech32m for version 1+) and BIP341/BIP86 (P2TR       *)
(* output key of a single key) -- not from the library.                    *)
(*                                                                         *)
(* Structure lives here, primitives do not.  Every definition that needs a *)
(* hash or a curve operation takes an oracle operator O(f, m): the value   *)
(* of primitive f on the byte string m, or <<>> while that value is not    *)
(* known.  A computation yields [v |-> value, q |-> set of open requests]; *)
(* the conformance harness answers the requests with harness/ref.py and    *)
(* asks again (the specification alone decides which bytes are hashed in   *)
(* which order).  The bounded model MC_KeyMaterial instantiates O with a   *)
(* toy curve (y^2 = x^3 + 7 over GF(67), group order 79) and toy hashes    *)
(* that TLC computes itself.                                               *)
(*                                                                         *)
(* Contract of the primitives (all values are byte sequences, big endian): *)
(*   "ec_mul_G"  k          -> x || y of k*G (k any integer), <<0>> if     *)
(*                             k*G is the point at infinity                *)
(*   "lift_x"    x          -> the EVEN y with y^2 = x^3 + 7 (mod p),      *)
(*                             <<0>> if there is none                      *)
(*   "hash160" "sha256" "sha256d"  m -> the digest                         *)
(*   "xonly_tweak_add" x||t -> x(lift_x(x) + t*G), <<0>> if undefined      *)
(* Numbers are big-endian byte strings of the width of the field (32 for   *)
(* secp256k1, 1 for the toy curve).                                        *)
(***************************************************************************)
EXTENDS AddrScript

\* ------------------------------------------------------------------ curve parameters (SEC 2, 2.4.1)
FieldP == <<255, 255, 255, 255, 255, 255, 255, 255, 255, 255, 255, 255, 255, 255, 255, 255, 255, 255, 255, 255, 255,
            255, 255, 255, 255, 255, 255, 254, 255, 255, 252, 47>>
OrderN == <<255, 255, 255, 255, 255, 255, 255, 255, 255, 255, 255, 255, 255, 255, 255, 254, 186, 174, 220, 230, 175,
            72, 160, 59, 191, 210, 94, 140, 208, 54, 65, 65>>

\* big-endian numbers of any length
BELess(a, b) == CmpLE(Rev(a), Rev(b)) < 0
BEZero(a) == \A i \in 1..Len(a) : a[i] = 0
BESub(a, b, w) == Rev(PadLE(SubLE(Rev(a), Rev(b), 256), w))          \* a - b for a >= b, w bytes wide
Zeros(w) == Rep(0, w)

\* ------------------------------------------------------------------ computations with open requests
Ret(v) == [v |-> v, q |-> {}]
Unknown(q) == [v |-> <<>>, q |-> q]
Ask(O(_, _), f, a) == IF a.q # {} THEN Unknown(a.q)
                      ELSE LET g == O(f, a.v) IN
                           IF g = <<>> THEN Unknown({[f |-> f, m |-> a.v]}) ELSE Ret(g)
Map1(F(_), a) == IF a.q # {} THEN Unknown(a.q) ELSE Ret(F(a.v))
Map2(F(_, _), a, b) == IF a.q \cup b.q # {} THEN Unknown(a.q \cup b.q) ELSE Ret(F(a.v, b.v))

\* ------------------------------------------------------------------ private keys
\* A private key is an integer k with 1 <= k <= n-1 (SEC 1, 3.2.1).  Everything else is not a key.
ValidScalarFor(k, n) == ~BEZero(k) /\ BELess(k, n)
ValidScalar(k) == ValidScalarFor(k, OrderN)

\* import formats of a private key (what the caller hands over; k32 = the scalar as 32 bytes)
PrivFormats == {"int", "hex", "bytes", "hex01", "bytes01", "wif", "wifc"}
\* is the key to be used in compressed form?  formats with a compression marker say so, the others leave it to the
\* caller's parameter
CompOfPriv(fmt, param) == IF fmt \in {"hex01", "bytes01", "wifc"} THEN TRUE ELSE IF fmt = "wif" THEN FALSE ELSE param

\* WIF version bytes (chainparams of the coins; bitcoinlib_test is the library's own unit-test network)
WifVer(net) == CASE net \in {"bitcoin", "regtest"} -> 128
                 [] net \in {"testnet", "testnet4", "signet", "litecoin_testnet"} -> 239
                 [] net \in {"litecoin", "litecoin_legacy"} -> 176
                 [] net = "dogecoin" -> 158
                 [] net = "dogecoin_testnet" -> 241
                 [] net = "bitcoinlib_test" -> 153
\* WIF: Base58Check(version || 32-byte scalar || [01 if the public key is to be used compressed])
WifPayload(net, k32, comp) == <<WifVer(net)>> \o k32 \o (IF comp THEN <<1>> ELSE <<>>)
Wif(O(_, _), net, k32, comp) ==
    LET p == WifPayload(net, k32, comp) IN
    Map1(LAMBDA c : B58Encode(p \o Take(c, 4)), Ask(O, "sha256d", Ret(p)))

\* ------------------------------------------------------------------ points and their encodings (SEC 1, 2.3.3 / 2.3.4)
NoKey == [ok |-> FALSE, x |-> <<>>, y |-> <<>>]
Pt(x, y) == [ok |-> TRUE, x |-> x, y |-> y]
Parity(y) == y[Len(y)] % 2
SerC(pt) == <<2 + Parity(pt.y)>> \o pt.x
SerU(pt) == <<4>> \o pt.x \o pt.y
Ser(pt, comp) == IF comp THEN SerC(pt) ELSE SerU(pt)
Split(b) == Pt(SubSeq(b, 1, Len(b) \div 2), SubSeq(b, Len(b) \div 2 + 1, Len(b)))

\* public key of a private key: refused unless the scalar is in range, else the point k*G
PubOfScalar(O(_, _), k, n) ==
    IF ~ValidScalarFor(k, n) THEN Ret(NoKey)
    ELSE Map1(LAMBDA b : IF b = <<0>> THEN NoKey ELSE Split(b), Ask(O, "ec_mul_G", Ret(k)))

\* public key given as an encoding  e == [pre |-> 2|3|4, x |-> bytes, y |-> bytes (<<>> when compressed)]  or as a
\* coordinate pair (pre = 4): refused unless x < p and the point satisfies y^2 = x^3 + 7; for a compressed
\* encoding y is the root whose parity the prefix names
DecodePub(O(_, _), e, p) ==
    IF ~(e.pre \in {2, 3, 4}) \/ Len(e.x) # Len(p) \/ ~BELess(e.x, p) THEN Ret(NoKey)
    ELSE IF e.pre = 4 /\ (Len(e.y) # Len(p) \/ ~BELess(e.y, p)) THEN Ret(NoKey)
    ELSE Map1(LAMBDA r : IF r = <<0>> THEN NoKey
                         ELSE LET odd == BESub(p, r, Len(p)) IN
                              IF e.pre = 2 THEN Pt(e.x, r)
                              ELSE IF e.pre = 3 THEN Pt(e.x, odd)
                              ELSE IF e.y = r \/ e.y = odd THEN Pt(e.x, e.y) ELSE NoKey,
              Ask(O, "lift_x", Ret(e.x)))
PubFormats == {"hexc", "bytesc", "hexu", "bytesu", "point"}
CompOfPub(fmt, param) == IF fmt \in {"hexc", "bytesc"} THEN TRUE ELSE IF fmt \in {"hexu", "bytesu"} THEN FALSE ELSE param

\* ------------------------------------------------------------------ from key (or script) to destination
\* key types: the data is a serialized public key; script types: the data is a script
KeyTypes == {"p2pkh", "p2wpkh", "p2sh_p2wpkh", "p2tr"}
ScriptTypes == {"p2sh", "p2wsh", "p2sh_p2wsh"}
AddrTypes == KeyTypes \cup ScriptTypes
Encodings == {"base58", "bech32"}
EncOf(t) == IF t \in {"p2wpkh", "p2wsh", "p2tr"} THEN "bech32" ELSE "base58"      \* bech32 = the BIP173/350 family
Compatible(t, e) == EncOf(t) = e
HashLen(t) == IF t \in {"p2wsh", "p2sh_p2wsh", "p2tr"} THEN 32 ELSE 20
Segwit(t) == t \in {"p2wpkh", "p2sh_p2wpkh", "p2wsh", "p2sh_p2wsh", "p2tr"}
\* the standard name of the locking script the address stands for (as TypeName of AddrScript reports it)
LockName(t) == IF t \in {"p2sh_p2wpkh", "p2sh_p2wsh"} THEN "p2sh" ELSE t

H160(O(_, _), a) == Ask(O, "hash160", a)
S256(O(_, _), a) == Ask(O, "sha256", a)

\* BIP341 (constructing and spending taproot outputs) / BIP86: output key of a single internal key with no script
\* tree: Q = P + int(hash_TapTweak(bytes(P))) * G, the witness program is x(Q)
TapTag == <<84, 97, 112, 84, 119, 101, 97, 107>>                       \* "TapTweak"
XOnly(pub) == SubSeq(pub, 2, 1 + (IF pub[1] = 4 THEN (Len(pub) - 1) \div 2 ELSE Len(pub) - 1))
TapOutputKey(O(_, _), xm) ==                                            \* xm: the x coordinate (a computation)
    LET th == S256(O, Ret(TapTag))
        t  == S256(O, Map2(LAMBDA h, x : h \o h \o x, th, xm))
    IN Ask(O, "xonly_tweak_add", Map2(LAMBDA x, tt : x \o tt, xm, t))

\* what is turned into an address:
\*   src = "key":  d is a private scalar, the data is the serialization (compressed iff comp) of its public key
\*   src = "data": d is the data itself (a serialized public key for key types, a script for script types)
\*   src = "hash": d is already the hash (resp. the taproot output key)
DataOf(O(_, _), src, d, comp) ==
    IF src = "key" THEN Map1(LAMBDA pt : IF pt.ok THEN Ser(pt, comp) ELSE <<>>, PubOfScalar(O, d, OrderN)) ELSE Ret(d)

DestOf(O(_, _), t, src, a) ==                                           \* a: DataOf(...)
    LET kh == IF src = "hash" THEN a ELSE H160(O, a)
        sh == IF src = "hash" THEN a ELSE S256(O, a)
        W0(h) == Wit(0, h)
        W1(q) == Wit(1, q)
        Nested(h) == Lock(Wit(0, h))                   \* the redeem script of a P2SH-nested witness program
    IN CASE t = "p2pkh"       -> Map1(PKH, kh)
         [] t = "p2sh"        -> Map1(SH, kh)
         [] t = "p2wpkh"      -> Map1(W0, kh)
         [] t = "p2wsh"       -> Map1(W0, sh)
         [] t = "p2sh_p2wpkh" -> Map1(SH, H160(O, Map1(Nested, kh)))
         [] t = "p2sh_p2wsh"  -> Map1(SH, H160(O, Map1(Nested, sh)))
         [] t = "p2tr"        -> IF src = "hash" THEN Map1(W1, a) ELSE Map1(W1, TapOutputKey(O, Map1(XOnly, a)))

\* the address string of a destination in a network
AddrStr(O(_, _), net, dest) ==
    IF dest.q # {} THEN Unknown(dest.q)
    ELSE IF dest.v.k = "wit" THEN Ret(AddrOf(net, dest.v, <<>>))
    ELSE Map1(LAMBDA c : AddrOf(net, dest.v, Take(c, 4)),
              Ask(O, "sha256d", Ret(AddrPre(VerFor(net, dest.v), dest.v.p))))
StdAddr(O(_, _), net, t, src, d, comp) == AddrStr(O, net, DestOf(O, t, src, DataOf(O, src, d, comp)))

\* witness types of BIP32 wallets (BIP44 / BIP84 / BIP49): the script type and encoding of their addresses
WitnessTypeAddr(wt) == CASE wt = "legacy" -> [t |-> "p2pkh", e |-> "base58"]
                         [] wt = "segwit" -> [t |-> "p2wpkh", e |-> "bech32"]
                         [] wt = "p2sh-segwit" -> [t |-> "p2sh_p2wpkh", e |-> "base58"]

\* BIP143: witness programs commit to compressed keys only; an uncompressed key has no standard segwit address
UncompressedSegwit(t, src, d, comp) == /\ Segwit(t)
                                       /\ \/ (src = "key" /\ ~comp)
                                          \/ (src = "data" /\ t \in KeyTypes /\ d # <<>> /\ d[1] = 4)

\* a script type asked for in the encoding of the other family has no standard address; what may still be answered
\* is a standard address of the same data in the encoding asked for
AltTypes(t, e, src) ==
    IF src = "hash" THEN {u \in AddrTypes : EncOf(u) = e /\ HashLen(u) = HashLen(t)}      \* a bare hash has no family
    ELSE {u \in (IF t \in KeyTypes THEN KeyTypes ELSE ScriptTypes) : EncOf(u) = e}

\* ------------------------------------------------------------------ call histories on one key object
\* A key object is asked several times; calls == sequence of
\*   [op |-> "address" | "address_uncompressed" | "network_change" | "wif" | "public" | "hash160",
\*    t, e |-> script type / encoding given ("" = not given), c |-> "T" | "F" | "" (compressed argument),
\*    pfx |-> prefix given (<<>> = not given: the prefix of the key's network), net |-> new network]
\* The answer to the LAST call depends on the key, its CURRENT network and the arguments of that call only:
\*  - network: the one of the last network_change, else the one the key was created with; never an earlier one
\*  - prefix: the one given in the last call, else the current network's; never one given earlier
\*  - an argument that is not given (script type, encoding, compressed) may resolve to the key object's default or
\*    to a value the caller chose earlier on this object (the library documents such sticky defaults); it must
\*    still be a standard address of this key
HistNet(net0, calls) ==
    LET S == {i \in 1..Len(calls) : calls[i].op = "network_change"} IN
    IF S = {} THEN net0 ELSE calls[CHOOSE i \in S : \A j \in S : j <= i].net
DefaultKeyTypes == {"p2pkh", "p2wpkh", "p2sh_p2wpkh"}
\* obj = "key": plain key object (no own script type); obj = "hdkey": BIP32 key with witness type wt
HistPairs(obj, wt, last) ==
    IF last.t # "" /\ last.e # "" THEN {<<last.t, last.e>>}
    ELSE IF obj = "hdkey" /\ last.t = "" /\ last.e = "" THEN {<<WitnessTypeAddr(wt).t, WitnessTypeAddr(wt).e>>}
    ELSE {q \in DefaultKeyTypes \X (IF last.e # "" THEN {last.e} ELSE Encodings) : Compatible(q[1], q[2])}
HistComp(comp0, calls) ==
    LET last == calls[Len(calls)] IN
    IF last.op = "address_uncompressed" THEN {FALSE}
    ELSE IF last.c # "" THEN {last.c = "T"}
    ELSE {comp0} \cup {calls[i].c = "T" : i \in {j \in 1..(Len(calls) - 1) : calls[j].op = "address" /\ calls[j].c # ""}}
                 \cup {FALSE : i \in {j \in 1..(Len(calls) - 1) : calls[j].op = "address_uncompressed"}}
\* the candidates <<script type, compressed>> of the last call
HistCandidates(obj, wt, comp0, calls) ==
    {<<q[1], c>> : q \in HistPairs(obj, wt, calls[Len(calls)]), c \in HistComp(comp0, calls)}

\* address string with a caller-supplied prefix (version bytes for Base58Check, human readable part for Bech32)
AddrStrP(O(_, _), net, dest, pfx) ==
    IF pfx = <<>> THEN AddrStr(O, net, dest)
    ELSE IF dest.q # {} THEN Unknown(dest.q)
    ELSE IF dest.v.k = "wit" THEN Ret(SegwitEncode(pfx, dest.v.v, dest.v.p))
    ELSE Map1(LAMBDA c : B58Encode(pfx \o dest.v.p \o Take(c, 4)), Ask(O, "sha256d", Ret(pfx \o dest.v.p)))
StdAddrP(O(_, _), net, t, src, d, comp, pfx) == AddrStrP(O, net, DestOf(O, t, src, DataOf(O, src, d, comp)), pfx)
=============================================================================
