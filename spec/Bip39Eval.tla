----------------------------- MODULE Bip39Eval -----------------------------
(***************************************************************************)
(* Conformance binding for Bip39.  Two kinds of records:                   *)
(*  gen_*  (G) TLC computes what the specification expects (word indices,  *)
(*         payload of a substituted sentence, the byte strings a KDF is    *)
(*         applied to); the harness applies the primitives (ref.py) and    *)
(*         looks words up in the digest-checked lists - nothing else;      *)
(*  other  (V) what bitcoinlib answered, judged here.  The verdict names   *)
(*         the failing clause, the expected value and - only where the     *)
(*         observation equals what a *named deviation* predicts - that     *)
(*         deviation.                                                      *)
(* Text = sequences of code points; digests / seeds = byte sequences.      *)
(***************************************************************************)
EXTENDS Bip39, Json, IOUtils, TLC

Recs == ndJsonDeserialize(IOEnv.IN_FILE)

Ok == [v |-> "ok", dev |-> "", exp |-> <<>>]
Bad(clause, dev, exp) == [v |-> clause, dev |-> dev, exp |-> exp]
Gen(x) == [v |-> "ok", dev |-> "", exp |-> x]

(* ---- named deviation "entropy-bytes-spelling-hex-read-as-hexstring": entropy given as bytes that all are ASCII hex
        digits is taken for a hexadecimal string, i.e. the sentence of the unhexlified (half as long) entropy results *)
HexDigit(b) == b \in 48..57 \/ b \in 65..70 \/ b \in 97..102
HexVal(b) == IF b \in 48..57 THEN b - 48 ELSE IF b \in 65..70 THEN b - 55 ELSE b - 87
HexLike(ent) == Len(ent) % 2 = 0 /\ \A i \in 1..Len(ent) : HexDigit(ent[i])
Unhex(ent) == [i \in 1..(Len(ent) \div 2) |-> 16 * HexVal(ent[2 * i - 1]) + HexVal(ent[2 * i])]
\* ... and is refused if that half-length entropy is not a multiple of 4 bytes or fails the check_on_curve test
HexDevRefuses(ent, curvecheck) == LET u == Unhex(ent) IN Len(u) % 4 # 0 \/ (curvecheck /\ OutsideScalarRange(u))

(* ---- named deviation "passphrase-not-nfkd-normalised": salt = "mnemonic" o UTF-8(passphrase as given) *)
(* ---- named deviation "from-passphrase-checks-english-list-only": HDKey.from_passphrase validates the checksum with
        the English list whatever the language, so a sentence with a word that is not English is refused *)

Judge(r) ==
  CASE r.k = "gen_vectors" -> Gen(TrezorVectors)
    [] r.k = "gen_enc" ->      \* r.ent, r.h: entropy and its SHA-256
         Gen([idx |-> Indices(r.ent, r.h), unhex |-> IF HexLike(r.ent) THEN Unhex(r.ent) ELSE <<>>])
    [] r.k = "gen_dec" ->      \* r.idx: sentence as indices (-1: unknown word)
         Gen([idx |-> r.idx, ent |-> IF WellFormed(r.idx) THEN Decode(r.idx).ent ELSE <<>>])
    [] r.k = "gen_seed" ->     \* r.s, r.p: NFKD forms of sentence and passphrase (oracle facts); r.praw: passphrase as given
         Gen([term |-> SeedTerm(r.s, r.p), dev |-> SeedTerm(r.s, r.praw), mkey |-> AsciiBitcoinSeed])
    [] r.k = "gen_facts" -> Gen(ListFacts)
    [] r.k = "table" ->        \* r.lang, r.digest: SHA-256 of the bundled list file; r.words: its lines (code points, white
                               \* space at the ends removed as every reader does), r.nfkd: their NFKD forms (oracle fact)
         IF r.lang \notin Languages THEN Bad("wordlist-not-pinned-in-spec", "", "")
         ELSE IF ListDefect(r.lang, r.words) # "" THEN Bad("wordlist-" \o ListDefect(r.lang, r.words), "", "")
         ELSE IF r.words # r.nfkd THEN Bad("wordlist-not-in-nfkd", "", "")
         ELSE IF r.digest # ListDigest[r.lang] THEN Bad("wordlist-differs-from-pinned-list", "", ListDigest[r.lang])
         ELSE Ok
    [] r.k = "vector" ->       \* r.i, r.h: digest of the vector's entropy, r.widx: list positions of the vector's words
         IF Indices(TrezorVectors[r.i].ent, r.h) = r.widx THEN Ok
         ELSE Bad("english-list-disagrees-with-trezor-vector", "", Indices(TrezorVectors[r.i].ent, r.h))
    [] r.k = "selftest" ->     \* term evaluator: seed of vector 1 / "TREZOR"
         IF r.seed = TrezorSeed1 THEN Ok ELSE Bad("term-evaluator-selftest", "", TrezorSeed1)
    [] r.k = "enc" ->
         \* to_mnemonic(r.ent) with flag r.curvecheck: r.refused, r.got (text), r.gotidx (its tokens as list positions);
         \* r.words: the words (text) at the list positions r.widx = Indices(r.ent, r.h), r.devwords: at r.devidx
         LET exp == Indices(r.ent, r.h) IN
         IF r.widx # exp THEN Bad("machinery-words-not-looked-up-at-the-spec-indices", "", exp)
         ELSE IF r.refused THEN
              IF r.curvecheck /\ OutsideScalarRange(r.ent) THEN Ok          \* documented refusal of the flag
              ELSE Bad("valid-entropy-refused",
                       IF HexLike(r.ent) /\ HexDevRefuses(r.ent, r.curvecheck)
                       THEN "entropy-bytes-spelling-hex-read-as-hexstring" ELSE "", exp)
         ELSE IF r.got = JoinWords(r.words) THEN Ok
         ELSE Bad(IF r.gotidx = exp THEN "sentence-text-not-nfkd-words-joined-by-one-space"
                  ELSE IF Len(r.gotidx) # Len(exp) THEN "sentence-length" ELSE "sentence-words",
                  IF HexLike(r.ent) /\ ~HexDevRefuses(r.ent, r.curvecheck)
                     /\ r.devidx = Indices(Unhex(r.ent), r.h2) /\ r.got = JoinWords(r.devwords)
                  THEN "entropy-bytes-spelling-hex-read-as-hexstring" ELSE "", exp)
    [] r.k = "dec" ->
         \* to_entropy(sentence r.idx): r.refused / r.got; r.hd = SHA-256 of the entropy the sentence carries
         LET wf == WellFormed(r.idx)
             d  == Decode(r.idx)
         IN
         IF ~wf THEN (IF r.refused THEN Ok ELSE Bad("unknown-word-accepted", "", <<>>))
         ELSE IF Valid(r.idx, r.hd) THEN
              (IF r.refused THEN Bad("valid-sentence-refused", "", d.ent)
               ELSE IF r.got = d.ent THEN Ok ELSE Bad("entropy-of-sentence", "", d.ent))
         ELSE (IF r.refused THEN Ok ELSE Bad("checksum-mismatch-accepted", "", <<>>))
    [] r.k = "generated" ->    \* Mnemonic.generate(): r.idx the tokens of the returned sentence, r.hd as above
         IF Valid(r.idx, r.hd) /\ Len(r.idx) = r.nwords THEN Ok ELSE Bad("generated-sentence-invalid", "", <<>>)
    [] r.k = "seed" ->
         \* r.api in {"to_seed", "from_passphrase"}; r.valid: sentence valid (decided by a "dec"-style fact pair idx/hd);
         \* r.exp / r.devexp: PBKDF2 of the two terms of gen_seed; r.I / r.devI: HMAC-SHA512(mkey, those seeds);
         \* r.got: the seed, or for from_passphrase key o chain code; r.p / r.praw: passphrase NFKD / as given
         LET valid == Valid(r.idx, r.hd)
             want  == IF r.api = "to_seed" THEN r.exp ELSE r.I
             dev   == IF r.api = "to_seed" THEN r.devexp ELSE r.devI
         IN
         IF ~valid THEN (IF r.refused THEN Ok ELSE Bad("seed-from-invalid-sentence", "", <<>>))
         ELSE IF r.refused THEN
              Bad("valid-sentence-refused",
                  IF r.api = "from_passphrase" /\ r.lang # "english" /\ r.nonenglish
                  THEN "from-passphrase-checks-english-list-only" ELSE "", want)
         ELSE IF r.got = want THEN Ok
         ELSE Bad("seed",
                  IF r.p # r.praw /\ r.got = dev THEN "passphrase-not-nfkd-normalised" ELSE "", want)
    [] OTHER -> Bad("unknown-record-kind", "", <<>>)

Out == [i \in 1..Len(Recs) |-> Judge(Recs[i])]
ASSUME ndJsonSerialize(IOEnv.OUT_FILE, Out)
=============================================================================
