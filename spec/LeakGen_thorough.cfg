SPECIFICATION Spec
CONSTANTS
  MaxLen = 4
INVARIANT Emit
CHECK_DEADLOCK FALSE
