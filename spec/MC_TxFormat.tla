----------------------------- MODULE MC_TxFormat -----------------------------
(* Bounded model: every small well-formed transaction (1..2 inputs, 1..2 outputs, empty / one-byte scripts, witness    *)
(* stacks with empty and one-byte items).  Design invariants of C06: parse(serialize(t)) = t for both forms, the       *)
(* witness-stripped form does not depend on witnesses, the extended form is used iff there is a witness.               *)
EXTENDS TxFormat, TLC
VARIABLES tx
Scripts == {<<>>, <<0>>, <<81>>, <<0, 20>>}
Wits == {<<>>, << <<>> >>, << <<0>> >>, << <<1>>, <<2, 3>> >>}
In(s, w) == [txid |-> Rep(7, 32), vout |-> <<1, 0, 0, 0>>, script |-> s, seq |-> <<255, 255, 255, 253>>, wit |-> w]
Out(s) == [value |-> <<1, 2, 3, 4, 5, 6, 7, 8>>, script |-> s]
Ins == {In(s, w) : s \in Scripts, w \in Wits}
Outs == {Out(s) : s \in Scripts}
Seqs(S, n) == UNION {[1..k -> S] : k \in 1..n}
Mk(ins, outs) == [version |-> <<2, 0, 0, 0>>, locktime |-> <<0, 1, 0, 0>>, ins |-> ins, outs |-> outs,
                  segwit |-> \E i \in 1..Len(ins) : ins[i].wit # <<>>]
Init == tx \in {Mk(i, o) : i \in Seqs(Ins, 2), o \in Seqs(Outs, 2)}
Next == UNCHANGED tx
Spec == Init /\ [][Next]_tx

Strip(t) == [t EXCEPT !.segwit = FALSE, !.ins = [i \in 1..Len(t.ins) |-> [t.ins[i] EXCEPT !.wit = <<>>]]]
WF == WellFormedTx(tx) /\ Canonical144(tx)
RoundTrip == LET r == ParseTx(SerTx(tx, TRUE)) IN r.ok /\ r.tx = tx
RoundTripStripped == LET r == ParseTx(SerTx(tx, FALSE)) IN r.ok /\ r.tx = Strip(tx)
TxidIgnoresWitness == SerTx(tx, FALSE) = SerTx(Strip(tx), TRUE)
ExtendedIffWitness == (SerTx(tx, TRUE) # SerTx(tx, FALSE)) <=> HasWitness(tx)
TruncationRejected == LET b == SerTx(tx, TRUE) IN ~ParseTx(SubSeq(b, 1, Len(b) - 1)).ok
BlockRoundTrip == LET h == [version |-> <<1, 0, 0, 0>>, prev |-> Rep(3, 32), merkle |-> Rep(4, 32), time |-> <<5, 5, 5, 5>>,
                            bits |-> <<255, 255, 0, 29>>, nonce |-> <<9, 9, 9, 9>>]
                      b == SerBlock(h, <<tx, Strip(tx)>>)
                      t1 == ParseTxAt(b, 82) IN
                  /\ SubSeq(b, 1, 80) = SerHeader(h) /\ b[81] = 2
                  /\ t1.ok /\ t1.tx = tx /\ ParseTxAt(b, t1.p).tx = Strip(tx) /\ ParseTxAt(b, t1.p).p = Len(b) + 1
WeightRule == Weight(tx) = 4 * StrippedSize(tx) + (Size(tx) - StrippedSize(tx)) /\ (HasWitness(tx) <=> Size(tx) > StrippedSize(tx))
TargetGenesis == Target(<<255, 255, 0, 29>>) = Rep(0, 4) \o <<255, 255>> \o Rep(0, 26)
=============================================================================
