------------------------------ MODULE TxFormat ------------------------------
(***************************************************************************)
(* Serialization of transactions and blocks (protocol documentation,       *)
(* BIP141/BIP144), byte level.                                             *)
(*                                                                         *)
(* A transaction is a record of byte sequences in wire order:              *)
(*   [version: 4, segwit: BOOLEAN, locktime: 4,                            *)
(*    ins:  Seq([txid: 32, vout: 4, script: bytes, seq: 4, wit: Seq(bytes)]),*)
(*    outs: Seq([value: 8, script: bytes])]                                *)
(* segwit = the extended (marker/flag) serialization is used; BIP144       *)
(* requires it exactly when some input has a non-empty witness stack.      *)
(*                                                                         *)
(* SerTx(tx, w) serializes (w = FALSE: witness-stripped form, whose        *)
(* double-SHA256 is the txid); ParseTx is a total parser (positions, no    *)
(* copying) returning [ok, tx, next].  Lengths are small naturals here:    *)
(* buffers of this model are far below 2^31 bytes.                         *)
(***************************************************************************)
EXTENDS Wire

HasWitness(tx) == \E i \in 1..Len(tx.ins) : tx.ins[i].wit # <<>>
WellFormedTx(tx) == /\ Len(tx.version) = 4 /\ Len(tx.locktime) = 4
                    /\ Len(tx.ins) >= 1 /\ Len(tx.outs) >= 1
                    /\ \A i \in 1..Len(tx.ins) : Len(tx.ins[i].txid) = 32 /\ Len(tx.ins[i].vout) = 4 /\ Len(tx.ins[i].seq) = 4
                    /\ \A i \in 1..Len(tx.outs) : Len(tx.outs[i].value) = 8
\* BIP144: the extended serialization is used exactly when there is a witness (a decoder rejects a superfluous flag)
Canonical144(tx) == tx.segwit <=> HasWitness(tx)

CS(n) == CSEnc(NatToLE(n, 256))            \* CompactSize of a small natural
VarBytes(d) == CS(Len(d)) \o d

RECURSIVE CatMap(_, _, _)
\* concatenation of F(s[i]) for i = k..Len(s)
CatMap(F(_), s, k) == IF k > Len(s) THEN <<>> ELSE F(s[k]) \o CatMap(F, s, k + 1)

SerIn(in) == in.txid \o in.vout \o VarBytes(in.script) \o in.seq
SerOut(o) == o.value \o VarBytes(o.script)
SerWitStack(in) == CS(Len(in.wit)) \o CatMap(VarBytes, in.wit, 1)

SerTx(tx, w) ==
    LET ext == w /\ tx.segwit IN
    tx.version \o (IF ext THEN <<0, 1>> ELSE <<>>)
      \o CS(Len(tx.ins)) \o CatMap(SerIn, tx.ins, 1)
      \o CS(Len(tx.outs)) \o CatMap(SerOut, tx.outs, 1)
      \o (IF ext THEN CatMap(SerWitStack, tx.ins, 1) ELSE <<>>)
      \o tx.locktime

\* named deviation "varstr-single-zero-byte": a script or witness item consisting of the single byte 00 is written as
\* 00 (as if it were empty) - see Wire / C18
VarBytesDev(d) == IF d = <<0>> THEN <<0>> ELSE VarBytes(d)
SerOutDev(o) == o.value \o VarBytesDev(o.script)
SerWitStackDev(in) == CS(Len(in.wit)) \o CatMap(VarBytesDev, in.wit, 1)
SerTxDev(tx, w) ==
    LET ext == w /\ tx.segwit IN
    tx.version \o (IF ext THEN <<0, 1>> ELSE <<>>)
      \o CS(Len(tx.ins)) \o CatMap(SerIn, tx.ins, 1)
      \o CS(Len(tx.outs)) \o CatMap(SerOutDev, tx.outs, 1)
      \o (IF ext THEN CatMap(SerWitStackDev, tx.ins, 1) ELSE <<>>)
      \o tx.locktime

\* ------------------------------------------------------- sizes (BIP141)
Size(tx) == Len(SerTx(tx, TRUE))
StrippedSize(tx) == Len(SerTx(tx, FALSE))
Weight(tx) == 3 * StrippedSize(tx) + Size(tx)
VSize(tx) == (Weight(tx) + 3) \div 4

\* ------------------------------------------------------------------ parser
Slice(b, p, n) == SubSeq(b, p, p + n - 1)
\* CompactSize at position p as a small natural: [ok, v, p] (p = next position)
ReadCS(b, p) ==
    IF p > Len(b) THEN [ok |-> FALSE, v |-> 0, p |-> p]
    ELSE LET f == b[p] IN
         IF f < 253 THEN [ok |-> TRUE, v |-> f, p |-> p + 1]
         ELSE IF f = 253 THEN (IF p + 2 > Len(b) THEN [ok |-> FALSE, v |-> 0, p |-> p]
                               ELSE [ok |-> TRUE, v |-> b[p + 1] + 256 * b[p + 2], p |-> p + 3])
         ELSE IF f = 254 THEN (IF p + 4 > Len(b) \/ b[p + 4] >= 128 THEN [ok |-> FALSE, v |-> 0, p |-> p]
                               ELSE [ok |-> TRUE, v |-> LEVal(Slice(b, p + 1, 4)), p |-> p + 5])
         ELSE [ok |-> FALSE, v |-> 0, p |-> p]        \* 8-byte form: beyond every buffer of this model
ReadVarBytes(b, p) ==
    LET c == ReadCS(b, p) IN
    IF ~c.ok \/ c.p + c.v - 1 > Len(b) THEN [ok |-> FALSE, d |-> <<>>, p |-> p]
    ELSE [ok |-> TRUE, d |-> Slice(b, c.p, c.v), p |-> c.p + c.v]

RECURSIVE ReadIns(_, _, _)
ReadIns(b, p, n) ==       \* n inputs from position p: [ok, l (sequence), p]
    IF n = 0 THEN [ok |-> TRUE, l |-> <<>>, p |-> p]
    ELSE IF p + 35 > Len(b) THEN [ok |-> FALSE, l |-> <<>>, p |-> p]
    ELSE LET s == ReadVarBytes(b, p + 36) IN
         IF ~s.ok \/ s.p + 3 > Len(b) THEN [ok |-> FALSE, l |-> <<>>, p |-> p]
         ELSE LET rest == ReadIns(b, s.p + 4, n - 1) IN
              [ok |-> rest.ok, p |-> rest.p,
               l |-> <<[txid |-> Slice(b, p, 32), vout |-> Slice(b, p + 32, 4), script |-> s.d,
                        seq |-> Slice(b, s.p, 4), wit |-> <<>>]>> \o rest.l]
RECURSIVE ReadOuts(_, _, _)
ReadOuts(b, p, n) ==
    IF n = 0 THEN [ok |-> TRUE, l |-> <<>>, p |-> p]
    ELSE IF p + 7 > Len(b) THEN [ok |-> FALSE, l |-> <<>>, p |-> p]
    ELSE LET s == ReadVarBytes(b, p + 8) IN
         IF ~s.ok THEN [ok |-> FALSE, l |-> <<>>, p |-> p]
         ELSE LET rest == ReadOuts(b, s.p, n - 1) IN
              [ok |-> rest.ok, p |-> rest.p, l |-> <<[value |-> Slice(b, p, 8), script |-> s.d]>> \o rest.l]
RECURSIVE ReadItems(_, _, _)
ReadItems(b, p, n) ==
    IF n = 0 THEN [ok |-> TRUE, l |-> <<>>, p |-> p]
    ELSE LET s == ReadVarBytes(b, p) IN
         IF ~s.ok THEN [ok |-> FALSE, l |-> <<>>, p |-> p]
         ELSE LET rest == ReadItems(b, s.p, n - 1) IN [ok |-> rest.ok, p |-> rest.p, l |-> <<s.d>> \o rest.l]
RECURSIVE ReadWits(_, _, _, _)
ReadWits(b, p, ins, k) ==      \* witness stacks for inputs k..Len(ins)
    IF k > Len(ins) THEN [ok |-> TRUE, l |-> <<>>, p |-> p]
    ELSE LET c == ReadCS(b, p) IN
         IF ~c.ok THEN [ok |-> FALSE, l |-> <<>>, p |-> p]
         ELSE LET it == ReadItems(b, c.p, c.v) IN
              IF ~it.ok THEN [ok |-> FALSE, l |-> <<>>, p |-> p]
              ELSE LET rest == ReadWits(b, it.p, ins, k + 1) IN
                   [ok |-> rest.ok, p |-> rest.p, l |-> <<[ins[k] EXCEPT !.wit = it.l]>> \o rest.l]

TxErr == [ok |-> FALSE, tx |-> [version |-> <<>>, segwit |-> FALSE, locktime |-> <<>>, ins |-> <<>>, outs |-> <<>>], p |-> 0]
ParseTxAt(b, p0) ==
    IF p0 + 4 > Len(b) THEN TxErr
    ELSE LET ext == b[p0 + 4] = 0 /\ p0 + 5 <= Len(b) /\ b[p0 + 5] = 1      \* marker 00, flag 01
             p1 == IF ext THEN p0 + 6 ELSE p0 + 4
             ni == ReadCS(b, p1) IN
         IF ~ni.ok \/ ni.v = 0 THEN TxErr
         ELSE LET ins == ReadIns(b, ni.p, ni.v) IN
         IF ~ins.ok THEN TxErr
         ELSE LET no == ReadCS(b, ins.p) IN
         IF ~no.ok THEN TxErr
         ELSE LET outs == ReadOuts(b, no.p, no.v) IN
         IF ~outs.ok THEN TxErr
         ELSE LET w == IF ext THEN ReadWits(b, outs.p, ins.l, 1) ELSE [ok |-> TRUE, l |-> ins.l, p |-> outs.p] IN
         IF ~w.ok \/ w.p + 3 > Len(b) THEN TxErr
         ELSE [ok |-> TRUE, p |-> w.p + 4,
               tx |-> [version |-> Slice(b, p0, 4), segwit |-> ext, locktime |-> Slice(b, w.p, 4),
                       ins |-> w.l, outs |-> outs.l]]
ParseTx(b) == LET r == ParseTxAt(b, 1) IN IF r.ok /\ r.p = Len(b) + 1 THEN r ELSE TxErr

\* ------------------------------------------------------------------ blocks
\* header: version 4, prev 32, merkle 32, time 4, bits 4, nonce 4 (wire order); then CompactSize count and transactions
SerHeader(h) == h.version \o h.prev \o h.merkle \o h.time \o h.bits \o h.nonce
RECURSIVE SerTxs(_, _)
SerTxs(txs, k) == IF k > Len(txs) THEN <<>> ELSE SerTx(txs[k], TRUE) \o SerTxs(txs, k + 1)
SerBlock(h, txs) == SerHeader(h) \o CS(Len(txs)) \o SerTxs(txs, 1)

\* target of the compact "bits" field (wire order: little endian; exponent = bits[4], mantissa = bits[3] bits[2] bits[1]),
\* as a 32-byte big-endian number: mantissa * 256^(exponent-3)
Target(bits) ==
    LET e == bits[4]
        m == <<bits[3], bits[2], bits[1]>>                      \* big-endian mantissa
        shifted == IF e >= 3 THEN m \o Rep(0, e - 3) ELSE SubSeq(m, 1, e)
    IN IF Len(shifted) >= 32 THEN SubSeq(shifted, Len(shifted) - 31, Len(shifted)) ELSE PadBE(shifted, 32)
=============================================================================
