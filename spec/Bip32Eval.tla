----------------------------- MODULE Bip32Eval -----------------------------
(***************************************************************************)
(* Conformance binding for Bip32.  TLC reads records - one call of the     *)
(* implementation each: the key it was made on, the path, what came back,  *)
(* and the oracle facts gathered so far - and either asks for the          *)
(* primitive applications the specification needs next (v = "need": the    *)
(* harness applies the reference primitive to the byte strings TLC built   *)
(* and comes back) or gives the verdict: the failing clause, the expected  *)
(* key and - where the answer is exactly what the specification yields     *)
(* with named deviations enabled - their names.  Python only transports    *)
(* values and applies primitives; every structural decision is taken here. *)
(*                                                                         *)
(* Record kinds                                                            *)
(*   path     start (seed | master key k,c | an observed key), pub (the    *)
(*            public extended key of start was taken first), api           *)
(*            (subkey_for_path | child_private | child_public), the path   *)
(*            as text or as list of elements, callnet (the optional        *)
(*            network argument, "" when omitted), mids (the answers to the *)
(*            same call on every proper prefix of the path), got (the      *)
(*            answer: observed key or refusal)                             *)
(*   commute  start (private), one element: N(CKDpriv) = CKDpub(N) under   *)
(*            the reference primitives (a check of spec + references)      *)
(*   eq       two observed keys must be the same key                       *)
(*   gen      (G) the path shapes of a given length                        *)
(* An observed key: [ok, priv, k, P (SEC1 compressed), c, depth, fp, idx,  *)
(*                   wifprv, wifpub]                                       *)
(***************************************************************************)
EXTENDS Bip32, Json, IOUtils, TLC

Recs == ndJsonDeserialize(IOEnv.IN_FILE)

\* order of the secp256k1 group, big-endian
Secp256k1N == <<255, 255, 255, 255, 255, 255, 255, 255, 255, 255, 255, 255, 255, 255, 255, 254,
                186, 174, 220, 230, 175, 72, 160, 59, 191, 210, 94, 140, 208, 54, 65, 65>>
ScalarBytes == 32

\* oracle table = the record's list of facts [f, a, o]
FactHas(F, q) == \E i \in 1..Len(F) : F[i].f = q.f /\ F[i].a = q.a
FactVal(F, q) == F[CHOOSE i \in 1..Len(F) : F[i].f = q.f /\ F[i].a = q.a].o

Verdict(v, devs, exp) == [v |-> v, dev |-> IF devs = <<>> THEN "" ELSE devs[1], devs |-> devs, exp |-> exp, need |-> <<>>, at |-> 0]
Good == Verdict("ok", <<>>, <<>>)
Ask(qs) == [v |-> "need", dev |-> "", devs |-> <<>>, exp |-> <<>>, need |-> qs, at |-> 0]

FromObs(F, o) ==
    IF o.priv THEN MkPriv(F, o.k, o.c, o.depth, o.fp, o.idx)
    ELSE Stage(F, <<QPoint(o.P)>>,
               IF Val(F, QPoint(o.P)) = <<>> THEN Fail ELSE Ok(MkPub(Val(F, QPoint(o.P)), o.c, o.depth, o.fp, o.idx)))

StartKey(F, s) == CASE s.kind = "seed" -> Master(F, s.seed)
                    [] s.kind = "key"  -> DirectMaster(F, s.k, s.c)
                    [] OTHER           -> FromObs(F, s.obs)
StartPriv(s) == s.kind # "obs" \/ s.obs.priv

Toks(r) == IF r.aslist THEN r.toks ELSE Tokens(r.path)

(* The optional `network` argument of a derivation call (r.callnet, "" = omitted) names the network of the       *)
(* resulting key object: it selects the version bytes of the serialization and nothing else.  Key material,      *)
(* chain code, depth, child number and parent fingerprint are those of BIP32 whatever is passed - no clause of   *)
(* Chain below looks at it.                                                                                      *)
(* A call that derives nothing (no element) may hand back the receiver as it is.                                  *)
EffNet(r) == IF r.callnet = "" \/ ParsePath(Toks(r)).elems = <<>> THEN r.net ELSE r.callnet

\* the call is a derivation from the private key (TRUE) or from the public key (FALSE):
\* child_public(i) is public derivation whatever the receiver, child_private(i, h) exists for private receivers only
Mode(r, pp) == r.api # "child_public" /\ StartPriv(r.start) /\ ~r.pub /\ ~pp.forcePub
ApiOk(r, priv) == r.api # "child_private" \/ priv

FromObsM(F, o, priv) == LET x == FromObs(F, o) IN IF x.st = "ok" /\ ~priv THEN Ok(Neuter(x.val)) ELSE x

(* first field in which an observed key differs from the specified one ("" = none).  For a call that derives      *)
(* nothing (no element) only the key material is compared: whether "M" alone hands back the receiver itself or    *)
(* its public extended key is not a matter of C03.                                                               *)
FirstDiff(key, g, zero) ==
    IF ~zero /\ g.priv # key.priv THEN "is-private"
    ELSE IF g.priv /\ key.priv /\ g.k # key.k THEN "private-key"
    ELSE IF g.P # SerP(key.K) THEN "public-key"
    ELSE IF g.Pu # SerP(key.K) /\ g.Pu # SerU(key.K) THEN "public-key-encoding"
    ELSE IF g.c # key.c THEN "chain-code"
    ELSE IF g.depth # key.depth THEN "depth"
    ELSE IF g.fp # key.fp THEN "parent-fingerprint"
    ELSE IF g.idx # key.idx THEN "child-number"
    ELSE ""

Flat(key) == <<key.k, SerP(key.K), key.c, <<key.depth>>, key.fp, key.idx>>

NeedsOf(rs) == Concat([i \in 1..Len(rs) |-> IF rs[i].st = "need" THEN rs[i].need ELSE <<>>])

(* The call of record r - receiver, path - against the specification with the deviations D enabled.             *)
(* The implementation's answers to every proper prefix of the path come with the record (r.mids); each element   *)
(* is judged as one derivation step from the key observed for the preceding prefix.  By induction over the       *)
(* prefixes this is the statement "the answer is the key the specification defines for the whole path" - and     *)
(* all steps can be evaluated side by side (their primitive applications do not depend on each other).           *)
Chain(F, r, D) ==
    LET pp    == ParsePath(Toks(r))
        priv  == Mode(r, pp)
        n     == Len(pp.elems)
        all   == r.mids \o <<r.got>>
        \* the object a step is made on: the receiver, then the answers to the prefixes
        pobj(j) == IF j = 1 THEN r.start.obs ELSE all[j - 1]
        \* (named deviation only) that object presents its key uncompressed
        unc(j)  == DevUncomp \in D /\ pobj(j).ok /\ ~pobj(j).comp
        plan0 == Plan(priv, pp.elems, D)
        plan  == [plan0 EXCEPT !.ok = @ /\ ApiOk(r, priv),
                               !.fired = @ \cup (IF plan0.ok /\ Len(r.mids) = n - 1 /\ \E j \in 1..n : unc(j)
                                                 THEN {DevUncomp} ELSE {})]
        s0    == StartKey(F, r.start)
        \* the receiver after everything it was asked before the call (r.hist): the same key
        start == IF s0.st # "ok" THEN s0
                 ELSE Ok(AfterHistory(IF priv THEN s0.val ELSE Neuter(s0.val), r.hist))
        prev(j) == IF j = 1 THEN start ELSE IF all[j - 1].ok THEN FromObsM(F, all[j - 1], priv) ELSE Fail
        exp(j)  == LET p == prev(j) IN IF p.st # "ok" THEN p ELSE ApplyStepU(F, p.val, plan.steps[j], unc(j))
        needs == IF ~plan.ok \/ n = 0 THEN NeedsOf(<<s0>>)
                 ELSE NeedsOf(<<s0>> \o [j \in 1..n |-> prev(j)] \o [j \in 1..n |-> exp(j)])
        RECURSIVE walk(_, _)
        pdepth(j) == IF j = 1 THEN start.val.depth ELSE all[j - 1].depth
        walk(j, len) ==
            IF j > n THEN [c |-> "", at |-> 0]
            \* a child of a key at depth 255 would have depth 256, which has no serialization: refusing it is right,
            \* and whatever an implementation does from there on is not compared
            ELSE IF (j = 1 \/ all[j - 1].ok) /\ pdepth(j) >= 255 THEN [c |-> "", at |-> 0]
            ELSE LET o == all[j]  e == exp(j)  l2 == len \/ plan.steps[j].lenient IN
                 IF (j > 1 /\ ~all[j - 1].ok) \/ e.st = "err"
                 THEN (IF o.ok THEN [c |-> IF e.st = "err" /\ ~(j > 1 /\ ~all[j - 1].ok) THEN "invalid-child-key-returned"
                                           ELSE "answered-after-refusing-prefix", at |-> j]
                       ELSE walk(j + 1, l2))
                 ELSE IF ~o.ok THEN (IF l2 THEN walk(j + 1, l2) ELSE [c |-> "refused-a-valid-path", at |-> j])
                 ELSE LET d == FirstDiff(e.val, o, FALSE) IN IF d # "" THEN [c |-> d, at |-> j] ELSE walk(j + 1, l2)
        verdict ==
            IF s0.st = "err" THEN [c |-> "record-start-key-invalid", at |-> 0]
            ELSE IF r.start.kind # "obs" /\ (~r.start.obs.ok \/ FirstDiff(s0.val, r.start.obs, FALSE) # "")
                 THEN [c |-> "master-key", at |-> 0]
            ELSE IF ~plan.ok THEN (IF r.got.ok THEN [c |-> "must-fail-but-returned-a-key", at |-> n] ELSE [c |-> "", at |-> 0])
            ELSE IF n = 0 THEN (IF ~r.got.ok THEN [c |-> "refused-a-valid-path", at |-> 0]
                                ELSE [c |-> FirstDiff(start.val, r.got, TRUE), at |-> 0])
            ELSE IF Len(r.mids) # n - 1 \/ \E i \in 1..Len(r.hist) : r.hist[i] \notin Observers
                 THEN [c |-> "record-malformed", at |-> 0]
            ELSE walk(1, FALSE)
    IN [plan |-> plan, needs |-> needs, n |-> n,
        v    |-> IF needs # <<>> THEN [c |-> "need", at |-> 0] ELSE verdict,
        last |-> IF needs # <<>> \/ s0.st # "ok" \/ ~plan.ok THEN Fail ELSE IF n = 0 THEN start ELSE exp(n)]

(* Applications of primitives to observed values, asked for in the first round so that the later stages find     *)
(* them in the table.  A fact is a true statement about a primitive whoever asks for it; it is only ever used    *)
(* where the specification's own argument equals the one it was asked for.                                       *)
ObsQs(o) == IF ~o.ok THEN <<>>
            ELSE (IF o.priv THEN <<QMulG(o.k)>> ELSE <<QPoint(o.P)>>) \o <<QHash160(o.P)>>
                 \o (IF o.comp THEN <<>> ELSE <<QHash160(o.Pu)>>)
StepQs(o, st, priv) == IF ~o.ok \/ st.act = "err" THEN <<>>
                       ELSE <<QHmac(o.c, (IF priv /\ st.hard /\ o.priv THEN <<0>> \o o.k ELSE o.P) \o st.idx)>>
                            \o (IF o.comp THEN <<>> ELSE <<QHmac(o.c, o.Pu \o st.idx)>>)
WifQs(g, net, wt) == IF ~g.ok \/ ~KnownVersion(net, wt) \/ g.depth > 255 THEN <<>>
                     ELSE LET ver == Versions[net][wt] body == <<g.depth>> \o g.fp \o g.idx \o g.c IN
                          <<QSha256d(ver.pub \o body \o g.P)>> \o
                          (IF g.priv THEN <<QSha256d(ver.prv \o body \o <<0>> \o g.k)>> ELSE <<>>)
Prefetch(r) ==
    LET pp    == ParsePath(Toks(r))
        priv  == Mode(r, pp)
        p0    == Plan(priv, pp.elems, {})
        p1    == Plan(priv, pp.elems, AllDevs)
        all   == <<r.start.obs>> \o r.mids \o <<r.got>>
        n     == Len(pp.elems)
        stepq(pl) == IF Len(r.mids) # n - 1 THEN <<>>
                     ELSE Concat([j \in 1..n |-> StepQs(all[j], pl.steps[j], priv)])
    IN (IF r.start.kind = "seed" THEN <<QHmac(BitcoinSeed, r.start.seed)>> ELSE <<>>)
       \o Concat([j \in 1..Len(all) |-> ObsQs(all[j])])
       \o stepq(p0) \o (IF p1.steps # p0.steps THEN stepq(p1) ELSE <<>>)
       \o WifQs(r.got, EffNet(r), r.wt)

WifCheck(F, key, g, net, wt) ==
    IF ~KnownVersion(net, wt) THEN Good
    ELSE LET ver  == Versions[net][wt]
             pubB == Base58CheckBytes(F, SerPub(key, ver.pub))
             both == g.priv /\ key.priv
             prvB == IF both THEN Base58CheckBytes(F, SerPriv(key, ver.prv)) ELSE Ok(<<>>)
         IN IF pubB.st = "need" \/ prvB.st = "need" THEN Ask(pubB.need \o prvB.need)
            ELSE IF ~IsB58Of(g.wifpub, pubB.val) THEN Verdict("xpub-serialization", <<>>, <<B58Enc(pubB.val)>>)
            ELSE IF both /\ ~IsB58Of(g.wifprv, prvB.val) THEN Verdict("xprv-serialization", <<>>, <<B58Enc(prvB.val)>>)
            ELSE Good

(* deviation sets under which a disagreement may be explained: the deviation of uncompressed parent objects alone, *)
(* the deviations of the path notation alone, all together                                                         *)
DevSets == <<{DevUncomp}, AllDevs \ {DevUncomp}, AllDevs>>

JPath(r) ==
    LET F     == r.facts
        c0    == Chain(F, r, {})
        cs    == [i \in 1..Len(DevSets) |-> Chain(F, r, DevSets[i])]
        \* some deviation of the set applies to this path
        cand(i) == cs[i].plan.fired # {} /\ cs[i].plan.ok /\ r.got.ok
        needs == c0.needs \o Concat([i \in 1..Len(DevSets) |-> IF cand(i) THEN cs[i].needs ELSE <<>>])
        hit   == {i \in 1..Len(DevSets) : cand(i) /\ cs[i].v.c = ""}
    IN IF F = <<>> THEN Ask(Prefetch(r) \o needs)
       ELSE IF needs # <<>> THEN Ask(needs)
       ELSE IF c0.v.c = "" THEN (IF c0.last.st = "ok" /\ r.got.ok THEN WifCheck(F, c0.last.val, r.got, EffNet(r), r.wt) ELSE Good)
       ELSE [Verdict(c0.v.c,
                     IF hit # {} THEN LET i == CHOOSE i \in hit : \A k \in hit : i <= k
                                      IN SelectSeq(DevOrder, LAMBDA x : x \in cs[i].plan.fired)
                     ELSE <<>>,
                     IF c0.last.st = "ok" THEN Flat(c0.last.val) ELSE <<>>)
             EXCEPT !.at = c0.v.at]

JCommute(r) ==
    LET F  == r.facts
        s  == StartKey(F, r.start)
        st == ElemStep(TRUE, ParseElem(r.tok), {})
    IN IF F = <<>> /\ r.start.kind = "obs" /\ st.act # "err"
       THEN Ask(ObsQs(r.start.obs) \o StepQs(r.start.obs, st, TRUE) \o StepQs(r.start.obs, st, FALSE))
       ELSE IF s.st = "need" THEN Ask(s.need)
       ELSE IF s.st = "err" \/ st.act = "err" \/ ~s.val.priv THEN Verdict("commute-record-malformed", <<>>, <<>>)
       ELSE LET a == CKDpriv(F, s.val, st.idx)
                b == CKDpub(F, s.val, st.idx)
            IN IF a.st = "need" \/ b.st = "need" THEN Ask(a.need \o b.need)
               ELSE IF Hardened(st.idx) THEN (IF b.st = "err" THEN Good ELSE Verdict("hardened-from-public", <<>>, <<>>))
               ELSE IF a.st = "err" /\ b.st = "err" THEN Good
               ELSE IF a.st = "ok" /\ b.st = "ok" /\ Neuter(a.val) = b.val THEN Good
               ELSE Verdict("commutation-fails-on-reference-primitives", <<>>, <<>>)

Judge(r) ==
    CASE r.k = "path"    -> JPath(r)
      [] r.k = "commute" -> JCommute(r)
      [] r.k = "eq"      -> IF r.a = r.b THEN Good ELSE Verdict("path-differs-from-stepwise-derivation", <<>>, <<>>)
      [] r.k = "gen"     -> Verdict("ok", <<>>, ShapesOfLen(r.depth))
      [] OTHER -> Verdict("unknown-record-kind", <<>>, <<>>)

\* the byte arithmetic on the real group order, and the two Base58 formulations against each other
NMinus(d) == [Secp256k1N EXCEPT ![32] = @ - d]
One32 == Rep(0, 31) \o <<1>>
ASSUME AddModN(NMinus(1), One32) = Rep(0, 32) /\ AddModN(NMinus(1), NMinus(1)) = NMinus(2)
ASSUME AddModN(One32, One32) = Rep(0, 31) \o <<2>>
ASSUME AddModN(<<128>> \o Rep(0, 31), <<128>> \o Rep(0, 31)) =            \* 2^256 mod n
          Rep(0, 15) \o <<1, 69, 81, 35, 25, 80, 183, 95, 196, 64, 45, 161, 115, 47, 201, 190, 191>>
ASSUME InRange(NMinus(1)) /\ ~InRange(Secp256k1N) /\ ~InRange(Rep(0, 32)) /\ InRange(One32) /\ ~InRange(Rep(255, 32))
ASSUME \A b \in {<<0, 0, 1, 2, 3>>, <<4, 136, 178, 30, 0, 255, 17>>, <<>>, <<0>>, <<255, 255, 255>>} :
          IsB58Of(B58Enc(b), b) /\ ~IsB58Of(<<49>> \o B58Enc(b), b) /\ ~IsB58Of(B58Enc(b) \o <<50>>, b)

Out == [i \in 1..Len(Recs) |-> Judge(Recs[i])]
ASSUME ndJsonSerialize(IOEnv.OUT_FILE, Out)
=============================================================================
