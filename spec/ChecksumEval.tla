---------------------------- MODULE ChecksumEval ----------------------------
(***************************************************************************)
(* Conformance binding of Checksum.tla (C11).  TLC reads ndjson records    *)
(* and writes one verdict per record.                                      *)
(*                                                                         *)
(*  generation / term building (spec -> code)                              *)
(*    b58enc  bytes                  -> string          (B58Encode)        *)
(*    segenc  hrp, ver, prog         -> string          (SegwitEncode)     *)
(*    b32raw  hrp, 5-bit data, const -> string          (Bech32EncodeRaw)  *)
(*    dec     string -> decoded bytes (strict and with I/O folded) and the *)
(*            byte strings whose sha256d the verdict depends on (the       *)
(*            harness applies harness/ref.py and hands the values back as  *)
(*            oracle facts hs = [m, h])                                    *)
(*  judgement (code -> spec)                                               *)
(*    j       string s, its decodings d/f (as returned by `dec`), oracle   *)
(*            facts hs, and what every import path of the implementation   *)
(*            answered (obs).  Each observation is compared with the       *)
(*            specification; a disagreement is attributed to a named       *)
(*            deviation only if the observation equals what the spec       *)
(*            yields with exactly that deviation set enabled.              *)
(*            An observation says whether the call RAISED (acc = FALSE) or *)
(*            came back (acc = TRUE) - with nul = TRUE when what came back *)
(*            is None / empty: that is acceptance, never a refusal.        *)
(*            argp / argn: the prefix= / network= argument handed over;    *)
(*            rd: decoding (pass 1) of the string addr_convert returned.   *)
(***************************************************************************)
EXTENDS Checksum, Json, IOUtils, TLC

Recs == ndJsonDeserialize(IOEnv.IN_FILE)

(* ---------------- pass 1: decoding and hash requests ---------------- *)
NoDec == [ok |-> FALSE, b |-> <<>>]
MsgsOf(x) == IF ~x.ok THEN <<>>
             ELSE (IF Len(x.b) >= 5 THEN <<Payload(x.b)>> ELSE <<>>)
                  \o (IF Len(x.b) < 25 THEN <<Payload(PadBE(x.b, 25))>> ELSE <<>>)
DecOut(s) == LET d == B58Decode(s)
                 f == IF HasIO(s) THEN B58Decode(Fold(s)) ELSE NoDec
             IN [d |-> d, f |-> f, hasf |-> HasIO(s), ms |-> MsgsOf(d) \o MsgsOf(f)]

(* ---------------- import paths of the implementation ---------------- *)
\* address paths.  A name without suffix is the call with default arguments; suffixes are the explicit optional
\* arguments: _b58 / _b32 encoding='base58' / 'bech32', _hex as_hex=True, _pfx prefix=<o.argp> (expected human readable
\* part), _net network=<o.argn>.  conv* = addr_convert(s, prefix=<o.argp>, encoding=..): decode and re-encode under
\* another version byte / human readable part.
A2P   == {"a2p", "a2p_b58", "a2p_b32", "a2p_hex"}             \* addr_to_pubkeyhash
AB58  == {"ab58", "ab58_hex"}                                 \* addr_base58_to_pubkeyhash
AB32  == {"ab32", "ab32_hex", "ab32_pfx"}                     \* addr_bech32_to_pubkeyhash
DESER == {"deser", "deser_b58", "deser_b32", "deser_net"}     \* deserialize_address
PARSE == {"parse", "parse_b58", "parse_b32", "parse_net"}     \* Address.parse
CONV  == {"conv", "conv_b58", "conv_b32"}                     \* addr_convert
\* which encodings the call is documented to take
PB58(p) == p \in {"a2p", "a2p_b58", "a2p_hex", "deser", "deser_b58", "deser_net", "parse", "parse_b58", "parse_net",
                  "output", "conv", "conv_b58"} \cup AB58
PB32(p) == p \in {"a2p", "a2p_b32", "a2p_hex", "deser", "deser_b32", "deser_net", "parse", "parse_b32", "parse_net",
                  "output", "conv", "conv_b32"} \cup AB32
\* key paths: which kinds of Base58Check strings the function is documented to import (a valid string of such a kind
\* must be accepted) ...
PKinds(p) == CASE p = "key"      -> {"wif"}
               [] p = "keyfw"    -> {"wif"}
               [] p = "hdkey"    -> {"xkey", "wif"}
               [] p = "hdfw"     -> {"xkey"}
               [] p = "wallet"   -> {}          \* a wallet has requirements of its own (depth, key path): may refuse
               [] p = "key_pw"   -> {"wif", "bip38"}
               [] p = "hdkey_pw" -> {"xkey", "wif", "bip38"}
               [] OTHER          -> {}
\* ... and which it may take or refuse as it likes (C11 only demands that what is accepted is valid and decoded right)
PMay(p) == {"wif", "xkey"} \ PKinds(p)

\* further named deviations that exist only at the binding level (a field of the answer, not the decoder)
DevUpper  == "bech32-uppercase-network-lost"   \* deserialize_address looks the HRP up as written: an all-upper-case address
                                               \* is decoded correctly but reported with prefix in upper case and no network
DevParseWv == "address-parse-drops-witness-version"   \* Address.parse does not hand the witness version on: the Address
                                               \* object of a v1..v16 address re-encodes as the v0 (Bech32) address
DevKeyXpub == "key-class-reads-xpub-string-as-bytes"  \* Key(s): a string whose first four decoded bytes are an extended
                                               \* PUBLIC key version is not decoded at all; its characters become the key
DevA2pNone == "a2p-explicit-base58-returns-none"      \* addr_to_pubkeyhash(s, encoding='base58'): when the Base58 decoder
                                               \* refuses s for its ALPHABET or its LENGTH the function returns None instead
                                               \* of raising (a checksum failure does raise); addr_convert(s, prefix,
                                               \* encoding='base58') then returns Base58Check(prefix || empty hash)
DevNetArg == "bech32-network-argument-ignored"        \* deserialize_address / Address.parse (.., network=n): for a Bech32
                                               \* string n is not compared with the human readable part (which need not
                                               \* belong to any network either); Address.parse reports network n

\* fixed order (names of combinations are joined in this order)
DevOrder == <<DevFold, DevPad, DevAddrLen, DevAddrVer, DevHrp, DevUpper, DevParseWv, DevA2pNone, DevNetArg, DevWif01, DevWifLen, DevXCheck,
              DevXLen, DevXData, Dev38, DevKeyXpub>>

\* which import paths a deviation describes (elsewhere the same symptom is a violation)
DevApplies(dv, p) ==
    CASE dv = DevPad     -> p \in A2P \cup AB58 \cup DESER \cup PARSE \cup CONV \cup {"output"}
      [] dv = DevFold    -> TRUE
      [] dv = DevAddrLen -> p \in DESER \cup PARSE \cup {"output", "conv"}
      \* the decoders that are given no network accept any version byte / human readable part (with network= or
      \* prefix= given they must not)
      [] dv = DevAddrVer -> p \in A2P \cup AB58 \cup CONV \cup {"deser", "deser_b58"}
      [] dv = DevHrp     -> p \in A2P \cup AB32 \cup CONV \cup {"deser", "deser_b32"}
      [] dv = DevUpper   -> p \in DESER
      [] dv = DevParseWv -> p \in PARSE
      [] dv = DevA2pNone -> p \in {"a2p_b58", "conv_b58"}
      [] dv = DevNetArg  -> p \in {"deser_net", "parse_net"}
      [] dv = DevXCheck  -> p \in {"hdkey", "hdfw", "wallet", "hdkey_pw"}
      [] dv = DevXLen    -> p \in {"hdkey", "hdkey_pw", "wallet"}
      [] dv = DevXData   -> p \in {"hdkey", "hdfw", "wallet", "hdkey_pw"}
      [] dv = DevWifLen  -> p \in {"key", "keyfw", "hdkey", "key_pw", "hdkey_pw"}
      [] dv = DevWif01   -> p \in {"key", "keyfw", "hdkey", "key_pw", "hdkey_pw"}
      [] dv = Dev38      -> p \in {"key_pw", "hdkey_pw"}
      [] dv = DevKeyXpub -> p \in {"key", "key_pw"}
      [] OTHER           -> FALSE

(* ---------------- expected observation of one path under deviation set D ---------------- *)
NoExp(why) == [acc |-> FALSE, why |-> why, cls |-> "", pay |-> <<>>, ver |-> <<>>, wv |-> 0 - 1, nets |-> {}, chknet |-> FALSE,
               re |-> <<>>, chkre |-> FALSE, comp |-> 0, priv |-> FALSE, hd |-> <<>>, chkhd |-> FALSE, mayrefuse |-> FALSE,
               chkpay |-> TRUE,
               nul |-> FALSE,                     \* the call returns None / an empty value without raising
               conv |-> "", cbytes |-> <<>>]      \* addr_convert: kind of result and (Base58) its decoded bytes

\* seg: SegwitDecodeD(r.s, {DevHrp}), computed once per record (the HRP table is the only rule a deviation relaxes)
Exp(r, seg, o, D) ==
    LET p == o.p
        H(m) == LET c == {i \in 1..Len(r.hs) : r.hs[i].m = m}
                IN IF c = {} THEN <<0 - 1>> ELSE r.hs[CHOOSE i \in c : TRUE].h
        dd   == IF DevFold \in D /\ r.hasf THEN r.f ELSE r.d
        K(kind) == IF dd.ok THEN CheckBytesD(dd.b, kind, H, D) ELSE Reject("alphabet")
    IN
    IF r.fam = "addr" THEN
        LET r58 == IF PB58(p) THEN K("addr") ELSE Reject("not-taken")
            r32 == IF ~PB32(p) THEN B32Reject("not-taken")
                   ELSE IF seg.ok /\ HrpNets(seg.hrp) = {} /\ ~(DevHrp \in D) /\ ~(DevNetArg \in D) THEN B32Reject("hrp")
                   ELSE seg
        IN IF DevA2pNone \in D /\ p \in {"a2p_b58", "conv_b58"} /\ ~r58.ok /\ r58.why \in {"alphabet", "length"} THEN
               IF p = "a2p_b58" THEN [NoExp("") EXCEPT !.acc = TRUE, !.cls = "none", !.nul = TRUE]
               ELSE [NoExp("") EXCEPT !.acc = TRUE, !.cls = "convert-empty", !.chkpay = FALSE, !.conv = "empty",
                                      !.cbytes = o.argp \o H(o.argp)]
           ELSE IF r58.ok /\ o.argn # "" /\ ~(o.argn \in AddrNets[r58.p[1]]) THEN NoExp("network-argument")
           ELSE IF r58.ok THEN
               LET nets == IF AddrNets[r58.p[1]] = {} THEN {""} ELSE AddrNets[r58.p[1]]
                   hash == SubSeq(r58.p, 2, Len(r58.p))
               IN
               IF p \in CONV THEN [NoExp("") EXCEPT !.acc = TRUE, !.cls = "base58", !.pay = hash, !.chkpay = FALSE,
                                                    !.conv = "base58", !.cbytes = o.argp \o hash \o H(o.argp \o hash)]
               ELSE
               [NoExp("") EXCEPT !.acc = TRUE, !.cls = "base58", !.pay = SubSeq(r58.p, 2, Len(r58.p)), !.ver = <<r58.p[1]>>,
                                 !.nets = nets, !.chknet = TRUE,
                                 !.re = IF D \cap {DevFold, DevPad} = {} THEN r.s ELSE B58Encode(r58.p \o H(r58.p)),
                                 !.chkre = TRUE,
                                 \* Output(address=..) is given no network here: it works on the default network bitcoin
                                 !.mayrefuse = (p = "output" /\ ~("bitcoin" \in nets))]
           ELSE IF r32.ok /\ p = "ab32_pfx" /\ r32.hrp # o.argp THEN NoExp("prefix-argument")
           ELSE IF r32.ok /\ o.argn # "" /\ ~(o.argn \in HrpNets(r32.hrp)) /\ ~(DevNetArg \in D) THEN NoExp("network-argument")
           ELSE IF r32.ok /\ p \in CONV THEN
               [NoExp("") EXCEPT !.acc = TRUE, !.cls = "bech32", !.pay = r32.prog, !.wv = r32.ver, !.chkpay = FALSE,
                                 !.conv = "bech32",
                                 !.mayrefuse = r32.upper \/ ~((r32.ver = 0) \/ (r32.ver = 1 /\ Len(r32.prog) = 32))]
           ELSE IF r32.ok THEN
               LET up   == r32.upper /\ DevUpper \in D
                   nets == IF DevNetArg \in D /\ p \in PARSE THEN {o.argn}
                           ELSE IF up \/ HrpNets(r32.hrp) = {} THEN {""} ELSE HrpNets(r32.hrp)
                   std  == (r32.ver = 0) \/ (r32.ver = 1 /\ Len(r32.prog) = 32)       \* P2WPKH, P2WSH, P2TR
               IN
               [NoExp("") EXCEPT !.acc = TRUE, !.cls = "bech32", !.pay = r32.prog, !.wv = r32.ver,
                                 !.ver = IF up THEN ToUpper(r32.hrp) ELSE r32.hrp,
                                 !.nets = nets, !.chknet = TRUE,
                                 !.re = IF DevParseWv \in D /\ r32.ver > 0
                                        THEN Bech32EncodeRaw(r32.hrp, <<0>> \o To5(r32.prog), Bech32Const)
                                        ELSE ToLower(r.s),
                                 !.chkre = TRUE,
                                 \* BIP173: decoders accept all-upper-case; this property asks for the canonical (lower
                                 \* case) string, so refusing the upper-case form is allowed as well.  Witness programs
                                 \* without a defined meaning (v2..v16, v1 of other lengths) may be refused.
                                 !.mayrefuse = r32.upper \/ ~std \/ (p = "output" /\ ~("bitcoin" \in nets))]
           ELSE NoExp(IF ~PB32(p) THEN (IF dd.ok THEN r58.why ELSE "alphabet")
                      ELSE IF PB58(p) /\ dd.ok THEN r58.why ELSE r32.why)
    ELSE
        LET ks  == PKinds(p) \cup PMay(p)
            rw  == IF "wif" \in ks THEN K("wif") ELSE Reject("not-taken")
            rx  == IF "xkey" \in ks THEN K("xkey") ELSE Reject("not-taken")
            r38 == IF "bip38" \in ks THEN K("bip38") ELSE Reject("not-taken")
        IN IF DevKeyXpub \in D /\ dd.ok /\ Len(dd.b) >= 4 /\ SubSeq(dd.b, 1, 4) \in XPub THEN
               [NoExp("") EXCEPT !.acc = TRUE, !.cls = "xpub-as-bytes", !.priv = FALSE, !.comp = 1, !.pay = r.s]
           ELSE IF rw.ok THEN
               LET q == rw.p
                   \* trailing 01 of a 34-byte payload: compressed public key.  (DevWif01: also of a 33-byte payload;
                   \* DevWifLen: of any other length.)
                   c == IF q[Len(q)] = 1 /\ (Len(q) = 34 \/ (Len(q) = 33 /\ DevWif01 \in D)
                                                         \/ (~(Len(q) \in {33, 34}) /\ DevWifLen \in D)) THEN 1 ELSE 0
               IN [NoExp("") EXCEPT !.acc = TRUE, !.cls = "wif", !.priv = TRUE, !.comp = c,
                                    !.pay = SubSeq(q, 2, Len(q) - c), !.nets = WifNets[q[1]], !.chknet = TRUE,
                                    !.re = r.s, !.chkre = (D = {}),
                                    !.mayrefuse = ~("wif" \in PKinds(p)) \/ Ambiguous(WifNets[q[1]])]
           ELSE IF rx.ok THEN
               LET b  == dd.b                      \* fixed offsets of the BIP32 serialization
                   pr == b[46] = 0                 \* (= the version is a private one, unless DevXData)
               IN [NoExp("") EXCEPT !.acc = TRUE, !.cls = "xkey", !.priv = pr, !.comp = 1,
                                    !.pay = IF pr THEN SubSeq(b, 47, 78) ELSE SubSeq(b, 46, 78),
                                    !.hd = SubSeq(b, 5, 45), !.chkhd = TRUE,
                                    \* DevXData with a key-data prefix other than 00/02/03: the 33 bytes are handed on
                                    \* as they are and what becomes of them is not predicted (the input class is)
                                    !.chkpay = b[46] \in {0, 2, 3},
                                    !.nets = XNets(SubSeq(b, 1, 4)), !.chknet = TRUE,
                                    !.re = r.s, !.chkre = (D = {}),
                                    !.mayrefuse = ~("xkey" \in PKinds(p)) \/ Ambiguous(XNets(SubSeq(b, 1, 4)))]
           ELSE IF r38.ok THEN
               \* decryption is a primitive: the harness supplies the key of the seed string (published BIP38 vector);
               \* any other payload fails the address-hash test of BIP38 (assumption: no 32-bit collision)
               IF Payload(dd.b) = Payload(r.sd)
               THEN [NoExp("") EXCEPT !.acc = TRUE, !.cls = "bip38", !.priv = TRUE, !.comp = r.ocomp, !.pay = r.okey]
               ELSE NoExp("bip38-address-hash")
           ELSE NoExp(IF ~dd.ok THEN "alphabet"
                      ELSE IF "xkey" \in ks /\ Len(dd.b) > 60 THEN rx.why
                      ELSE IF "bip38" \in ks /\ Len(dd.b) > 40 THEN r38.why
                      ELSE IF "wif" \in ks THEN rw.why ELSE rx.why)

\* first clause in which observation o differs from expectation e ("" = agrees)
\* result of addr_convert: the returned string must be the address of the same hash under the requested version byte
\* (Base58: judged on its decoding o.rd, Base58 being a bijection) or human readable part (the witness version of a
\* converted v1+ address is not judged here)
ConvOk(o, e) ==
    CASE e.conv \in {"base58", "empty"} -> o.rd.ok /\ o.rd.b = e.cbytes
      [] e.conv = "bech32" -> IF e.wv = 0
                              THEN LET x == SegwitDecodeD(o.re, {DevHrp}) IN x.ok /\ x.hrp = o.argp /\ x.prog = e.pay /\ x.ver = 0
                              \* v1..v16: only the generic layer (human readable part, checksum, program); which
                              \* witness version a converted address carries belongs to C05
                              ELSE LET x == Bech32Parse(o.re) IN
                                   /\ x.ok /\ x.hrp = o.argp /\ x.const \in {Bech32Const, Bech32mConst} /\ x.data # <<>>
                                   /\ From5(Tail(x.data)) = [ok |-> TRUE, b |-> e.pay]
      [] OTHER -> TRUE

\* The property: an invalid string RAISES.  A call that comes back without raising has accepted the string, also when
\* what it returns is None / empty (o.nul): nothing in the documentation of these functions makes a return value a
\* failure signal.
Clause(o, e) ==
    IF o.nul /\ ~e.nul THEN (IF e.acc THEN "returned-nothing-for-valid" ELSE "returned-nothing-without-raising-" \o e.why)
    ELSE IF e.nul THEN (IF o.nul THEN "" ELSE IF o.acc THEN "value-where-none-predicted" ELSE "raised-where-none-predicted")
    ELSE IF o.acc /\ ~e.acc THEN "accepted-invalid-" \o e.why
    ELSE IF ~o.acc /\ e.acc THEN (IF e.mayrefuse THEN "" ELSE "rejected-valid")
    ELSE IF ~o.acc THEN ""
    ELSE IF e.chkpay /\ o.pay # e.pay THEN "payload"
    ELSE IF o.hasver /\ o.ver # e.ver THEN "version"
    ELSE IF o.haswv /\ o.wv # e.wv THEN "witness-version"
    ELSE IF o.hasnet /\ e.chknet /\ ~(o.net \in e.nets) THEN "network"
    ELSE IF o.iskey /\ e.chkpay /\ (o.priv # e.priv \/ o.comp # e.comp) THEN "key-flags"
    ELSE IF o.hashd /\ e.chkhd /\ o.hd # e.hd THEN "hd-fields"
    ELSE IF o.rok /\ e.chkre /\ o.re # e.re THEN "reencode"
    ELSE IF e.conv # "" /\ ~ConvOk(o, e) THEN "converted-address"
    ELSE ""

RECURSIVE JoinNames(_, _)
JoinNames(S, i) == IF i > Len(DevOrder) THEN ""
                   ELSE LET rest == JoinNames(S, i + 1) IN
                        IF DevOrder[i] \in S THEN (IF rest = "" THEN DevOrder[i] ELSE DevOrder[i] \o "+" \o rest) ELSE rest

Needed(r) == Range(MsgsOf(r.d) \o MsgsOf(r.f))
\* the smallest set of applicable deviations under which the specification yields exactly the observation
JudgeObs(r, seg, o) ==
    LET e0 == Exp(r, seg, o, {})
        c0 == Clause(o, e0)
        out(v, dev) == [p |-> o.p, v |-> v, dev |-> dev, exp |-> [acc |-> e0.acc, pay |-> e0.pay, why |-> e0.why]]
    IN IF c0 = "" THEN out("ok", "")
       ELSE LET app  == {dv \in Range(DevOrder) : DevApplies(dv, o.p)}
                hits == {S \in SUBSET app : S # {} /\ Cardinality(S) <= 3 /\ Clause(o, Exp(r, seg, o, S)) = ""}
            IN IF hits = {} THEN out(c0, "")
               ELSE out(c0, JoinNames(CHOOSE S \in hits : \A T \in hits : Cardinality(S) <= Cardinality(T), 1))

JudgeRec(r) ==
    IF ~(Needed(r) \subseteq {r.hs[i].m : i \in 1..Len(r.hs)})
    THEN [v |-> "machinery-missing-hash", dev |-> "", exp |-> <<>>]
    ELSE LET seg == IF r.fam = "addr" THEN SegwitDecodeD(r.s, {DevHrp}) ELSE B32Reject("not-taken")
             vs  == [i \in 1..Len(r.obs) |-> JudgeObs(r, seg, r.obs[i])]
         IN [v |-> IF \A i \in 1..Len(vs) : vs[i].v = "ok" THEN "ok" ELSE "disagree", dev |-> "", exp |-> vs]

Judge(r) ==
  CASE r.k = "b58enc" -> [v |-> "ok", dev |-> "", exp |-> B58Encode(r.b)]
    [] r.k = "segenc" -> [v |-> "ok", dev |-> "", exp |-> SegwitEncode(r.hrp, r.ver, r.prog)]
    [] r.k = "b32raw" -> [v |-> "ok", dev |-> "", exp |-> Bech32EncodeRaw(r.hrp, r.data, IF r.m THEN Bech32mConst ELSE Bech32Const)]
    [] r.k = "dec"    -> [v |-> "ok", dev |-> "", exp |-> DecOut(r.s)]
    [] r.k = "j"      -> JudgeRec(r)
    [] OTHER          -> [v |-> "unknown-record-kind", dev |-> "", exp |-> <<>>]

Out == [i \in 1..Len(Recs) |-> Judge(Recs[i])]
ASSUME ndJsonSerialize(IOEnv.OUT_FILE, Out)
=============================================================================
