---------------------------- MODULE ChecksumEval ----------------------------
(***************************************************************************)
(* Conformance binding of Checksum.tla (C11).  TLC reads ndjson records    *)
(* and writes one verdict per record.                                      *)
(*                                                                         *)
(*  generation / term building (spec -> code)                              *)
(*    b58enc  bytes                  -> string          (B58Encode)        *)
(*    segenc  hrp, ver, prog         -> string          (SegwitEncode)     *)
(*    b32raw  hrp, 5-bit data, const -> string          (Bech32EncodeRaw)  *)
(*    dec     string -> decoded bytes (strict and with I/O folded) and the *)
(*            byte strings whose sha256d the verdict depends on (the       *)
(*            harness applies harness/ref.py and hands the values back as  *)
(*            oracle facts hs = [m, h])                                    *)
(*  judgement (code -> spec)                                               *)
(*    j       string s, its decodings d/f (as returned by `dec`), oracle   *)
(*            facts hs, and what every import path of the implementation   *)
(*            answered (obs).  Each observation is compared with the       *)
(*            specification; a disagreement is attributed to a named       *)
(*            deviation only if the observation equals what the spec       *)
(*            yields with exactly that deviation set enabled.              *)
(***************************************************************************)
EXTENDS Checksum, Json, IOUtils, TLC

Recs == ndJsonDeserialize(IOEnv.IN_FILE)

(* ---------------- pass 1: decoding and hash requests ---------------- *)
NoDec == [ok |-> FALSE, b |-> <<>>]
MsgsOf(x) == IF ~x.ok THEN <<>>
             ELSE (IF Len(x.b) >= 5 THEN <<Payload(x.b)>> ELSE <<>>)
                  \o (IF Len(x.b) < 25 THEN <<Payload(PadBE(x.b, 25))>> ELSE <<>>)
DecOut(s) == LET d == B58Decode(s)
                 f == IF HasIO(s) THEN B58Decode(Fold(s)) ELSE NoDec
             IN [d |-> d, f |-> f, hasf |-> HasIO(s), ms |-> MsgsOf(d) \o MsgsOf(f)]

(* ---------------- import paths of the implementation ---------------- *)
\* address paths: which encodings the function is documented to take
PB58(p) == p \in {"a2p", "ab58", "deser", "parse", "output"}
PB32(p) == p \in {"a2p", "ab32", "deser", "parse", "output"}
\* key paths: which kinds of Base58Check strings the function is documented to import (a valid string of such a kind
\* must be accepted) ...
PKinds(p) == CASE p = "key"      -> {"wif"}
               [] p = "keyfw"    -> {"wif"}
               [] p = "hdkey"    -> {"xkey", "wif"}
               [] p = "hdfw"     -> {"xkey"}
               [] p = "wallet"   -> {}          \* a wallet has requirements of its own (depth, key path): may refuse
               [] p = "key_pw"   -> {"wif", "bip38"}
               [] p = "hdkey_pw" -> {"xkey", "wif", "bip38"}
               [] OTHER          -> {}
\* ... and which it may take or refuse as it likes (C11 only demands that what is accepted is valid and decoded right)
PMay(p) == {"wif", "xkey"} \ PKinds(p)

\* further named deviations that exist only at the binding level (a field of the answer, not the decoder)
DevUpper  == "bech32-uppercase-network-lost"   \* deserialize_address looks the HRP up as written: an all-upper-case address
                                               \* is decoded correctly but reported with prefix in upper case and no network
DevParseWv == "address-parse-drops-witness-version"   \* Address.parse does not hand the witness version on: the Address
                                               \* object of a v1..v16 address re-encodes as the v0 (Bech32) address
DevKeyXpub == "key-class-reads-xpub-string-as-bytes"  \* Key(s): a string whose first four decoded bytes are an extended
                                               \* PUBLIC key version is not decoded at all; its characters become the key

\* fixed order (names of combinations are joined in this order)
DevOrder == <<DevFold, DevPad, DevAddrLen, DevAddrVer, DevHrp, DevUpper, DevParseWv, DevWif01, DevWifLen, DevXCheck, DevXLen,
              DevXData, Dev38, DevKeyXpub>>

\* which import paths a deviation describes (elsewhere the same symptom is a violation)
DevApplies(dv, p) ==
    CASE dv = DevPad     -> p \in {"a2p", "ab58", "deser", "parse", "output"}
      [] dv = DevFold    -> TRUE
      [] dv = DevAddrLen -> p \in {"deser", "parse", "output"}
      [] dv = DevAddrVer -> p \in {"a2p", "ab58", "deser"}
      [] dv = DevHrp     -> p \in {"a2p", "ab32", "deser"}
      [] dv = DevUpper   -> p = "deser"
      [] dv = DevParseWv -> p = "parse"
      [] dv = DevXCheck  -> p \in {"hdkey", "hdfw", "wallet", "hdkey_pw"}
      [] dv = DevXLen    -> p \in {"hdkey", "hdkey_pw", "wallet"}
      [] dv = DevXData   -> p \in {"hdkey", "hdfw", "wallet", "hdkey_pw"}
      [] dv = DevWifLen  -> p \in {"key", "keyfw", "hdkey", "key_pw", "hdkey_pw"}
      [] dv = DevWif01   -> p \in {"key", "keyfw", "hdkey", "key_pw", "hdkey_pw"}
      [] dv = Dev38      -> p \in {"key_pw", "hdkey_pw"}
      [] dv = DevKeyXpub -> p \in {"key", "key_pw"}
      [] OTHER           -> FALSE

(* ---------------- expected observation of one path under deviation set D ---------------- *)
NoExp(why) == [acc |-> FALSE, why |-> why, cls |-> "", pay |-> <<>>, ver |-> <<>>, wv |-> 0 - 1, nets |-> {}, chknet |-> FALSE,
               re |-> <<>>, chkre |-> FALSE, comp |-> 0, priv |-> FALSE, hd |-> <<>>, chkhd |-> FALSE, mayrefuse |-> FALSE,
               chkpay |-> TRUE]

\* seg: SegwitDecodeD(r.s, {DevHrp}), computed once per record (the HRP table is the only rule a deviation relaxes)
Exp(r, seg, p, D) ==
    LET H(m) == LET c == {i \in 1..Len(r.hs) : r.hs[i].m = m}
                IN IF c = {} THEN <<0 - 1>> ELSE r.hs[CHOOSE i \in c : TRUE].h
        dd   == IF DevFold \in D /\ r.hasf THEN r.f ELSE r.d
        K(kind) == IF dd.ok THEN CheckBytesD(dd.b, kind, H, D) ELSE Reject("alphabet")
    IN
    IF r.fam = "addr" THEN
        LET r58 == IF PB58(p) THEN K("addr") ELSE Reject("not-taken")
            r32 == IF ~PB32(p) THEN B32Reject("not-taken")
                   ELSE IF seg.ok /\ HrpNets(seg.hrp) = {} /\ ~(DevHrp \in D) THEN B32Reject("hrp") ELSE seg
        IN IF r58.ok THEN
               LET nets == IF AddrNets[r58.p[1]] = {} THEN {""} ELSE AddrNets[r58.p[1]] IN
               [NoExp("") EXCEPT !.acc = TRUE, !.cls = "base58", !.pay = SubSeq(r58.p, 2, Len(r58.p)), !.ver = <<r58.p[1]>>,
                                 !.nets = nets, !.chknet = TRUE,
                                 !.re = IF D \cap {DevFold, DevPad} = {} THEN r.s ELSE B58Encode(r58.p \o H(r58.p)),
                                 !.chkre = TRUE,
                                 \* Output(address=..) is given no network here: it works on the default network bitcoin
                                 !.mayrefuse = (p = "output" /\ ~("bitcoin" \in nets))]
           ELSE IF r32.ok THEN
               LET up   == r32.upper /\ DevUpper \in D
                   nets == IF up \/ HrpNets(r32.hrp) = {} THEN {""} ELSE HrpNets(r32.hrp)
                   std  == (r32.ver = 0) \/ (r32.ver = 1 /\ Len(r32.prog) = 32)       \* P2WPKH, P2WSH, P2TR
               IN
               [NoExp("") EXCEPT !.acc = TRUE, !.cls = "bech32", !.pay = r32.prog, !.wv = r32.ver,
                                 !.ver = IF up THEN ToUpper(r32.hrp) ELSE r32.hrp,
                                 !.nets = nets, !.chknet = TRUE,
                                 !.re = IF DevParseWv \in D /\ r32.ver > 0
                                        THEN Bech32EncodeRaw(r32.hrp, <<0>> \o To5(r32.prog), Bech32Const)
                                        ELSE ToLower(r.s),
                                 !.chkre = TRUE,
                                 \* BIP173: decoders accept all-upper-case; this property asks for the canonical (lower
                                 \* case) string, so refusing the upper-case form is allowed as well.  Witness programs
                                 \* without a defined meaning (v2..v16, v1 of other lengths) may be refused.
                                 !.mayrefuse = r32.upper \/ ~std \/ (p = "output" /\ ~("bitcoin" \in nets))]
           ELSE NoExp(IF ~PB32(p) THEN (IF dd.ok THEN r58.why ELSE "alphabet")
                      ELSE IF PB58(p) /\ dd.ok THEN r58.why ELSE r32.why)
    ELSE
        LET ks  == PKinds(p) \cup PMay(p)
            rw  == IF "wif" \in ks THEN K("wif") ELSE Reject("not-taken")
            rx  == IF "xkey" \in ks THEN K("xkey") ELSE Reject("not-taken")
            r38 == IF "bip38" \in ks THEN K("bip38") ELSE Reject("not-taken")
        IN IF DevKeyXpub \in D /\ dd.ok /\ Len(dd.b) >= 4 /\ SubSeq(dd.b, 1, 4) \in XPub THEN
               [NoExp("") EXCEPT !.acc = TRUE, !.cls = "xpub-as-bytes", !.priv = FALSE, !.comp = 1, !.pay = r.s]
           ELSE IF rw.ok THEN
               LET q == rw.p
                   \* trailing 01 of a 34-byte payload: compressed public key.  (DevWif01: also of a 33-byte payload;
                   \* DevWifLen: of any other length.)
                   c == IF q[Len(q)] = 1 /\ (Len(q) = 34 \/ (Len(q) = 33 /\ DevWif01 \in D)
                                                         \/ (~(Len(q) \in {33, 34}) /\ DevWifLen \in D)) THEN 1 ELSE 0
               IN [NoExp("") EXCEPT !.acc = TRUE, !.cls = "wif", !.priv = TRUE, !.comp = c,
                                    !.pay = SubSeq(q, 2, Len(q) - c), !.nets = WifNets[q[1]], !.chknet = TRUE,
                                    !.re = r.s, !.chkre = (D = {}),
                                    !.mayrefuse = ~("wif" \in PKinds(p)) \/ Ambiguous(WifNets[q[1]])]
           ELSE IF rx.ok THEN
               LET b  == dd.b                      \* fixed offsets of the BIP32 serialization
                   pr == b[46] = 0                 \* (= the version is a private one, unless DevXData)
               IN [NoExp("") EXCEPT !.acc = TRUE, !.cls = "xkey", !.priv = pr, !.comp = 1,
                                    !.pay = IF pr THEN SubSeq(b, 47, 78) ELSE SubSeq(b, 46, 78),
                                    !.hd = SubSeq(b, 5, 45), !.chkhd = TRUE,
                                    \* DevXData with a key-data prefix other than 00/02/03: the 33 bytes are handed on
                                    \* as they are and what becomes of them is not predicted (the input class is)
                                    !.chkpay = b[46] \in {0, 2, 3},
                                    !.nets = XNets(SubSeq(b, 1, 4)), !.chknet = TRUE,
                                    !.re = r.s, !.chkre = (D = {}),
                                    !.mayrefuse = ~("xkey" \in PKinds(p)) \/ Ambiguous(XNets(SubSeq(b, 1, 4)))]
           ELSE IF r38.ok THEN
               \* decryption is a primitive: the harness supplies the key of the seed string (published BIP38 vector);
               \* any other payload fails the address-hash test of BIP38 (assumption: no 32-bit collision)
               IF Payload(dd.b) = Payload(r.sd)
               THEN [NoExp("") EXCEPT !.acc = TRUE, !.cls = "bip38", !.priv = TRUE, !.comp = r.ocomp, !.pay = r.okey]
               ELSE NoExp("bip38-address-hash")
           ELSE NoExp(IF ~dd.ok THEN "alphabet"
                      ELSE IF "xkey" \in ks /\ Len(dd.b) > 60 THEN rx.why
                      ELSE IF "bip38" \in ks /\ Len(dd.b) > 40 THEN r38.why
                      ELSE IF "wif" \in ks THEN rw.why ELSE rx.why)

\* first clause in which observation o differs from expectation e ("" = agrees)
Clause(o, e) ==
    IF o.acc /\ ~e.acc THEN "accepted-invalid-" \o e.why
    ELSE IF ~o.acc /\ e.acc THEN (IF e.mayrefuse THEN "" ELSE "rejected-valid")
    ELSE IF ~o.acc THEN ""
    ELSE IF e.chkpay /\ o.pay # e.pay THEN "payload"
    ELSE IF o.hasver /\ o.ver # e.ver THEN "version"
    ELSE IF o.haswv /\ o.wv # e.wv THEN "witness-version"
    ELSE IF o.hasnet /\ e.chknet /\ ~(o.net \in e.nets) THEN "network"
    ELSE IF o.iskey /\ e.chkpay /\ (o.priv # e.priv \/ o.comp # e.comp) THEN "key-flags"
    ELSE IF o.hashd /\ e.chkhd /\ o.hd # e.hd THEN "hd-fields"
    ELSE IF o.rok /\ e.chkre /\ o.re # e.re THEN "reencode"
    ELSE ""

RECURSIVE JoinNames(_, _)
JoinNames(S, i) == IF i > Len(DevOrder) THEN ""
                   ELSE LET rest == JoinNames(S, i + 1) IN
                        IF DevOrder[i] \in S THEN (IF rest = "" THEN DevOrder[i] ELSE DevOrder[i] \o "+" \o rest) ELSE rest

Needed(r) == Range(MsgsOf(r.d) \o MsgsOf(r.f))
\* the smallest set of applicable deviations under which the specification yields exactly the observation
JudgeObs(r, seg, o) ==
    LET e0 == Exp(r, seg, o.p, {})
        c0 == Clause(o, e0)
        out(v, dev) == [p |-> o.p, v |-> v, dev |-> dev, exp |-> [acc |-> e0.acc, pay |-> e0.pay, why |-> e0.why]]
    IN IF c0 = "" THEN out("ok", "")
       ELSE LET app  == {dv \in Range(DevOrder) : DevApplies(dv, o.p)}
                hits == {S \in SUBSET app : S # {} /\ Cardinality(S) <= 3 /\ Clause(o, Exp(r, seg, o.p, S)) = ""}
            IN IF hits = {} THEN out(c0, "")
               ELSE out(c0, JoinNames(CHOOSE S \in hits : \A T \in hits : Cardinality(S) <= Cardinality(T), 1))

JudgeRec(r) ==
    IF ~(Needed(r) \subseteq {r.hs[i].m : i \in 1..Len(r.hs)})
    THEN [v |-> "machinery-missing-hash", dev |-> "", exp |-> <<>>]
    ELSE LET seg == IF r.fam = "addr" THEN SegwitDecodeD(r.s, {DevHrp}) ELSE B32Reject("not-taken")
             vs  == [i \in 1..Len(r.obs) |-> JudgeObs(r, seg, r.obs[i])]
         IN [v |-> IF \A i \in 1..Len(vs) : vs[i].v = "ok" THEN "ok" ELSE "disagree", dev |-> "", exp |-> vs]

Judge(r) ==
  CASE r.k = "b58enc" -> [v |-> "ok", dev |-> "", exp |-> B58Encode(r.b)]
    [] r.k = "segenc" -> [v |-> "ok", dev |-> "", exp |-> SegwitEncode(r.hrp, r.ver, r.prog)]
    [] r.k = "b32raw" -> [v |-> "ok", dev |-> "", exp |-> Bech32EncodeRaw(r.hrp, r.data, IF r.m THEN Bech32mConst ELSE Bech32Const)]
    [] r.k = "dec"    -> [v |-> "ok", dev |-> "", exp |-> DecOut(r.s)]
    [] r.k = "j"      -> JudgeRec(r)
    [] OTHER          -> [v |-> "unknown-record-kind", dev |-> "", exp |-> <<>>]

Out == [i \in 1..Len(Recs) |-> Judge(Recs[i])]
ASSUME ndJsonSerialize(IOEnv.OUT_FILE, Out)
=============================================================================
