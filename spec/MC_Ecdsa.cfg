SPECIFICATION Spec
CONSTANTS
  P = 43
  Q = 31
  Gx = 2
  Gy = 12
  Tab <- Tab43
  KeySeq <- MCKeys2
  DigestSeq <- MCDigests3
  NRandom = 2
  ExplicitK = {1, 2}
  HashTypes = {1, 131}
  SignHashTypes = {1}
  VerifyDigests = {5}
  MaxEvents = 2
INVARIANT SpecSignerNeverBlamed
INVARIANT JudgeExact
INVARIANT NoKeyLeak
INVARIANT PubKeyExact
INVARIANT DerRoundTrip
INVARIANT DerClasses
INVARIANT VerdictExact
INVARIANT ReducingVerifierCaught
INVARIANT TwinVerifies
CHECK_DEADLOCK FALSE
