SPECIFICATION Spec
CONSTANTS
  Has <- ToyHas
  Val <- ToyVal
  OrderN <- ToyN
  W <- ToyW
  QQ = 5
  MaxDepth = 3
  MToks <- MCToks
  Chains = {0, 1}
INVARIANT Commute
INVARIANT CommuteFail
INVARIANT NoHardenedFromPublic
INVARIANT Fields
INVARIANT OwnerFailsOnlyWhereSpecified
CHECK_DEADLOCK FALSE
