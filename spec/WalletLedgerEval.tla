-------------------------- MODULE WalletLedgerEval --------------------------
(* (V) trace validation for WalletLedger: a record is the history of one wallet database: every API call with what it   *)
(* returned and, after it, what the live Wallet object and a freshly opened one report.  TLC folds the specification    *)
(* over the history.  Verdict: first event whose result the specification does not allow (clause named), or whose       *)
(* observation differs from the derived quantities.  Observations explained only by a named deviation (stale caches of  *)
(* the live object while a fresh object is right) are collected under the deviation's name.                             *)
EXTENDS WalletLedger, Json, IOUtils, TLC
Recs == ndJsonDeserialize(IOEnv.IN_FILE)

R(r) == [t |-> r[1], n |-> r[2], v |-> r[3], key |-> r[4], conf |-> r[5]]
Rep(l) == [i \in 1..Len(l) |-> R(l[i])]
Q(q) == [recips |-> [i \in 1..Len(q.recips) |-> [id |-> q.recips[i][1], v |-> q.recips[i][2]]], fee |-> q.fee, minconf |-> q.minconf,
         inkeys |-> {q.inkeys[i] : i \in 1..Len(q.inkeys)}, sweep |-> q.sweep, feemin |-> q.feemin, feemax |-> q.feemax,
         acct |-> q.acct, above |-> q.above, named |-> ("named" \in DOMAIN q /\ q.named), nexplicit |-> Len(q.explicit), explicit |-> {<<q.explicit[i][1], q.explicit[i][2]>> : i \in 1..Len(q.explicit)}]
X(x) == [ins |-> [i \in 1..Len(x.ins) |-> [t |-> x.ins[i][1], n |-> x.ins[i][2], v |-> x.ins[i][3]]],
         outs |-> [i \in 1..Len(x.outs) |-> [v |-> x.outs[i][1], key |-> x.outs[i][2], rid |-> x.outs[i][3]]],
         fee |-> x.fee, vsize |-> x.vsize]
TRep(l) == [i \in 1..Len(l) |-> [t |-> l[i][1], conf |-> l[i][2],
                                   ins |-> [j \in 1..Len(l[i][3]) |-> [t |-> l[i][3][j][1], n |-> l[i][3][j][2]]],
                                   outs |-> [j \in 1..Len(l[i][4]) |-> [n |-> l[i][4][j][1], v |-> l[i][4][j][2], key |-> l[i][4][j][3]]]]]
Keys(l) == {[id |-> l[i][1], change |-> l[i][2], acct |-> l[i][3]] : i \in 1..Len(l)}

\* state after event e, or the clause that forbids it: [ok, s, why]
Step(s0, e) ==
  LET s == [s0 EXCEPT !.keys = @ \cup Keys(e.keys)] IN
  CASE e.op \in {"key", "reopen", "observe"} -> [ok |-> TRUE, s |-> s, why |-> "", dev |-> ""]
    [] e.op = "utxo_add" -> [ok |-> TRUE, s |-> UtxosUpdate(s, Rep(e.rep), FALSE), why |-> "", dev |-> ""]
    [] e.op = "utxos_update" -> [ok |-> TRUE, s |-> UtxosUpdateA(s, Rep(e.rep), e.rescan, e.acct), why |-> "", dev |-> ""]
    [] e.op = "txs_update" -> [ok |-> TRUE, why |-> "", dev |-> "",
                               s |-> IF e.prov = "ok" THEN Refresh(TxsUpdate(s, TRep(e.rep)), [i \in 1..Len(e.confs) |-> [t |-> e.confs[i][1], conf |-> e.confs[i][2]]])
                                     ELSE TxsUpdate(s, TRep(e.rep))]
    [] e.op = "co_spend" -> [ok |-> TRUE, why |-> "", dev |-> "",
                             s |-> MarkSpent(s, {<<e.ins[i][1], e.ins[i][2]>> : i \in 1..Len(e.ins)})]
    [] e.op = "tx" ->
         LET q == Q(e.q) IN
         IF ~e.created THEN [ok |-> TRUE, s |-> s, why |-> "", dev |-> ""]        \* refusing is always allowed (C07 forbids wrong transactions)
         ELSE LET x == X(e.x)
                  why == IF Insufficient(s, q) THEN "transaction-created-with-insufficient-funds" ELSE TxWhy(s, q, x) IN
              IF why # "ok" THEN [ok |-> FALSE, s |-> s, why |-> why, dev |-> IF Insufficient(s, q) THEN "" ELSE TxDev(s, q, x)]
              ELSE [ok |-> TRUE, s |-> IF e.stored THEN Broadcast(s, x, e.tnum) ELSE s, why |-> "", dev |-> ""]
    [] e.op = "delete" -> [ok |-> TRUE, s |-> Delete(s, e.tnum), why |-> "", dev |-> ""]
    \* the wallet files a transaction another wallet of the database made and broadcast (transaction_import + send): no judgement
    \* of the transaction, its effect on the books is that of a broadcast; what the OTHER wallet later does with its copy
    \* (delete) does not concern this wallet's books
    [] e.op = "adopt" -> [ok |-> TRUE, s |-> Resend(s, X(e.x), e.tnum), why |-> "", dev |-> ""]
    [] e.op = "co_delete" -> [ok |-> TRUE, s |-> s, why |-> "", dev |-> ""]
    [] e.op = "resend" -> [ok |-> TRUE, s |-> Resend(s, X(e.x), e.tnum), why |-> "", dev |-> ""]
    [] e.op = "remove_unconfirmed" -> [ok |-> TRUE, s |-> RemoveUnconfirmed(s), why |-> "", dev |-> ""]
    [] OTHER -> [ok |-> FALSE, s |-> s, why |-> "unknown-event", dev |-> ""]

UtxoSet(l) == {<<l[i][1], l[i][2], l[i][3]>> : i \in 1..Len(l)}
\* o.balance / o.utxos: what the wallet reports without naming an account (its default account o.acct);
\* o.accts: <<account, balance, utxos>> for every account asked by number
ObsWhy(s, o) ==
    IF o.balance # BalanceA(s, o.acct) THEN "balance-is-not-the-sum-of-unspent-outputs"
    ELSE IF UtxoSet(o.utxos) # {<<c.t, c.n, c.v>> : c \in UnspentA(s, o.acct)} \/ Len(o.utxos) # Cardinality(UnspentA(s, o.acct)) THEN "utxos-differ-from-the-ledger"
    ELSE IF \E i \in 1..Len(o.accts) : o.accts[i][2] # BalanceA(s, o.accts[i][1]) THEN "account-balance-differs"
    ELSE IF \E i \in 1..Len(o.accts) : UtxoSet(o.accts[i][3]) # {<<c.t, c.n, c.v>> : c \in UnspentA(s, o.accts[i][1])} THEN "account-utxos-differ"
    ELSE IF \E i \in 1..Len(o.keybal) : o.keybal[i][2] # KeyBalance(s, o.keybal[i][1]) THEN "key-balance-differs"
    ELSE IF \E i \in 1..Len(o.wkbal) : o.wkbal[i][2] # KeyBalance(s, o.wkbal[i][1]) THEN "walletkey-balance-differs"
    ELSE "ok"

\* The fold never stops: every event is judged in the specification state reached (a transaction the rules reject is
\* still applied to the ledger if the wallet stored it, so that later events are judged against what the wallet itself
\* must now believe).  issues: sequence of [at, kind ("rejected" | "observation"), why, exp]
RECURSIVE Run(_, _, _, _, _, _)
Run(s, evs, i, devs, bals, issues) ==
    IF i > Len(evs) THEN [issues |-> issues, devs |-> devs]
    ELSE LET st == Step(s, evs[i])
             s1 == IF st.ok THEN st.s
                   ELSE IF evs[i].op = "tx" /\ evs[i].stored THEN Broadcast(st.s, X(evs[i].x), evs[i].tnum) ELSE st.s
             iss1 == IF st.ok THEN issues ELSE Append(issues, [at |-> i, kind |-> "rejected", why |-> st.why, exp |-> 0, dev |-> st.dev])
             \* "noobs": the event is the first half of one library call, nothing was observable between the halves
             seen == "noobs" \notin DOMAIN evs[i]
             live == IF seen THEN ObsWhy(s1, evs[i].live) ELSE "ok"
             fresh == IF seen THEN ObsWhy(s1, evs[i].fresh) ELSE "ok"
             nb == bals \cup {BalanceA(s1, evs[i].live.acct)} IN
         IF fresh # "ok" THEN Run(s1, evs, i + 1, devs, nb, Append(iss1, [at |-> i, kind |-> "observation", why |-> "reopened-wallet: " \o fresh, exp |-> BalanceA(s1, evs[i].live.acct), dev |-> ""]))
         ELSE IF live = "ok" THEN Run(s1, evs, i + 1, devs, nb, iss1)
         \* named deviations: the live object serves a value that was right in an earlier state of this history
         ELSE IF live = "balance-is-not-the-sum-of-unspent-outputs" /\ evs[i].live.balance \in bals
              THEN Run(s1, evs, i + 1, devs \cup {"live-balance-cache-stale"}, nb, iss1)
         ELSE IF live = "key-balance-differs"
              THEN Run(s1, evs, i + 1, devs \cup {"live-keys-balance-stale"}, nb, iss1)
         ELSE Run(s1, evs, i + 1, devs, nb, Append(iss1, [at |-> i, kind |-> "observation", why |-> "live-wallet: " \o live, exp |-> BalanceA(s1, evs[i].live.acct), dev |-> ""]))

SetToSeq(S) == CHOOSE f \in [1..Cardinality(S) -> S] : \A i, j \in 1..Cardinality(S) : i # j => f[i] # f[j]
Out == [k \in 1..Len(Recs) |-> LET r == Run(InitS, Recs[k].events, 1, {}, {0}, <<>>) IN
                              [issues |-> r.issues, devs |-> SetToSeq(r.devs)]]
ASSUME ndJsonSerialize(IOEnv.OUT_FILE, Out)
=============================================================================
