---------------------------- MODULE FeeBumpEval ----------------------------
(* One record = a transaction before Transaction.bumpfee(fee= / extra_fee=), the call, and the transaction after it (or   *)
(* the refusal); verdict by FeeBump!BumpWhy.                                                                              *)
EXTENDS FeeBump, Json, IOUtils, TLC
Recs == ndJsonDeserialize(IOEnv.IN_FILE)
T(t) == [ins |-> t.ins, outs |-> [i \in 1..Len(t.outs) |-> [v |-> t.outs[i][1], change |-> t.outs[i][2]]]]
Judge(r) == LET pre == T(r.pre)
                q == [fee |-> r.fee, extra |-> r.extra] IN
            IF r.refused THEN [v |-> "ok", must |-> MustRefuse(pre, q)]
            ELSE IF MustRefuse(pre, q) THEN [v |-> "created-although-the-change-cannot-pay-the-increase", must |-> TRUE]
            \* the outputs of a transaction are numbered by their position
            ELSE IF r.nums # [i \in 1..Len(r.nums) |-> i - 1] THEN [v |-> "output-numbers-are-not-positions", must |-> FALSE]
            ELSE [v |-> BumpWhy(pre, T(r.post), q), must |-> FALSE]
Out == [k \in 1..Len(Recs) |-> Judge(Recs[k])]
ASSUME ndJsonSerialize(IOEnv.OUT_FILE, Out)
=============================================================================
