SPECIFICATION Spec
CONSTANTS
  MaxSteps = 4
  MaxIdx = 3
  Watch = FALSE
INVARIANT NoGaps
INVARIANT WellFormed
INVARIANT AddressesDistinct
INVARIANT WatchOnlyOwnAccount
PROPERTY NoRepeat
PROPERTY UsedNotHandedOut
PROPERTY KeysPersist
PROPERTY Refusals
CHECK_DEADLOCK FALSE
