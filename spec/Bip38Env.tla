------------------------------ MODULE Bip38Env ------------------------------
(***************************************************************************)
(* C15, the ENVIRONMENT of a key-generation request.  "Each newly          *)
(* generated key draws fresh randomness, separate requests never yield the *)
(* same key" is a statement about every execution of the program that      *)
(* calls the library, and that program owns ambient state the library can  *)
(* see: the process-wide pseudo-random generators (Python's `random`       *)
(* module, numpy.random).  The application, a test fixture or another      *)
(* library may seed them, save and restore their state, and fork children  *)
(* that inherit it.  This module makes that state a variable, gives the    *)
(* environment its actions                                                 *)
(*     Seed(x)  SaveState  RestoreState                                    *)
(* and interleaves them with the requests                                  *)
(*     inter / interlot  (intermediate code, default owner salt, without   *)
(*                        and with lot+sequence)                           *)
(*     new / forknew     (new EC-multiplied key, default seed; forknew:    *)
(*                        the request runs in a forked child that inherits *)
(*                        the ambient state)                               *)
(*     newx              (new key from entropy supplied by the caller)     *)
(*     key / hdkey       (Key(), HDKey() without arguments)                *)
(* The property, for every interleaving: any two requests of one kind that *)
(* do not carry their entropy differ in the entropy they drew AND in every *)
(* output (intermediate code, encrypted key, confirmation code, address,   *)
(* private key); supplied entropy is honoured.  The judge is the entropy   *)
(* ledger of Bip38.tla (GenSucc) plus the ledger of outputs.               *)
(* MC_Bip38Env runs an abstract generator in this environment: the         *)
(* specification's generator (OS entropy, which never repeats) is never    *)
(* blamed; a generator that draws from the ambient generator is blamed     *)
(* exactly on the interleavings in which the ambient state repeats between *)
(* two requests of one kind.  The same behaviours (Behaviours(L)) are      *)
(* replayed around the real calls and the recorded outputs are judged by   *)
(* EnvJudge.                                                               *)
(***************************************************************************)
EXTENDS Bip38, TLC

\* ------------------------------------------------------------------ behaviours of the environment
EnvActs == {"seed1", "seed2", "save", "restore", "inter", "interlot", "new", "forknew", "newx", "key", "hdkey"}
IsGen(a) == a \in {"inter", "interlot", "new", "forknew", "newx", "key", "hdkey"}
KindOf(a) == CASE a = "inter" -> "intermediate" [] a = "interlot" -> "intermediate-lot"
               [] a \in {"new", "forknew", "newx"} -> "new" [] OTHER -> a
IsExplicit(a) == a = "newx"
\* freshness is at stake: at least two requests of one kind that draw their entropy; restore only after a save
WellFormed(b) == /\ \E i, j \in 1..Len(b) : i < j /\ IsGen(b[i]) /\ IsGen(b[j]) /\ ~IsExplicit(b[i]) /\ ~IsExplicit(b[j])
                                            /\ KindOf(b[i]) = KindOf(b[j])
                 /\ \A i \in 1..Len(b) : b[i] = "restore" => \E j \in 1..(i - 1) : b[j] = "save"
Behaviours(L) == {b \in [1..L -> EnvActs] : WellFormed(b)}

\* ------------------------------------------------------------------ judge of a recorded behaviour
\* event: [op (kind), explicit, arg, out (entropy drawn / used), outs (sequence of everything the request handed out)]
OutKeys(e) == {<<e.op, k, e.outs[k]>> : k \in 1..Len(e.outs)}
EnvFail(s, seen, e) ==
    IF GenSucc(s, e) = {} THEN (IF e.explicit THEN "explicit-entropy-not-honoured" ELSE "entropy-reused")
    ELSE IF ~e.explicit /\ OutKeys(e) \cap seen # {} THEN "same-output-for-separate-requests"
    ELSE ""
RECURSIVE EnvRun(_, _, _, _, _)
EnvRun(s, seen, evs, i, acc) ==
    IF i > Len(evs) THEN acc
    ELSE LET e == evs[i]
             n == GenSucc(s, e)
         IN EnvRun(IF n = {} THEN s ELSE CHOOSE x \in n : TRUE,
                   IF e.explicit THEN seen ELSE seen \cup OutKeys(e), evs, i + 1, Append(acc, EnvFail(s, seen, e)))
EnvJudge(evs) == EnvRun(LedgerInit, {}, evs, 1, <<>>)
Blamed(fs) == \E i \in 1..Len(fs) : fs[i] # ""
FirstBlame(fs) == IF Blamed(fs) THEN CHOOSE i \in 1..Len(fs) : fs[i] # "" /\ \A j \in 1..(i - 1) : fs[j] = "" ELSE 0

\* ------------------------------------------------------------------ abstract generators in the environment (model)
\* ambient generator state: <<seed id, draws since>>;  os: OS entropy consumed so far (never repeats)
EnvInit == [prng |-> <<0, 0>>, saved |-> <<>>, os |-> 0]
DrawOs(c) == <<1, c>>
DrawPrng(g) == <<2, g[1], g[2]>>
Supplied == <<4, 1>>                                   \* the entropy the caller passes with newx
\* generator "spec": OS entropy.   generator "ambient": the ambient pseudo-random generator.
\* Returns [st (next environment state), ev (<<>> or <<event>>)]
EnvStep(st, a, gen) ==
    CASE a = "seed1" -> [st |-> [st EXCEPT !.prng = <<1, 0>>], ev |-> <<>>]
      [] a = "seed2" -> [st |-> [st EXCEPT !.prng = <<2, 0>>], ev |-> <<>>]
      [] a = "save" -> [st |-> [st EXCEPT !.saved = st.prng], ev |-> <<>>]
      [] a = "restore" -> [st |-> [st EXCEPT !.prng = st.saved], ev |-> <<>>]
      [] IsGen(a) ->
           LET ambient == gen = "ambient" /\ ~IsExplicit(a)
               out == IF IsExplicit(a) THEN Supplied ELSE IF ambient THEN DrawPrng(st.prng) ELSE DrawOs(st.os)
           IN [st |-> [st EXCEPT !.os = IF ~IsExplicit(a) /\ ~ambient THEN @ + 1 ELSE @,
                                 \* a forked child advances its own copy only
                                 !.prng = IF ambient /\ a # "forknew" THEN <<@[1], @[2] + 1>> ELSE @],
               ev |-> <<[op |-> KindOf(a), explicit |-> IsExplicit(a), arg |-> IF IsExplicit(a) THEN Supplied ELSE <<>>,
                         out |-> out, outs |-> <<out>>]>>]
RECURSIVE EnvEvents(_, _, _, _)
EnvEvents(st, b, i, gen) ==
    IF i > Len(b) THEN <<>>
    ELSE LET x == EnvStep(st, b[i], gen) IN x.ev \o EnvEvents(x.st, b, i + 1, gen)
\* would a generator that draws from the ambient state be exposed by behaviour b?
Exposes(b) == Blamed(EnvJudge(EnvEvents(EnvInit, b, 1, "ambient")))
=============================================================================
