------------------------------ MODULE LockTime ------------------------------
(***************************************************************************)
(* Lock times of a transaction (BIP65 nLockTime / IsFinalTx, BIP68         *)
(* relative lock time in nSequence, BIP125 replaceability signalling) and  *)
(* the four setters of Transaction that establish them.                    *)
(*                                                                         *)
(* 32-bit fields are pairs <<hi, lo>> of 16-bit words (TLC integers are    *)
(* 32-bit signed).  State s = [ver, lock, seqs]: version (small natural),  *)
(* nLockTime, nSequence per input.                                         *)
(*                                                                         *)
(* Meaning (what a validating node does with the fields):                  *)
(*   RelLock(s, i)  none | blocks n | time n (units of 512 s)      BIP68   *)
(*   AbsLock(s)     none | height h | time t               IsFinalTx/BIP65 *)
(*   Rbf(s)         some nSequence < 0xfffffffe                    BIP125  *)
(* Setters (documented behaviour of the set_locktime methods): each is a   *)
(* function from a state and arguments to [ok, s]; ok = FALSE: refused,    *)
(* state unchanged.  The meaning each setter must establish is stated as   *)
(* an invariant of the bounded model MC_LockTime; the implementation is    *)
(* bound by LockTimeEval (recorded call sequences folded over Step).       *)
(***************************************************************************)
EXTENDS Naturals, Sequences

Zero32 == <<0, 0>>
Final32 == <<65535, 65535>>          \* 0xffffffff
EnableLock32 == <<65535, 65534>>     \* 0xfffffffe: nLockTime enforced, no BIP68, no BIP125
FromInt(n) == <<n \div 65536, n % 65536>>          \* n < 2^31
Lt32(a, b) == a[1] < b[1] \/ (a[1] = b[1] /\ a[2] < b[2])
Threshold32 == FromInt(500000000)    \* below: block height, from here on: unix time
\* a 4-byte little-endian field as a pair of words
HL(b) == <<b[3] + 256 * b[4], b[1] + 256 * b[2]>>

RelLock(s, i) ==
    LET q == s.seqs[i] IN
    IF s.ver < 2 \/ q[1] >= 32768 THEN [kind |-> "none", n |-> 0]
    ELSE IF (q[1] \div 64) % 2 = 1 THEN [kind |-> "time", n |-> q[2]]
    ELSE [kind |-> "blocks", n |-> q[2]]
AllFinal(s) == \A i \in 1..Len(s.seqs) : s.seqs[i] = Final32
AbsLock(s) ==
    IF s.lock = Zero32 \/ AllFinal(s) THEN [kind |-> "none", at |-> Zero32]
    ELSE IF Lt32(s.lock, Threshold32) THEN [kind |-> "height", at |-> s.lock]
    ELSE [kind |-> "time", at |-> s.lock]
Rbf(s) == \E i \in 1..Len(s.seqs) : Lt32(s.seqs[i], EnableLock32)

Max(a, b) == IF a > b THEN a ELSE b
Refused(s) == [ok |-> FALSE, s |-> s]
Done(s) == [ok |-> TRUE, s |-> s]
\* an absolute lock needs a non-final nSequence: final ones become 0xfffffffe
EnableAbs(seqs) == [i \in 1..Len(seqs) |-> IF seqs[i] = Final32 THEN EnableLock32 ELSE seqs[i]]

\* set_locktime_relative_blocks(blocks, input_index_n, locktime): blocks = 0 removes the lock of that input
RelBlocks(s, i, b, l) ==
    IF i < 1 \/ i > Len(s.seqs) THEN Refused(s)
    ELSE IF b = 0 THEN Done([s EXCEPT !.seqs[i] = Final32])
    ELSE IF b > 65535 THEN Refused(s)
    ELSE Done([s EXCEPT !.seqs[i] = <<0, b>>, !.ver = Max(2, @), !.lock = IF l = Zero32 THEN @ ELSE l])
\* set_locktime_relative_time(seconds, ...): rounded down to units of 512 s, at least one unit
RelTime(s, i, sec, l) ==
    IF i < 1 \/ i > Len(s.seqs) THEN Refused(s)
    ELSE IF sec = 0 THEN Done([s EXCEPT !.seqs[i] = Final32])
    ELSE LET u == IF sec < 512 THEN 1 ELSE sec \div 512 IN
         IF u > 65535 THEN Refused(s)
         ELSE Done([s EXCEPT !.seqs[i] = <<64, u>>, !.ver = Max(2, @), !.lock = IF l = Zero32 THEN @ ELSE l])
\* set_locktime_blocks(blocks): "Zero means no locktime"; a height is below the threshold
AbsBlocks(s, b) ==
    IF b = Zero32 THEN Done([s EXCEPT !.lock = Zero32])
    ELSE IF ~Lt32(b, Threshold32) THEN Refused(s)
    ELSE Done([s EXCEPT !.lock = b, !.seqs = EnableAbs(@)])
\* set_locktime_time(timestamp): from the threshold to 0xfffffffe
AbsTime(s, t) ==
    IF t = Zero32 THEN Done([s EXCEPT !.lock = Zero32])
    ELSE IF Lt32(t, Threshold32) \/ t = Final32 THEN Refused(s)
    ELSE Done([s EXCEPT !.lock = t, !.seqs = EnableAbs(@)])

\* e = [op, i, a (<<hi, lo>>), l (<<hi, lo>>)]
Step(s, e) ==
    CASE e.op = "rel_blocks" -> RelBlocks(s, e.i, IF e.a[1] > 0 THEN 65536 ELSE e.a[2], e.l)
      [] e.op = "rel_time" -> RelTime(s, e.i, IF e.a[1] >= 32768 THEN 2147483647 ELSE e.a[1] * 65536 + e.a[2], e.l)
      [] e.op = "abs_blocks" -> AbsBlocks(s, e.a)
      [] e.op = "abs_time" -> AbsTime(s, e.a)

\* ---- named deviations: what the implementation does instead (known findings refer to these names)
\* "no-locktime-as-ffffffff": removing the absolute lock writes 0xffffffff into nLockTime instead of 0.  With a non-final
\* nSequence left over from an earlier setter the transaction is then locked until the year 2106.
DevNoLockMax(s, e) ==
    IF e.op \in {"abs_blocks", "abs_time"} /\ e.a = Zero32 THEN Done([s EXCEPT !.lock = Final32]) ELSE Step(s, e)
\* "height-500000000-accepted": set_locktime_blocks accepts exactly 500000000, which a node reads as a unix time
DevThreshold(s, e) ==
    IF e.op = "abs_blocks" /\ e.a = Threshold32 THEN Done([s EXCEPT !.lock = e.a, !.seqs = EnableAbs(@)]) ELSE Step(s, e)
\* set_locktime_time may refuse the threshold value itself (documented range "between 500000000 and 0xfffffffe")
MayRefuse(s, e) == e.op = "abs_time" /\ e.a = Threshold32
Devs == <<"no-locktime-as-ffffffff", "height-500000000-accepted">>
DevStep(d, s, e) == IF d = 1 THEN DevNoLockMax(s, e) ELSE DevThreshold(s, e)
=============================================================================
