--------------------------- MODULE MC_WalletKeys ---------------------------
(***************************************************************************)
(* Bounded model of WalletKeys: a wallet with a private master key (s) and *)
(* a watch-only wallet made from the public key of its first account (r)   *)
(* receive every request of a small vocabulary - fresh keys, unused keys,  *)
(* keys by position, new accounts, funds arriving at a key - in all orders *)
(* up to MaxSteps; every answer the specification allows is taken.         *)
(* 3 networks (two of them sharing a coin type) x 2 witness types x        *)
(* 2 accounts x 2 chains; Watch: the wallet was made from an account       *)
(* public key; Ms: a multisig wallet (BIP48 paths, one witness type).      *)
(* Invariants = design-level statements of C09.                            *)
(***************************************************************************)
EXTENDS WalletKeys, TLC
CONSTANTS MaxSteps, MaxIdx, Watch, Ms
VARIABLES s, steps, jumped, last
vars == <<s, steps, jumped, last>>

cfg  == [net |-> "bitcoin", wt |-> "segwit", acct |-> 0, ms |-> Ms, cos |-> 1, watch |-> Watch, kwt |-> "legacy"]
cfgP == [cfg EXCEPT !.watch = FALSE]
Wts  == {"segwit", "legacy"}
Chains == {Chain("bitcoin", w, x, c) : w \in Wts, x \in 0..1, c \in 0..1}
\* a second network with the coin type of the first one (must be refused) and one with another coin type
Foreign == {Chain("regtest", "segwit", 0, 0), Chain("litecoin", "segwit", 0, 0)}
Req(op, c, n, i) == [op |-> op, net |-> c.net, wt |-> c.wt, acct |-> c.acct, ch |-> c.ch, n |-> n, idx |-> i, form |-> "args", acctin |-> "arg"]
NoReq == [op |-> "none", net |-> "", wt |-> "", acct |-> 0, ch |-> 0, n |-> 0, idx |-> 0, form |-> "", acctin |-> ""]

Injective(S, n) == {q \in [1..n -> S] : Distinct(q)}
Outs(st, a) ==
    LET c == ChainA(a) IN
    CASE a.op = "new_keys" -> {[k \in 1..a.n |-> Pos(c, x + k - 1)] : x \in NextSet(st, c)}
      [] a.op = "get_keys" -> Injective({p \in st.keys : ChainOf(p) = c /\ p \notin st.used}
                                        \cup {Pos(c, x + j) : x \in NextSet(st, c), j \in 0..(a.n - 1)}, a.n)
      [] a.op = "key_for_path" -> {[k \in 1..a.n |-> Pos(c, a.idx + k - 1)]}
      [] a.op = "new_account" -> {<<Pos(Chain(a.net, a.wt, x, 0), 0)>> : x \in 0..2}
      [] a.op = "export" -> {<<Pos(Chain(a.net, a.wt, x, 0), 0)>> : x \in 0..1}
      [] OTHER -> {<<>>}

\* one request: refused where it must be, else answered in every way the specification allows
Do(a) ==
    IF MustRefuse(cfg, s, a) THEN s' = s /\ last' = [a |-> a, ok |-> FALSE, out |-> <<>>]
    ELSE \E out \in Outs(s, a) : /\ Allowed(cfg, s, a, out) = "ok"
                                  /\ s' = After(cfg, s, a, out)
                                  /\ last' = [a |-> a, ok |-> TRUE, out |-> out]

Tick == steps < MaxSteps /\ steps' = steps + 1
NewKeys    == Tick /\ \E c \in Chains \cup Foreign, n \in 1..2 : (n = 2 => c.acct = 0 /\ c.net = "bitcoin") /\ Do(Req("new_keys", c, n, 0)) /\ UNCHANGED jumped
GetKeys    == Tick /\ \E c \in Chains, n \in 1..2 : (n = 2 => c.acct = 0 /\ c.wt = "segwit") /\ Do(Req("get_keys", c, n, 0)) /\ UNCHANGED jumped
KeyForPath == Tick /\ \E c \in Chains, i \in 0..MaxIdx :
                 /\ (c.acct = 1 => i = 1)
                 /\ Do(Req("key_for_path", c, 1, i))
                 /\ jumped' = IF last'.ok /\ i \notin Idxs(s, c) /\ i \notin NextSet(s, c) THEN jumped \cup {c} ELSE jumped
NewAccount == Tick /\ \E c \in Chains \cup Foreign, x \in {-1, 1} : c.ch = 0 /\ c.acct = 0 /\ Do(Req("new_account", Chain(c.net, c.wt, x, 0), 0, 0)) /\ UNCHANGED jumped
Export     == Tick /\ \E c \in Chains : c.ch = 0 /\ (Watch => Own(cfg, c)) /\ Do(Req("export", c, 0, 0)) /\ UNCHANGED jumped
MarkUsed   == Tick /\ \E p \in s.keys : Do(Req("mark_used", ChainOf(p), 0, p.idx)) /\ UNCHANGED jumped

Init == s = InitS(cfg) /\ steps = 0 /\ jumped = {} /\ last = [a |-> NoReq, ok |-> TRUE, out |-> <<>>]
Next == NewKeys \/ GetKeys \/ KeyForPath \/ NewAccount \/ MarkUsed \/ Export
Spec == Init /\ [][Next]_vars

\* ---- invariants
AllChains == {ChainOf(p) : p \in s.keys}
\* indices of a chain are 0 .. n-1: no gaps (unless a key was asked for by explicit position beyond the end)
NoGaps == \A c \in AllChains : c \notin jumped => Idxs(s, c) = 0..(Cardinality(Idxs(s, c)) - 1)
WellFormed == /\ s.used \subseteq s.keys
              /\ \A p \in s.keys : AcctOf(ChainOf(p)) \in s.accts
              /\ \A x, y \in s.accts : x.net # y.net => CoinTypes[x.net] # CoinTypes[y.net]
AddressesDistinct == PathsDistinct(cfg, s.keys) /\ \A p \in s.keys : Shape(cfg, p)
\* a watch-only wallet holds keys of its own account only, at the same path below the account key as the full wallet
WatchOnlyOwnAccount == Watch => \A p \in s.keys : /\ Own(cfg, p)
                                                   /\ PosTokens(cfg, p) = <<UpperM>> \o SubSeq(PosTokens(cfgP, p), 5, 6)
\* the caller's key object is an input: no request changes what it says about itself
ObjectUntouched == s.obj = [wt |-> cfg.kwt, net |-> cfg.net]
\* ---- action properties
\* a fresh key never repeats an issued index
NoRepeat == [][(last'.a.op = "new_keys" /\ last'.ok) => \A i \in 1..Len(last'.out) : last'.out[i] \notin s.keys]_vars
\* a key that received funds is never handed out as unused
UsedNotHandedOut == [][(last'.a.op = "get_keys" /\ last'.ok) => \A i \in 1..Len(last'.out) : last'.out[i] \notin s.used]_vars
KeysPersist == [][s.keys \subseteq s'.keys /\ s.used \subseteq s'.used /\ s.accts \subseteq s'.accts]_vars
\* refusals happen exactly where the wallet cannot serve: outside the account of a watch-only wallet, colliding coin types
Refusals == [][~last'.ok <=> MustRefuse(cfg, s, last'.a)]_vars
\* an answer the specification allows is never attributed to a deviation; an attributed answer is a disallowed one
DeviationsAreViolations == [][last'.ok => Attribution(cfg, s, last'.a, last'.out) = <<>>]_vars
=============================================================================
