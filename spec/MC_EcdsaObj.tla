---------------------------- MODULE MC_EcdsaObj ----------------------------
(* Bounded model of EcdsaObj: every call sequence (verify with given / omitted digest and key, attribute assignments)  *)
(* on every kind of object, executed by three abstract implementations; the judge never blames the two conforming    *)
(* ones and does blame the one that reports one key and verifies against another.                                    *)
EXTENDS EcdsaObj, TLC
CONSTANTS MaxCalls
VARIABLES impl, c, st, hist, n
vars == <<impl, c, st, hist, n>>
Init == impl \in {"sticks", "restores", "stale"} /\ c \in Constructions /\ st = ImplInit(c) /\ hist = <<>> /\ n = 0
Call == /\ n < MaxCalls
        /\ \E act \in ObjActs : \E x \in {ImplStep(impl, st, act, FactOf(SignerOf(c)))} :
             st' = x.st /\ hist' = Append(hist, x.ev) /\ n' = n + 1
        /\ UNCHANGED <<impl, c>>
Next == Call
Spec == Init /\ [][Next]_vars
ConformingNeverBlamed == impl \in {"sticks", "restores"} => ~ObjBlamed(ObjJudge(c, hist, FactOf(SignerOf(c))))
\* the faulty implementation is blamed exactly when a call verified against a point other than the key in force
StaleBlamedOnlyWhenWrong == (impl = "stale" /\ ObjBlamed(ObjJudge(c, hist, FactOf(SignerOf(c))))) =>
    \E i \in 1..Len(hist) : hist[i].a = "verify" /\ hist[i].obs # Expected([key |-> hist[i].pk, z |-> hist[i].tz], hist[i], FactOf(SignerOf(c)))
\* and the replayed sequences do expose it: a valid triple rejected, and an invalid one accepted
ASSUME LET q == << [a |-> "verify", z |-> 1, k |-> 2], [a |-> "verify", z |-> 0, k |-> 0] >> IN
       ObjBlamed(ObjJudge("sign", ImplEvents("stale", ImplInit("sign"), q, 1, FactOf(1)), FactOf(1))) /\ q \in ObjSeqs(2)
ASSUME LET q == << [a |-> "verify", z |-> 2, k |-> 2], [a |-> "verify", z |-> 1, k |-> 0] >> IN
       ObjBlamed(ObjJudge("init-k1-signed-by-k2", ImplEvents("stale", ImplInit("init-k1-signed-by-k2"), q, 1, FactOf(2)), FactOf(2)))
=============================================================================
