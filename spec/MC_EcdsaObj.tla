---------------------------- MODULE MC_EcdsaObj ----------------------------
(* Bounded model of EcdsaObj: every call sequence (verify with given / omitted digest and key, attribute assignments)  *)
(* on every kind of object, executed by three abstract implementations; the judge never blames the two conforming    *)
(* ones and does blame the one that reports one key and verifies against another.                                    *)
EXTENDS EcdsaObj, TLC
CONSTANTS MaxCalls
VARIABLES impl, c, st, hist, n
vars == <<impl, c, st, hist, n>>
Init == impl \in {"sticks", "restores", "stale", "objkey-wins"} /\ c \in Constructions /\ st = ImplInit(c) /\ hist = <<>> /\ n = 0
Call == /\ n < MaxCalls
        /\ \E act \in StatefulActs(Routes) : \E x \in {ImplStep(impl, st, act, FactOf(SignerOf(c)))} :
             st' = x.st /\ hist' = Append(hist, x.ev) /\ n' = n + 1
        /\ UNCHANGED <<impl, c>>
\* a call on a serialized route (changes nothing; modelled as the last call of a sequence)
SerializedCall ==
        /\ n < MaxCalls
        /\ \E act \in VerifyActs(SerializedRoutes) : \E x \in {ImplStep(impl, st, act, FactOf(SignerOf(c)))} :
             st' = x.st /\ hist' = Append(hist, x.ev) /\ n' = MaxCalls
        /\ UNCHANGED <<impl, c>>
Next == Call \/ SerializedCall
Spec == Init /\ [][Next]_vars
FaultyBlamedOnlyWhenWrong == (impl = "objkey-wins" /\ ObjBlamed(ObjJudge(c, hist, FactOf(SignerOf(c))))) =>
    \E i \in 1..Len(hist) : hist[i].a = "verify" /\ hist[i].via = "module-object" /\ hist[i].k # 0 /\ hist[i].pk # 0 /\ hist[i].pk # hist[i].k
ConformingNeverBlamed == impl \in {"sticks", "restores"} => ~ObjBlamed(ObjJudge(c, hist, FactOf(SignerOf(c))))
\* the faulty implementation is blamed exactly when a call verified against a point other than the key in force
StaleBlamedOnlyWhenWrong == (impl = "stale" /\ ObjBlamed(ObjJudge(c, hist, FactOf(SignerOf(c))))) =>
    \E i \in 1..Len(hist) : hist[i].a = "verify" /\ ~VerdictOk([key |-> hist[i].pk, z |-> hist[i].tz], hist[i], FactOf(SignerOf(c)), hist[i].obs)
\* and the replayed sequences do expose it: a valid triple rejected, and an invalid one accepted
ASSUME LET q == << [a |-> "verify", via |-> "method", z |-> 1, k |-> 2], [a |-> "verify", via |-> "method", z |-> 0, k |-> 0] >> IN
       ObjBlamed(ObjJudge("sign", ImplEvents("stale", ImplInit("sign"), q, 1, FactOf(1)), FactOf(1))) /\ q \in ObjSeqs(2, {"method"})
\* the key named by the caller of the module-level function must win over the key the object carries
ASSUME LET q == << [a |-> "verify", via |-> "module-object", z |-> 1, k |-> 2] >> IN
       /\ ObjBlamed(ObjJudge("sign", ImplEvents("objkey-wins", ImplInit("sign"), q, 1, FactOf(1)), FactOf(1))) /\ q \in ObjSeqs(1, Routes)
       /\ ~ObjBlamed(ObjJudge("sign", ImplEvents("sticks", ImplInit("sign"), q, 1, FactOf(1)), FactOf(1)))
ASSUME LET q == << [a |-> "verify", via |-> "method", z |-> 2, k |-> 2], [a |-> "verify", via |-> "method", z |-> 1, k |-> 0] >> IN
       ObjBlamed(ObjJudge("init-k1-signed-by-k2", ImplEvents("stale", ImplInit("init-k1-signed-by-k2"), q, 1, FactOf(2)), FactOf(2)))
=============================================================================
