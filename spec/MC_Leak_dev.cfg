SPECIFICATION Spec
CONSTANTS
  MaxLen = 3
  Deviations = {"public-keeps-wif-cache", "signature-keeps-secret", "tx-save-pickles-private-keys", "sign-stores-private-key-in-input", "bare-public-path-returns-receiver", "walletkey-repr-prints-private-wif"}
INVARIANT TypeOK
INVARIANT PrivateViewsListed
INVARIANT WifNeedsCachingCall
INVARIANT ScalarNeedsSigning
INVARIANT XprvNeverHeld
INVARIANT KeyCopyHoldsOnlyWif
PROPERTY PublicAbsorbing
CHECK_DEADLOCK FALSE
