SPECIFICATION Spec
CONSTANTS
  MaxSteps = 5
INVARIANT SpecSignerNeverBlamed
INVARIANT JudgeExact
INVARIANT AmbientSharedOnlyViaState
CHECK_DEADLOCK FALSE
