SPECIFICATION Spec
CONSTANTS
  NumBound = 300000
  MaxItems = 4
  ItemDomain <- MCItems
INVARIANT CSRoundTrip
INVARIANT CSShortest
INVARIANT CSTrailing
INVARIANT NumRoundTrip
INVARIANT ScriptPrefix
INVARIANT ScriptDone
INVARIANT ParserNeverStuck
CHECK_DEADLOCK FALSE
