----------------------------- MODULE AddrScript -----------------------------
(***************************************************************************)
(* C05: destinations, their standard locking scripts and their addresses.  *)
(* Written from BIP13/16 (P2SH), BIP141 (witness programs), BIP173/350     *)
(* (Bech32/Bech32m segwit addresses), BIP341 (P2TR), the Base58Check       *)
(* address format and Bitcoin Core's Solver() template matcher -- not from *)
(* the library.  Everything is byte level; the only primitive (the 4-byte  *)
(* double-SHA256 checksum of Base58Check) is a parameter `chk`.            *)
(*                                                                         *)
(*   destination  d == [k |-> "pkh"|"sh"|"wit", v |-> 0..16, p |-> bytes]  *)
(*   Lock(d)      the standard locking script                              *)
(*   Classify(s)  the inverse, with the exact length conditions            *)
(*   Addr58 / SegwitEncode, DecodeAddr   address strings (character codes) *)
(*   DestFor(a, y) what a decoded address denotes under network y (NoDest  *)
(*                if the address does not belong to y)                     *)
(* Strings are sequences of character codes.                               *)
(***************************************************************************)
EXTENDS Wire, Bitwise, FiniteSets

\* ------------------------------------------------------- reference network table
\* Transcribed once (BIP173, SLIP-132/chainparams of the coins; bitcoinlib_test is the library's own unit-test
\* network; `regtest` is the library's definition: mainnet version bytes with the hrp bcrt).  NOT read from the tree.
NetTable == <<
  [name |-> "bitcoin",          pkh |-> 0,   sh |-> 5,   hrp |-> <<98, 99>>],
  [name |-> "testnet",          pkh |-> 111, sh |-> 196, hrp |-> <<116, 98>>],
  [name |-> "testnet4",         pkh |-> 111, sh |-> 196, hrp |-> <<116, 98>>],
  [name |-> "signet",           pkh |-> 111, sh |-> 196, hrp |-> <<116, 98>>],
  [name |-> "regtest",          pkh |-> 0,   sh |-> 5,   hrp |-> <<98, 99, 114, 116>>],
  [name |-> "litecoin",         pkh |-> 48,  sh |-> 50,  hrp |-> <<108, 116, 99>>],
  [name |-> "litecoin_legacy",  pkh |-> 48,  sh |-> 5,   hrp |-> <<108, 116, 99>>],
  [name |-> "litecoin_testnet", pkh |-> 111, sh |-> 58,  hrp |-> <<116, 108, 116, 99>>],
  [name |-> "dogecoin",         pkh |-> 30,  sh |-> 22,  hrp |-> <<100, 111, 103, 101>>],
  [name |-> "dogecoin_testnet", pkh |-> 113, sh |-> 196, hrp |-> <<116, 100, 111, 103, 101>>],
  [name |-> "bitcoinlib_test",  pkh |-> 144, sh |-> 149, hrp |-> <<98, 108, 116>>] >>
NetNames == {NetTable[i].name : i \in 1..Len(NetTable)}
NetOf(n) == NetTable[CHOOSE i \in 1..Len(NetTable) : NetTable[i].name = n]
VersionBytes == {NetTable[i].pkh : i \in 1..Len(NetTable)} \cup {NetTable[i].sh : i \in 1..Len(NetTable)}

\* ------------------------------------------------------------------ destinations
PKH(h) == [k |-> "pkh", v |-> 0, p |-> h]
SH(h) == [k |-> "sh", v |-> 0, p |-> h]
Wit(v, prog) == [k |-> "wit", v |-> v, p |-> prog]
NoDest == [k |-> "none", v |-> 0, p |-> <<>>]

\* BIP141: a witness program is 2..40 bytes, version 0..16; version 0 is defined for 20 and 32 bytes only
ValidWit(v, prog) == v \in 0..16 /\ Len(prog) \in 2..40 /\ (v = 0 => Len(prog) \in {20, 32})
ValidDest(d) == CASE d.k \in {"pkh", "sh"} -> Len(d.p) = 20
                  [] d.k = "wit" -> ValidWit(d.v, d.p)
                  [] OTHER -> FALSE
TypeName(d) == IF ~ValidDest(d) THEN "nonstandard"
               ELSE IF d.k = "pkh" THEN "p2pkh"
               ELSE IF d.k = "sh" THEN "p2sh"
               ELSE IF d.v = 0 THEN (IF Len(d.p) = 20 THEN "p2wpkh" ELSE "p2wsh")
               ELSE IF d.v = 1 /\ Len(d.p) = 32 THEN "p2tr"
               ELSE "witness_unknown"        \* valid address / script of a future witness version or size
StandardNames == {"p2pkh", "p2sh", "p2wpkh", "p2wsh", "p2tr"}
Standard(d) == TypeName(d) \in StandardNames

\* --------------------------------------------------------------- locking scripts
OpN(v) == IF v = 0 THEN 0 ELSE 80 + v          \* OP_0, OP_1..OP_16
\* template instantiation (no validity condition; also used to state what a deviation produces)
LockT(d) == CASE d.k = "pkh" -> <<118, 169>> \o Push(d.p) \o <<136, 172>>     \* DUP HASH160 <h> EQUALVERIFY CHECKSIG
              [] d.k = "sh"  -> <<169>> \o Push(d.p) \o <<135>>                 \* HASH160 <h> EQUAL
              [] d.k = "wit" -> <<OpN(d.v)>> \o Push(d.p)                       \* OP_v <program>
              [] OTHER -> <<>>
Lock(d) == LockT(d)                             \* meaningful for ValidDest(d)
LockItems(d) == CASE d.k = "pkh" -> <<Op(118), Op(169), Data(d.p), Op(136), Op(172)>>
                  [] d.k = "sh"  -> <<Op(169), Data(d.p), Op(135)>>
                  [] d.k = "wit" -> <<Op(OpN(d.v)), Data(d.p)>>
                  [] OTHER -> <<>>

\* exact byte patterns (Solver): the push of the payload is the direct push of exactly that many bytes
Classify(s) ==
    IF Len(s) = 25 /\ s[1] = 118 /\ s[2] = 169 /\ s[3] = 20 /\ s[24] = 136 /\ s[25] = 172 THEN PKH(SubSeq(s, 4, 23))
    ELSE IF Len(s) = 23 /\ s[1] = 169 /\ s[2] = 20 /\ s[23] = 135 THEN SH(SubSeq(s, 3, 22))
    ELSE IF Len(s) \in 4..42 /\ (s[1] = 0 \/ s[1] \in 81..96) /\ s[2] = Len(s) - 2
         THEN LET v == IF s[1] = 0 THEN 0 ELSE s[1] - 80
                  prog == SubSeq(s, 3, Len(s))
              IN IF ValidWit(v, prog) THEN Wit(v, prog) ELSE NoDest
    ELSE NoDest

\* ------------------------------------------------------------------------ Base58
B58Alphabet == <<49, 50, 51, 52, 53, 54, 55, 56, 57, 65, 66, 67, 68, 69, 70, 71, 72, 74, 75, 76, 77, 78, 80, 81, 82,
                 83, 84, 85, 86, 87, 88, 89, 90, 97, 98, 99, 100, 101, 102, 103, 104, 105, 106, 107, 109, 110, 111,
                 112, 113, 114, 115, 116, 117, 118, 119, 120, 121, 122>>
IndexIn(alpha, c) == IF \E i \in 1..Len(alpha) : alpha[i] = c THEN (CHOOSE i \in 1..Len(alpha) : alpha[i] = c) - 1 ELSE -1
B58Inv == [c \in 0..255 |-> IndexIn(B58Alphabet, c)]          \* constant tables (evaluated once)
B58Idx(c) == IF c \in 0..255 THEN B58Inv[c] ELSE -1
RECURSIVE LeadCount(_, _)
LeadCount(s, z) == IF s = <<>> \/ s[1] # z THEN 0 ELSE 1 + LeadCount(Tail(s), z)

B58Encode(b) == LET nz == LeadCount(b, 0)
                    digs == ConvBEtoLE(Drop(b, nz), 256, 58)
                IN Rep(49, nz) \o [i \in 1..Len(digs) |-> B58Alphabet[digs[Len(digs) + 1 - i] + 1]]
B58Decode(str) == IF str = <<>> \/ \E i \in 1..Len(str) : B58Idx(str[i]) < 0 THEN [ok |-> FALSE, b |-> <<>>]
                  ELSE LET nz == LeadCount(str, 49)
                           digs == [i \in 1..(Len(str) - nz) |-> B58Idx(str[nz + i])]
                       IN [ok |-> TRUE, b |-> Rep(0, nz) \o Rev(ConvBEtoLE(digs, 58, 256))]

\* Base58Check address: version byte, payload, 4 checksum bytes (chk = first four bytes of SHA256d(version || payload))
AddrPre(ver, h) == <<ver>> \o h
Addr58(ver, h, chk) == B58Encode(<<ver>> \o h \o chk)

\* ------------------------------------------------------------ Bech32 / Bech32m
B32Charset == <<113, 112, 122, 114, 121, 57, 120, 56, 103, 102, 50, 116, 118, 100, 119, 48, 115, 51, 106, 110, 53, 52,
                107, 104, 99, 101, 54, 109, 117, 97, 55, 108>>
B32Inv == [c \in 0..255 |-> IndexIn(B32Charset, c)]
B32Idx(c) == IF c \in 0..255 THEN B32Inv[c] ELSE -1
B32Gen == <<996825010, 642813549, 513874426, 1027748829, 705979059>>
Bech32Const == 1
Bech32mConst == 734539939
ConstFor(v) == IF v = 0 THEN Bech32Const ELSE Bech32mConst      \* BIP350

PolyStep(chk, val) ==
    LET top == chk \div 33554432
        c0 == ((chk % 33554432) * 32) ^^ val
        c1 == IF top % 2 = 1 THEN c0 ^^ B32Gen[1] ELSE c0
        c2 == IF (top \div 2) % 2 = 1 THEN c1 ^^ B32Gen[2] ELSE c1
        c3 == IF (top \div 4) % 2 = 1 THEN c2 ^^ B32Gen[3] ELSE c2
        c4 == IF (top \div 8) % 2 = 1 THEN c3 ^^ B32Gen[4] ELSE c3
    IN IF (top \div 16) % 2 = 1 THEN c4 ^^ B32Gen[5] ELSE c4
RECURSIVE PolyFold(_, _, _)
PolyFold(chk, vals, i) == IF i > Len(vals) THEN chk ELSE PolyFold(PolyStep(chk, vals[i]), vals, i + 1)
Polymod(vals) == PolyFold(1, vals, 1)
HrpExpand(hrp) == [i \in 1..Len(hrp) |-> hrp[i] \div 32] \o <<0>> \o [i \in 1..Len(hrp) |-> hrp[i] % 32]

\* 8 -> 5 bit regrouping with zero padding; 5 -> 8 without padding (left-over < 5 bits, all zero)
To5(bytes) == LET bits == BytesBits(bytes)
                  pad == (5 - (Len(bits) % 5)) % 5
              IN Group(bits \o Rep(0, pad), 5)
Bits5(x) == <<(x \div 16) % 2, (x \div 8) % 2, (x \div 4) % 2, (x \div 2) % 2, x % 2>>
RECURSIVE Bits5Seq(_)
Bits5Seq(s) == IF s = <<>> THEN <<>> ELSE Bits5(s[1]) \o Bits5Seq(Tail(s))
From5(vals) == LET bits == Bits5Seq(vals)
                   n == Len(bits) \div 8
                   rest == Drop(bits, 8 * n)
               IN [ok |-> Len(rest) < 5 /\ \A i \in 1..Len(rest) : rest[i] = 0, b |-> Group(Take(bits, 8 * n), 8)]

SegwitEncode(hrp, v, prog) ==
    LET data == <<v>> \o To5(prog)
        pm == Polymod(HrpExpand(hrp) \o data \o Rep(0, 6)) ^^ ConstFor(v)
        cs == <<(pm \div 33554432) % 32, (pm \div 1048576) % 32, (pm \div 32768) % 32, (pm \div 1024) % 32,
                (pm \div 32) % 32, pm % 32>>
        all == data \o cs
    IN hrp \o <<49>> \o [i \in 1..Len(all) |-> B32Charset[all[i] + 1]]

IsUpper(c) == c \in 65..90
IsLower(c) == c \in 97..122
LowerC(c) == IF IsUpper(c) THEN c + 32 ELSE c
SegErr == [ok |-> FALSE, hrp |-> <<>>, v |-> 0, prog |-> <<>>]
SegwitDecode(str0) ==
    IF Len(str0) > 90 \/ Len(str0) < 8 \/ (\E i \in 1..Len(str0) : str0[i] < 33 \/ str0[i] > 126)
       \/ ((\E i \in 1..Len(str0) : IsUpper(str0[i])) /\ (\E i \in 1..Len(str0) : IsLower(str0[i]))) THEN SegErr
    ELSE LET str == [i \in 1..Len(str0) |-> LowerC(str0[i])]
             seps == {i \in 1..Len(str) : str[i] = 49}
         IN IF seps = {} THEN SegErr
            ELSE LET pos == CHOOSE i \in seps : \A j \in seps : j <= i
                     hrp == SubSeq(str, 1, pos - 1)
                     dp == SubSeq(str, pos + 1, Len(str))
                 IN IF pos < 2 \/ Len(dp) < 7 \/ (\E i \in 1..Len(dp) : B32Idx(dp[i]) < 0) THEN SegErr
                    ELSE LET vals == [i \in 1..Len(dp) |-> B32Idx(dp[i])]
                             v == vals[1]
                             pm == Polymod(HrpExpand(hrp) \o vals)
                             conv == From5(SubSeq(vals, 2, Len(vals) - 6))
                         IN IF v > 16 \/ pm # ConstFor(v) \/ ~conv.ok \/ ~ValidWit(v, conv.b) THEN SegErr
                            ELSE [ok |-> TRUE, hrp |-> hrp, v |-> v, prog |-> conv.b]

\* ------------------------------------------------------------- address <-> destination
\* decoded address; for Base58Check the checksum bytes are returned, the caller compares them with SHA256d
AddrErr == [ok |-> FALSE, enc |-> "", ver |-> 0, hrp |-> <<>>, v |-> 0, p |-> <<>>, chk |-> <<>>]
DecodeAddr(str) ==
    LET r == B58Decode(str) IN
    IF r.ok /\ Len(r.b) = 25
    THEN [ok |-> TRUE, enc |-> "base58", ver |-> r.b[1], hrp |-> <<>>, v |-> 0, p |-> SubSeq(r.b, 2, 21), chk |-> SubSeq(r.b, 22, 25)]
    ELSE LET s == SegwitDecode(str) IN
         IF s.ok THEN [ok |-> TRUE, enc |-> "bech32", ver |-> 0, hrp |-> s.hrp, v |-> s.v, p |-> s.prog, chk |-> <<>>]
         ELSE AddrErr

\* the networks an address belongs to (several networks share prefixes)
NetworksOf(a) == IF ~a.ok THEN {}
                 ELSE IF a.enc = "base58" THEN {n \in NetNames : NetOf(n).pkh = a.ver \/ NetOf(n).sh = a.ver}
                 ELSE {n \in NetNames : NetOf(n).hrp = a.hrp}
\* what the address denotes in a transaction of network y; NoDest: it is not an address of y and must be refused
DestFor(a, y) == IF y \notin NetworksOf(a) THEN NoDest
                 ELSE IF a.enc = "base58" THEN (IF NetOf(y).pkh = a.ver THEN PKH(a.p) ELSE SH(a.p))
                 ELSE Wit(a.v, a.p)

\* version byte of a Base58 destination in network y / string of a destination (chk only used for Base58)
VerFor(y, d) == IF d.k = "pkh" THEN NetOf(y).pkh ELSE NetOf(y).sh
AddrOf(y, d, chk) == IF d.k = "wit" THEN SegwitEncode(NetOf(y).hrp, d.v, d.p) ELSE Addr58(VerFor(y, d), d.p, chk)
=============================================================================
