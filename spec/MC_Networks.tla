---------------------------- MODULE MC_Networks ----------------------------
(* Bounded model: every query of the three lookups over the pinned table, one query per state. *)
EXTENDS Networks, NetworksData, TLC
VARIABLES q, ans
vars == <<q, ans>>
T == Pinned
Values(f) == {T[i][f] : i \in Idx(T)} \cup {"zz"}
Prefixes == UNION {{T[i].hd[k].prefix : k \in 1..Len(T[i].hd)} : i \in Idx(T)} \cup {"00000000"}
Init == q = [op |-> "none"] /\ ans = <<>>
AskByValue == q.op = "none" /\ \E f \in Fields, v \in UNION {Values(g) : g \in Fields} :
                 /\ q' = [op |-> "by_value", f |-> f, v |-> v]
                 /\ ans' = ByValue(T, f, v, v)
AskSearch == q.op = "none" /\ \E p \in Prefixes, wt \in WitnessTypes \cup {""}, ms \in {"any", "yes", "no"}, net \in Names(T) \cup {""} :
                 /\ q' = [op |-> "search", p |-> p, wt |-> wt, ms |-> ms, net |-> net]
                 /\ ans' = Search(T, p, wt, ms, net)
AskWifPrefix == q.op = "none" /\ \E nm \in Names(T), priv \in BOOLEAN, wt \in WitnessTypes, m \in BOOLEAN :
                 /\ HasWifPrefix(Row(T, nm), priv, wt, m)
                 /\ q' = [op |-> "wif_prefix", net |-> nm, priv |-> priv, wt |-> wt, multisig |-> m]
                 /\ ans' = <<WifPrefix(Row(T, nm), priv, wt, m)>>
Next == AskByValue \/ AskSearch \/ AskWifPrefix
Spec == Init /\ [][Next]_vars

TableWellFormed == \A i \in Idx(T) : RowShape(T[i]) /\ AddressKindsDistinct(T[i]) /\ VersionTellsPrivacy(T[i])
NamesUnique == \A i, j \in Idx(T) : T[i].name = T[j].name => i = j
\* by_value: exactly the rows holding the value, each once, never a lower priority before a higher one
ByValueExact == q.op = "by_value" =>
    /\ {ans[k] : k \in 1..Len(ans)} = {T[i].name : i \in Hits(T, q.f, q.v)}
    /\ \A j, k \in 1..Len(ans) : j < k => ans[j] # ans[k] /\ Row(T, ans[j]).priority >= Row(T, ans[k]).priority
\* search: every entry answers the question asked, nothing that answers it is left out
SearchSound == q.op = "search" => \A k \in 1..Len(ans) :
    /\ ans[k].prefix = q.p /\ (q.net = "" \/ ans[k].network = q.net)
    /\ (q.wt = "" \/ ans[k].witness_type = q.wt) /\ (q.ms = "any" \/ ans[k].multisig = (q.ms = "yes"))
SearchComplete == q.op = "search" => \A i \in Idx(T), k \in 1..12 :
    (k <= Len(T[i].hd) /\ (q.net = "" \/ T[i].name = q.net) /\ Match(T[i].hd[k], q.p, q.wt, q.ms))
        => \E j \in 1..Len(ans) : ans[j] = Entry(T, i, k)
\* a fully limited search has one meaning
SearchLimitedIsUnambiguous == (q.op = "search" /\ q.net # "" /\ q.wt # "" /\ q.ms # "any") => Len(ans) <= 1
\* the version handed out is found again
WifPrefixRoundTrip == q.op = "wif_prefix" => RoundTrip(T, Row(T, q.net), q.priv, q.wt, q.multisig)
\* every network can serialize public and private single-signature legacy keys
EveryNetworkHasLegacyVersions == \A i \in Idx(T), priv \in BOOLEAN : HasWifPrefix(T[i], priv, "legacy", FALSE)
=============================================================================
