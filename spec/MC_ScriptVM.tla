----------------------------- MODULE MC_ScriptVM -----------------------------
(* Bounded model of the script machine: the next item is chosen freely at each step, so the state graph is the graph  *)
(* of (stack, condition stack) x item; paths are programs.  Design invariants of the consensus semantics.            *)
EXTENDS ScriptVM, TLC
CONSTANTS MaxLen
VARIABLES vm, n, lastop
vars == <<vm, n, lastop>>

Values == {<<>>, <<0>>, <<1>>, <<2>>, <<127>>, <<128>>, <<129>>, <<255>>, <<0, 128>>, <<1, 2, 3, 4, 5>>}
Ops == (Implemented \ ((OP_RIPEMD160..OP_HASH256) \cup {OP_CHECKSIG, OP_CHECKSIGVERIFY, OP_CHECKMULTISIG, OP_CHECKMULTISIGVERIFY}))
       \ (OP_1 + 3..OP_16)
Items == {Op(c) : c \in Ops} \cup {Data(v) : v \in Values \ {<<>>}}
MCEnv == [hashes |-> <<>>, sigs |-> <<>>, locktime |-> 100, seqfinal |-> FALSE, version |-> 2, seqdisable |-> FALSE,
          seqtype |-> FALSE, seqval |-> 5, hasredeem |-> FALSE, redeem |-> <<>>]

Init == vm = InitVM /\ n = 0 /\ lastop = Op(OP_NOP)
Next == /\ n < MaxLen
        /\ \E it \in Items : vm' = Step(vm, it, MCEnv, {}) /\ lastop' = it
        /\ n' = n + 1
Spec == Init /\ [][Next]_vars

Executing(s) == \A i \in 1..Len(s.cond) : s.cond[i]
TypeOK == /\ \A i \in 1..Len(vm.st) : IsBytes(vm.st[i])
          /\ Len(vm.cond) <= n /\ Len(vm.st) <= 3 * n
FailureIsFinal == [][~vm.ok => vm' = vm]_vars
\* a non-executing branch changes nothing but the condition stack
SkippedBranchInert == [][(vm.ok /\ ~Executing(vm)) => (vm'.st = vm.st /\ vm'.ok)]_vars
\* only the four flow opcodes touch the condition stack
CondOnlyByFlow == [][vm'.cond # vm.cond => (lastop'.t = "op" /\ lastop'.c \in {OP_IF, OP_NOTIF, OP_ELSE, OP_ENDIF})]_vars
\* results of numeric opcodes are minimally encoded
NumericResultsMinimal == [][(vm.ok /\ vm'.ok /\ Executing(vm) /\ lastop'.t = "op" /\ lastop'.c \in (OP_1ADD..OP_SUB) \cup (OP_BOOLAND..OP_WITHIN)
                              /\ lastop'.c \notin {OP_NUMEQUALVERIFY}) => NumMinimal(Top(vm'.st, 1))]_vars
\* the verdict of a finished program: success needs a true top element and balanced conditionals
SuccessRule == LET r == Exec(<<>>, MCEnv, {}) IN ~r.ok
=============================================================================
