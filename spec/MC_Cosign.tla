------------------------------ MODULE MC_Cosign ------------------------------
(* Bounded model of C10: every configuration of Cfgs, every rank (BIP67 order) of RankSet, every way the cosigner      *)
(* wallets can be created (each with its own listing order of the keys), then every ceremony: all signing orders, all   *)
(* hand-off chains in all four forms (at most MaxHandoffs hand-offs), broadcast attempts at any time.                   *)
(* The design statements of the property are the invariants below.                                                      *)
EXTENDS Cosign, TLC
CONSTANTS MaxHandoffs, Big        \* Big = TRUE: all 24 listing orders for n = 4 (1.3 million states, ~6 min; not used by the
                                  \* registered configurations), FALSE: 5 representative orders
VARIABLES cfg, rank, order, phase, script, s, hand, pushedSig, proposed
vars == <<cfg, rank, order, phase, script, s, hand, pushedSig, proposed>>

Shapes == { [n |-> 2, m |-> 1, holder |-> <<1, 2>>], [n |-> 2, m |-> 2, holder |-> <<1, 2>>],
            [n |-> 3, m |-> 2, holder |-> <<1, 2, 3>>], [n |-> 3, m |-> 3, holder |-> <<1, 2, 3>>],
            [n |-> 4, m |-> 2, holder |-> <<1, 2, 3, 4>>],
            [n |-> 3, m |-> 2, holder |-> <<1, 1, 2>>] }          \* two wallets of the same cosigner
\* wallet settings: anti-fee-sniping alternates over the wallets (no rule of the property semantics reads them: what a
\* wallet imports does not depend on its settings)
\* what the wallets know: all know the output / the last wallet is an offline signer / (three wallets) the last
\* has not derived the address and the one before is offline
Knows(c) == LET W0 == Len(c.holder) IN
            {[w \in 1..W0 |-> "utxo"]}
            \cup (IF c.m = 2 /\ c.n <= 3 THEN {[w \in 1..W0 |-> IF w = W0 THEN "keys" ELSE "utxo"]} ELSE {})
            \cup (IF c.m = 2 /\ W0 = 3 THEN {[w \in 1..W0 |-> IF w = W0 THEN "none" ELSE IF w = W0 - 1 THEN "keys" ELSE "utxo"]} ELSE {})
\* (what the wallets know is settled when the address is funded, see Fund; until then nobody knows an output)
Cfgs == { [n |-> c.n, m |-> c.m, holder |-> c.holder, afs |-> [w \in 1..Len(c.holder) |-> w % 2 = 1],
           height |-> <<1, 0, 0, 0>>, knows |-> [w \in 1..Len(c.holder) |-> "utxo"]] : c \in Shapes }
Id(n) == [i \in 1..n |-> i]
Rv(n) == [i \in 1..n |-> n + 1 - i]
PermSet(n) == IF n <= 3 \/ Big THEN Perms(n)
              ELSE {Id(4), Rv(4), <<2, 3, 4, 1>>, <<2, 1, 4, 3>>, <<3, 1, 4, 2>>}
RankSet(n) == {Id(n), Rv(n), [i \in 1..n |-> ((i + 1) % n) + 1]}
NoScript == [m |-> 0, keys |-> <<>>]
W == Wallets(cfg)

Init == /\ cfg \in Cfgs /\ rank \in RankSet(cfg.n)
        /\ order = [w \in Wallets(cfg) |-> <<>>] /\ phase = "setup" /\ script = NoScript
        /\ s = InitS(cfg) /\ hand = 0 /\ pushedSig = <<>> /\ proposed = NoBody

Create == /\ phase = "setup"
          /\ \E w \in W, p \in PermSet(cfg.n) : order[w] = <<>> /\ order' = [order EXCEPT ![w] = p]
          /\ UNCHANGED <<cfg, rank, phase, script, s, hand, pushedSig, proposed>>
\* the common address is funded once every cosigner has derived it; from here on the listing orders play no role
Fund == /\ phase = "setup" /\ \A w \in W : order[w] # <<>>
        /\ \A w, v \in W : ScriptOf(cfg, order[w], rank) = ScriptOf(cfg, order[v], rank)
        \* (the agreed script is checked in this step, see FundAgrees; the ceremony does not depend on the key order, so the
        \* rank is forgotten as well: one ceremony state space for all ranks)
        /\ rank' = Id(cfg.n) /\ script' = TheScript(cfg, Id(cfg.n)) /\ phase' = "funded" /\ order' = [w \in W |-> <<>>]
        /\ \E k \in Knows(cfg) : cfg' = [cfg EXCEPT !.knows = k]
        /\ UNCHANGED <<s, hand, pushedSig, proposed>>
\* two bodies stand for the proposer's freedom (locktime 0 or block height, final or replaceable sequence, ...)
\* ... and for spends with one or (small groups) two inputs
Bodies == {[NoBody EXCEPT !.locktime = <<0>>, !.ins = <<1>>]}
          \cup (IF cfg.n = 2 THEN {[NoBody EXCEPT !.locktime = <<1>>, !.ins = <<1, 2>>]} ELSE {})
          \cup (IF cfg.n = 3 THEN {[NoBody EXCEPT !.locktime = <<1>>, !.ins = <<1>>]} ELSE {})
Propose == /\ phase = "funded" /\ \E w \in W, b \in Bodies : s' \in A_Propose(cfg, s, w, b) /\ proposed' = b
           /\ UNCHANGED <<cfg, rank, order, phase, script, hand, pushedSig>>
Sign == /\ phase = "funded" /\ \E w \in W : s' \in A_Sign(cfg, s, w) /\ s' # s
        /\ UNCHANGED <<cfg, rank, order, phase, script, hand, pushedSig, proposed>>
\* uneven signing: one input only, with the wallet's own key or with a key handed to it
SignPart == /\ phase = "funded"
            /\ \E w \in W : \E i \in Inputs(s.copy[w]) :
                  \/ s' \in A_SignIn(cfg, s, w, {i})
                  \/ \E k \in 1..cfg.n : s' \in A_SignKey(cfg, s, w, k, {i})
            /\ s' # s /\ Len(proposed.ins) > 1
            /\ UNCHANGED <<cfg, rank, order, phase, script, hand, pushedSig, proposed>>
HandOff == /\ phase = "funded" /\ hand < MaxHandoffs
           /\ \E w, v \in W, f \in Forms : s' \in A_HandOff(cfg, s, w, v, f, {})
           /\ hand' = hand + 1 /\ UNCHANGED <<cfg, rank, order, phase, script, pushedSig, proposed>>
HandOffRefused == /\ phase = "funded" /\ {x \in W \X W \X Forms : s.copy[x[1]].has /\ x[1] # x[2] /\ MayRefuse(cfg, x[2], x[3])} # {}
                  /\ UNCHANGED vars
SendOk == /\ phase = "funded"
          /\ \E w \in W : SendPushes(cfg, s, w) /\ s' \in A_Send(cfg, s, w) /\ pushedSig' = s.copy[w].signed
          /\ UNCHANGED <<cfg, rank, order, phase, script, hand, proposed>>
SendRefused == /\ phase = "funded"
               /\ \E w \in W : s.copy[w].has /\ ~SendPushes(cfg, s, w) /\ s' \in A_Send(cfg, s, w)
               /\ UNCHANGED <<cfg, rank, order, phase, script, hand, pushedSig, proposed>>
Next == Create \/ Fund \/ Propose \/ Sign \/ SignPart \/ HandOff \/ HandOffRefused \/ SendOk \/ SendRefused
Spec == Init /\ [][Next]_vars

\* all wallets created so far derive one and the same script: the n keys in rank order with threshold m
Agreement == \A w \in W : order[w] # <<>> => ScriptOf(cfg, order[w], rank) = TheScript(cfg, rank)
FundedScript == phase = "funded" => script = TheScript(cfg, rank)
\* the address is funded only when every wallet arrived at the one script of the group
FundAgrees == [][(phase = "setup" /\ phase' = "funded") => \A w \in W : ScriptOf(cfg, order[w], rank) = TheScript(cfg, rank)]_vars
\* a copy is valid exactly when at least m distinct cosigners signed on the chain that led to it - in any order,
\* through any chain of hand-offs
\* - for EVERY input
ValidIffMDistinctSigners == \A w \in W : Valid(cfg, s.copy[w]) <=>
                                (s.copy[w].has /\ \A i \in Inputs(s.copy[w]) : Cardinality(s.by[w][i]) >= cfg.m)
NoForgery == \A w \in W : \A i \in Inputs(s.copy[w]) : s.copy[w].signed[i] \subseteq s.by[w][i]
\* one input with fewer than m signers keeps the spend invalid, wherever that input stands and however many signed the others
OneIncompleteInputSuffices == \A w \in W : (\E i \in Inputs(s.copy[w]) : Cardinality(s.copy[w].signed[i]) < cfg.m) => ~Valid(cfg, s.copy[w])
PushedOnlyValid == (s.pushed => pushedSig # <<>> /\ \A i \in 1..Len(pushedSig) : Cardinality(pushedSig[i]) >= cfg.m)
                   /\ (~s.pushed => pushedSig = <<>>)
\* a refused broadcast leaves everything as it was
RefusedIsNoop == \A w \in W : (s.copy[w].has /\ ~Valid(cfg, s.copy[w])) => A_Send(cfg, s, w) = {s}
\* no hand-off loses, adds or duplicates a signature: validity is preserved; only the network serialization of an
\* over-complete copy drops the signatures CHECKMULTISIG has no use for
HandOffKeeps == \A w, v \in W, f \in Forms : \A s2 \in A_HandOff(cfg, s, w, v, f, {}) :
                    /\ Valid(cfg, s2.copy[v]) = Valid(cfg, s.copy[w])
                    /\ \A i \in Inputs(s.copy[w]) : s2.copy[v].signed[i] \subseteq s.copy[w].signed[i]
                    /\ (f # "raw" \/ \A i \in Inputs(s.copy[w]) : Cardinality(s.copy[w].signed[i]) <= cfg.m)
                          => s2.copy[v].signed = s.copy[w].signed
\* whatever the importing wallet knows: unless it may refuse, it gets the copy, can add its signature, and the result is
\* valid as soon as m distinct cosigners have signed (an offline signer is a full cosigner)
OfflineSignerSuffices ==
    \A w, v \in W, f \in Forms : (s.copy[w].has /\ w # v /\ ~MayRefuse(cfg, v, f)) =>
        /\ A_HandOff(cfg, s, w, v, f, {}) # {}
        /\ \A s2 \in A_HandOff(cfg, s, w, v, f, {}) : \A s3 \in A_Sign(cfg, s2, v) :
              (\A i \in Inputs(s.copy[w]) : Cardinality(s.copy[w].signed[i] \cup {cfg.holder[v]}) >= cfg.m) => Valid(cfg, s3.copy[v])
\* the named deviation is exactly what breaks this: it is enabled nowhere in the model
\* every copy, wherever it travelled, is the transaction that was proposed: what the signatures commit to never changes
CommitmentPreserved == \A w \in W : s.copy[w].has => s.copy[w].body = proposed /\ proposed \in Bodies
\* a broadcast is final; signing by w only ever adds the signature of the key w holds
PushedStable == [][s.pushed => s'.pushed]_vars
SigningOnlyAdds == [][\A w \in W : s' \in A_Sign(cfg, s, w) =>
                         \A i \in Inputs(s.copy[w]) : s'.copy[w].signed[i] = s.copy[w].signed[i] \cup {cfg.holder[w]}]_vars
=============================================================================
