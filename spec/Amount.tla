------------------------------- MODULE Amount -------------------------------
(***************************************************************************)
(* C17 - amounts: decimal text  <->  integer number of smallest units.     *)
(*                                                                         *)
(* Written from the property text and the unit tables (bitcoin.it/Units,   *)
(* SI prefixes), not from the library.  There are no floats here: an       *)
(* amount is a sequence of decimal digits (most significant first), a text *)
(* is a sequence of Unicode code points, and converting between units is   *)
(* *moving the decimal point*.                                             *)
(*                                                                         *)
(*   text      ::=  number [ ' '+ unit ]                                   *)
(*   number    ::=  ['-'] digit* ['.' digit*]        (at least one digit)  *)
(*   unit      ::=  denominator-symbol currency-code (both may be empty)   *)
(*                                                                         *)
(* A text with denominator 10^d of a network whose smallest unit is 10^s   *)
(* main units denotes  number * 10^(d-s)  smallest units.  The conversion  *)
(* is EXACT when that is an integer; otherwise the property does not       *)
(* prescribe a rounding mode and either neighbouring integer is accepted.  *)
(***************************************************************************)
EXTENDS Bytes, FiniteSets

(* ---------------- reference tables (transcribed, not read from the code) *)
\* symbols as code points: 181 = MICRO SIGN
Denominators == <<
  [name |-> "usat", cps |-> <<181, 115, 97, 116>>, exp |-> -14],
  [name |-> "msat", cps |-> <<109, 115, 97, 116>>, exp |-> -11],
  [name |-> "n",    cps |-> <<110>>,               exp |-> -9],
  [name |-> "sat",  cps |-> <<115, 97, 116>>,      exp |-> -8],
  [name |-> "fin",  cps |-> <<102, 105, 110>>,     exp |-> -7],
  [name |-> "u",    cps |-> <<181>>,               exp |-> -6],
  [name |-> "m",    cps |-> <<109>>,               exp |-> -3],
  [name |-> "c",    cps |-> <<99>>,                exp |-> -2],
  [name |-> "d",    cps |-> <<100>>,               exp |-> -1],
  [name |-> "one",  cps |-> <<>>,                  exp |-> 0],
  [name |-> "da",   cps |-> <<100, 97>>,           exp |-> 1],
  [name |-> "h",    cps |-> <<104>>,               exp |-> 2],
  [name |-> "k",    cps |-> <<107>>,               exp |-> 3],
  [name |-> "M",    cps |-> <<77>>,                exp |-> 6],
  [name |-> "G",    cps |-> <<71>>,                exp |-> 9],
  [name |-> "T",    cps |-> <<84>>,                exp |-> 12],
  [name |-> "P",    cps |-> <<80>>,                exp |-> 15],
  [name |-> "E",    cps |-> <<69>>,                exp |-> 18],
  [name |-> "Z",    cps |-> <<90>>,                exp |-> 21],
  [name |-> "Y",    cps |-> <<89>>,                exp |-> 24] >>
DenIdx == 1..Len(Denominators)
DenByName(nm) == CHOOSE i \in DenIdx : Denominators[i].name = nm

\* currency codes: BTC tBTC sBTC rBTC LTC XLT DOGE tDOGE TST; smallest unit 10^-8 everywhere
Networks == <<
  [name |-> "bitcoin",          code |-> <<66, 84, 67>>,           exp |-> -8],
  [name |-> "testnet",          code |-> <<116, 66, 84, 67>>,      exp |-> -8],
  [name |-> "testnet4",         code |-> <<116, 66, 84, 67>>,      exp |-> -8],
  [name |-> "signet",           code |-> <<115, 66, 84, 67>>,      exp |-> -8],
  [name |-> "regtest",          code |-> <<114, 66, 84, 67>>,      exp |-> -8],
  [name |-> "litecoin",         code |-> <<76, 84, 67>>,           exp |-> -8],
  [name |-> "litecoin_legacy",  code |-> <<76, 84, 67>>,           exp |-> -8],
  [name |-> "litecoin_testnet", code |-> <<88, 76, 84>>,           exp |-> -8],
  [name |-> "dogecoin",         code |-> <<68, 79, 71, 69>>,       exp |-> -8],
  [name |-> "dogecoin_testnet", code |-> <<116, 68, 79, 71, 69>>,  exp |-> -8],
  [name |-> "bitcoinlib_test",  code |-> <<84, 83, 84>>,           exp |-> -8] >>
NetIdx == 1..Len(Networks)
NetNames == {Networks[i].name : i \in NetIdx}
NetByName(nm) == Networks[CHOOSE i \in NetIdx : Networks[i].name = nm]
Codes == {Networks[i].code : i \in NetIdx}
NetsOfCode(c) == {Networks[i].name : i \in {j \in NetIdx : Networks[j].code = c}}
DefaultNet == "bitcoin"

\* total supply 21 * 10^14 smallest units: the property quantifies over amounts up to it
Supply == <<2, 1>> \o Rep(0, 14)
Threshold15 == <<1>> \o Rep(0, 15)       \* 10^15, see the float deviations in AmountEval

(* ---------------- decimal digit sequences (most significant first) ----- *)
IsDigits(s) == \A i \in 1..Len(s) : s[i] \in 0..9
AllZero(s) == \A i \in 1..Len(s) : s[i] = 0
Norm(s) == TrimLead(s)                                   \* 0 is <<>>
Cmp(a, b) == CmpLE(Rev(a), Rev(b))                        \* -1, 0, 1 (leading zeros ignored)
\* (SubSeq yields an explicit tuple; TLC cannot compare a lazily evaluated function value with a tuple inside a set)
Tup(s) == SubSeq(s, 1, Len(s))
Inc(s) == Tup(Rev(AddLE(Rev(s), <<1>>, 10)))
Differ1(a, b) == Inc(Norm(a)) = Norm(b) \/ Inc(Norm(b)) = Norm(a)
Max(a, b) == IF a > b THEN a ELSE b

(* a decimal number is [i |-> integer digits, f |-> fraction digits]; move the point k places to the right *)
ShiftPoint(x, k) ==
    IF k >= 0
    THEN LET ff == x.f \o Rep(0, Max(0, k - Len(x.f))) IN [i |-> x.i \o SubSeq(ff, 1, k), f |-> Drop(ff, k)]
    ELSE LET m  == 0 - k
             ii == Rep(0, Max(0, m - Len(x.i))) \o x.i
         IN [i |-> SubSeq(ii, 1, Len(ii) - m), f |-> SubSeq(ii, Len(ii) - m + 1, Len(ii)) \o x.f]

\* the number as <<floor, exact?>> and the set of integers the property accepts for it
Floor(x) == Norm(x.i)
Exact(x) == AllZero(x.f)
Accepted(x) == IF Exact(x) THEN {Floor(x)} ELSE {Floor(x), Inc(Floor(x))}

(* ---------------- texts ------------------------------------------------ *)
SP == 32
RECURSIVE Tokens(_)
Tokens(s) ==
    IF s = <<>> THEN <<>>
    ELSE IF s[1] = SP THEN Tokens(Tail(s))
    ELSE LET ends == {j \in 1..Len(s) : s[j] = SP}
             e == IF ends = {} THEN Len(s) + 1 ELSE CHOOSE j \in ends : \A l \in ends : j <= l
         IN <<SubSeq(s, 1, e - 1)>> \o Tokens(SubSeq(s, e, Len(s)))

ParseNumber(tok) ==
    LET neg  == tok # <<>> /\ tok[1] = 45
        body == IF neg THEN Tail(tok) ELSE tok
        dots == {j \in 1..Len(body) : body[j] = 46}
        p    == IF dots = {} THEN Len(body) + 1 ELSE CHOOSE j \in dots : TRUE
        ip   == SubSeq(body, 1, p - 1)
        fp   == SubSeq(body, p + 1, Len(body))
        dig(s) == [j \in 1..Len(s) |-> s[j] - 48]
    IN IF Cardinality(dots) <= 1 /\ Len(ip) + Len(fp) >= 1 /\ IsDigits(dig(ip)) /\ IsDigits(dig(fp))
       THEN [ok |-> TRUE, neg |-> neg, i |-> dig(ip), f |-> dig(fp)]
       ELSE [ok |-> FALSE, neg |-> FALSE, i |-> <<>>, f |-> <<>>]

Fold(c) == IF c \in 97..122 THEN c - 32 ELSE c
FoldSeq(s) == [j \in 1..Len(s) |-> Fold(s[j])]

(* A unit token is a denominator symbol (case-sensitive: m is milli, M is mega) followed by a currency code or by   *)
(* nothing.  Codes are recognised without regard to case, but a reading that matches a code exactly as it is        *)
(* written wins over one that needs case folding (so "TBTC" is tera-BTC, "tBTC" and "tbtc" are testnet coins).      *)
Readings(u) ==
    LET dens == {d \in DenIdx : LET sym == Denominators[d].cps IN
                                 Len(sym) <= Len(u) /\ SubSeq(u, 1, Len(sym)) = sym}
        rest(d) == SubSeq(u, Len(Denominators[d].cps) + 1, Len(u))
        all == UNION { { <<d, c>> : c \in {x \in Codes \cup {<<>>} : Len(x) = Len(rest(d)) /\ FoldSeq(x) = FoldSeq(rest(d))} }
                       : d \in dens }
        exact == {r \in all : rest(r[1]) = r[2]}
    IN IF exact # {} THEN exact ELSE all

(* ParseText: what a text denotes.  ok = FALSE: not an amount text (outside the property). *)
NoParse == [ok |-> FALSE, neg |-> FALSE, num |-> [i |-> <<>>, f |-> <<>>], den |-> 10, code |-> <<>>, unit |-> <<>>,
            ambiguous |-> FALSE]
ParseText(t) ==
    LET toks == Tokens(t) IN
    IF Len(toks) \notin {1, 2} THEN NoParse
    ELSE LET nb == ParseNumber(toks[1])
             u  == IF Len(toks) = 2 THEN toks[2] ELSE <<>>
             rs == Readings(u)
         IN IF ~nb.ok \/ rs = {} THEN NoParse
            ELSE LET r == CHOOSE x \in rs : TRUE IN
                 [ok |-> TRUE, neg |-> nb.neg, num |-> [i |-> Tup(nb.i), f |-> Tup(nb.f)], den |-> r[1], code |-> r[2],
                  unit |-> u, ambiguous |-> Cardinality(rs) > 1]

\* the network a text is about: the one named by its code, else the one supplied by the caller, else the default
TextNets(p, netArg) == IF p.code # <<>> THEN NetsOfCode(p.code) ELSE {IF netArg = "" THEN DefaultNet ELSE netArg}
NetAgrees(p, netArg) == netArg = "" \/ p.code = <<>> \/ netArg \in NetsOfCode(p.code)

\* the amount of a parsed text in smallest units of network `net`, as a decimal number
Units(p, net) == ShiftPoint(p.num, Denominators[p.den].exp - NetByName(net).exp)

(* ---------------- formatting ------------------------------------------- *)
\* number of fractional places of denominator den on network net (<= 0: the denominator is finer than the unit)
Places(den, net) == Denominators[den].exp - NetByName(net).exp

\* n (digits) expressed in denominator den: a decimal number, always exact
InDen(n, den, net) == ShiftPoint([i |-> n, f |-> <<>>], 0 - Places(den, net))

\* n is representable with `dec` decimals of denominator den
Representable(n, den, net, dec) == AllZero(Drop(InDen(n, den, net).f, dec))

\* the two numbers with `dec` decimals (in denominator den) that enclose n; equal when representable
Neighbours(n, den, net, dec) ==
    LET x  == InDen(n, den, net)
        lo == [i |-> x.i, f |-> Take(x.f \o Rep(0, Max(0, dec - Len(x.f))), dec)]
        up == LET all == Inc(lo.i \o lo.f)                       \* add one unit in the last place
                  padded == Rep(0, Max(0, dec + 1 - Len(all))) \o all
              IN [i |-> SubSeq(padded, 1, Len(padded) - dec), f |-> SubSeq(padded, Len(padded) - dec + 1, Len(padded))]
    IN IF Representable(n, den, net, dec) THEN {lo} ELSE {lo, up}

SameNumber(a, b) == /\ Norm(a.i) = Norm(b.i)
                    /\ LET l == Max(Len(a.f), Len(b.f)) IN a.f \o Rep(0, l - Len(a.f)) = b.f \o Rep(0, l - Len(b.f))

\* decimals that are always enough
Sufficient(den, net) == Max(0, Places(den, net))

Digs(s) == [j \in 1..Len(s) |-> s[j] + 48]
NumberText(x) == (IF Norm(x.i) = <<>> THEN <<48>> ELSE Digs(Norm(x.i))) \o (IF x.f = <<>> THEN <<>> ELSE <<46>> \o Digs(x.f))
\* the canonical texts for n with `dec` decimals (two candidates when n is not representable)
FormatTexts(n, den, net, dec) ==
    {NumberText(x) \o <<SP>> \o Denominators[den].cps \o NetByName(net).code : x \in Neighbours(n, den, net, dec)}

(* ---------------- amounts placed in transactions ----------------------- *)
\* only non-negative integers of the smallest unit may be placed; they are serialized as 8 bytes little-endian
LE8(n) == PadLE(ConvBEtoLE(n, 10, 256), 8)

(* An amount may reach an entry point (Output, Transaction.add_output, Input) as a number of any numeric type: int,   *)
(* bool, float, decimal.Decimal, fractions.Fraction, numpy scalars, or as a text / Value.  Whatever the carrier, it   *)
(* denotes an exact rational number num/den of smallest units (num: decimal digits, den: small positive integer).     *)
(* The rule: the call either refuses, or stores an INTEGER equal to that exact value - never a truncated, rounded or  *)
(* non-integer amount - and what is serialized (and what enters the fee) is the stored amount.                        *)
RatWhole(num, den) == DivSmallBE(num, den, 0, 10)[2] = 0
RatInt(num, den)   == Norm(DivSmallBE(num, den, 0, 10)[1])
\* carriers for which a whole, non-negative amount must be accepted (the documented argument types)
MustAccept(api, ty) == \/ api = "Output"     /\ ty \in {"int", "float", "str", "Value"}
                       \/ api = "add_output" /\ ty \in {"int", "float"}
                       \/ api \in {"Input", "add_input"} /\ ty \in {"int", "float", "str", "Value"}

(* ---------------- the fee of a transaction ------------------------------ *)
(* However a Transaction object comes to have a fee - constructor with inputs and outputs, with input_total /         *)
(* output_total or fee arguments, add_input / add_output and update_totals(), parsing a raw transaction and filling in *)
(* the input values, coinbase or not - the fee it reports is  sum(inputs) - sum(outputs)  exactly, an integer of the   *)
(* smallest unit, never negative: a transaction whose outputs exceed its known inputs is refused or reports no fee.     *)
(* A coinbase transaction may also report 0 (its input is, by definition, what it pays out).                           *)
RECURSIVE SumBE(_)
SumBE(amounts) == IF amounts = <<>> THEN <<>> ELSE Norm(Tup(Rev(AddLE(Rev(Head(amounts)), Rev(SumBE(Tail(amounts))), 10))))
\* <<known, fee>>: whether the transaction can pay (inputs >= outputs) and, if so, its fee
FeeOf(ins, outs) == LET i == SumBE(ins) o == SumBE(outs) IN
                    IF Cmp(i, o) >= 0 THEN [pays |-> TRUE, fee |-> Norm(Tup(Rev(SubLE(Rev(i), Rev(o), 10))))]
                    ELSE [pays |-> FALSE, fee |-> <<>>]
DocumentedCarriers == {"int", "float", "str", "Value"}
=============================================================================
