----------------------------- MODULE Bip38Eval -----------------------------
(***************************************************************************)
(* Conformance binding for Bip38.  TLC reads records (what was handed to   *)
(* the implementation, what it answered, and the oracle facts gathered so  *)
(* far) and either asks for the primitive applications the specification   *)
(* needs next (v = "need": the harness applies the reference primitive to  *)
(* the byte strings TLC built and comes back) or gives the verdict: the    *)
(* failing clause, the expected value and - where the answer is exactly    *)
(* what a named deviation of the specification predicts - its name.        *)
(* Python only transports values and applies primitives; every structural  *)
(* decision is taken here.                                                 *)
(***************************************************************************)
EXTENDS Bip38Env, Bip38Hist, Json, IOUtils

Recs == ndJsonDeserialize(IOEnv.IN_FILE)

\* oracle table = the record's list of facts [f, a, o]
FactHas(F, q) == \E i \in 1..Len(F) : F[i].f = q.f /\ F[i].a = q.a
FactVal(F, q) == F[CHOOSE i \in 1..Len(F) : F[i].f = q.f /\ F[i].a = q.a].o

Verdict(v, dev, exp) == [v |-> v, dev |-> dev, exp |-> exp, need |-> <<>>, at |-> 0, devs |-> <<>>]
Good == Verdict("ok", "", <<>>)
Ask(qs) == [v |-> "need", dev |-> "", exp |-> <<>>, need |-> qs, at |-> 0, devs |-> <<>>]

NeedsOf(rs) == Concat([i \in 1..Len(rs) |-> IF rs[i].st = "need" THEN rs[i].need ELSE <<>>])
Skip == Ok(<<>>)                                   \* a candidate explanation that does not apply

\* the passphrase is not in normal form (only asked once the nfc fact is there)
PW(r) == [text |-> ~r.pwbytes, s |-> r.pw]          \* r.pwbytes: the passphrase argument was a bytes object
NonNfc(F, pw) == pw.text /\ Has(F, QNfc(pw.s)) /\ Val(F, QNfc(pw.s)) # pw.s
WitnessRoute(route) == route \in {"HDKey-segwit", "HDKey-p2sh-segwit", "HDKey-default"}

(* ---- encryption without EC multiplication ---- *)
JEnc(r) ==
    LET F    == r.facts
        ver  == AddrVersion[r.net]
        spec == EncryptNonEC(F, r.priv, r.comp, ver, PW(r), TRUE)
        \* deviation: passphrase used as given
        raw  == IF NonNfc(F, PW(r)) THEN EncryptNonEC(F, r.priv, r.comp, ver, PW(r), FALSE) ELSE Skip
        \* deviation: salt (address hash) taken over some other address - everything else as specified
        gotraw == IF r.got.ok /\ IsB58(r.got.tok) THEN B58Dec(r.got.tok) ELSE <<>>
        own  == IF WitnessRoute(r.route) /\ Len(gotraw) = 43 /\ Miss(F, PassQs(PW(r))) = <<>>
                THEN EncryptWithAH(F, r.priv, r.comp, SubSeq(gotraw, 4, 7), PassBytes(F, PW(r), TRUE)) ELSE Skip
        all  == <<spec, raw, own>>
    IN IF NeedsOf(all) # <<>> THEN Ask(NeedsOf(all))
       ELSE IF spec.st = "err" THEN (IF r.got.ok THEN Verdict("encrypt-invalid-key-accepted", "", <<>>) ELSE Good)
       ELSE IF r.got.ok /\ r.got.tok = spec.val THEN Good
       ELSE Verdict(IF r.got.ok THEN "encrypt-token" ELSE "encrypt-refused",
                    IF NonNfc(F, PW(r)) /\ r.got.ok /\ r.got.tok = raw.val THEN "passphrase-not-nfc-normalised"
                    ELSE IF WitnessRoute(r.route) /\ (~r.got.ok \/ (own.val # <<>> /\ r.got.tok = own.val))
                         THEN "hdkey-addresshash-of-witness-address"
                    ELSE "", spec.val)

(* ---- decryption ---- *)
Matches(res, r) ==
    \/ res.st = "err" /\ ~r.got.ok
    \/ /\ res.st = "ok" /\ r.got.ok
       /\ r.got.priv = res.val.priv /\ r.got.comp = res.val.comp
       /\ (r.route = "bip38_decrypt" => r.got.lot = res.val.lot /\ r.got.seq = res.val.seq)

KeyAsSeq(res) == IF res.st = "ok" THEN res.val.priv \o <<IF res.val.comp THEN 1 ELSE 0>> ELSE <<>>

JDec(r) ==
    LET F    == r.facts
        ver  == AddrVersion[r.net]
        spec == Decrypt(F, r.tok, PW(r), ver, TRUE)
        raw  == IF NonNfc(F, PW(r)) THEN Decrypt(F, r.tok, PW(r), ver, FALSE) ELSE Skip
        isEC == IsB58(r.tok) /\ SubSeq(B58Dec(r.tok), 1, 2) = <<1, 67>>
        \* deviation: the address check of an EC-multiplied token is done with the Bitcoin main-net version byte
        btc  == IF isEC /\ ver # 0 THEN Decrypt(F, r.tok, PW(r), 0, TRUE) ELSE Skip
        all  == <<spec, raw, btc>>
    IN IF NeedsOf(all) # <<>> THEN Ask(NeedsOf(all))
       ELSE IF Matches(spec, r) THEN Good
       ELSE Verdict(IF spec.st = "err" THEN "decrypt-must-fail-but-returned-a-key"
                    ELSE IF ~r.got.ok THEN "decrypt-refused-right-passphrase" ELSE "decrypt-wrong-key",
                    IF NonNfc(F, PW(r)) /\ Matches(raw, r) THEN "passphrase-not-nfc-normalised"
                    ELSE IF isEC /\ ver # 0 /\ Matches(btc, r) THEN "ecmult-decrypt-checks-bitcoin-address-only"
                    ELSE IF WitnessRoute(r.route) /\ ~isEC /\ spec.st = "ok" /\ ~r.got.ok
                         THEN "hdkey-addresshash-of-witness-address"
                    ELSE "", KeyAsSeq(spec))

(* ---- the first sentence of the property, needing no oracle: what the implementation encrypted, the implementation   *)
(*      decrypts with the very same passphrase argument to the same key and compression flag                            *)
JRoundTrip(r) ==
    IF r.encok /\ ~(r.got.ok /\ r.got.priv = r.priv /\ r.got.comp = r.comp)
    THEN Verdict("round-trip-same-passphrase", "", r.priv \o <<IF r.comp THEN 1 ELSE 0>>) ELSE Good

(* ---- intermediate code ---- *)
JInter(r) ==
    LET F    == r.facts
        spec == Intermediate(F, PW(r), r.lotseq, r.salt, TRUE)
        raw  == IF NonNfc(F, PW(r)) THEN Intermediate(F, PW(r), r.lotseq, r.salt, FALSE) ELSE Skip
        all  == <<spec, raw>>
    IN IF NeedsOf(all) # <<>> THEN Ask(NeedsOf(all))
       ELSE IF spec.st = "err" THEN (IF r.got.ok THEN Verdict("intermediate-invalid-request-accepted", "", <<>>) ELSE Good)
       ELSE IF r.got.ok /\ r.got.code = spec.val THEN Good
       ELSE Verdict(IF r.got.ok THEN "intermediate-code" ELSE "intermediate-refused",
                    IF ~r.got.ok /\ r.lotseq # <<>> /\ r.lotseq[2] = 0 THEN "intermediate-sequence-zero-refused"
                    ELSE IF NonNfc(F, PW(r)) /\ r.got.ok /\ r.got.code = raw.val THEN "passphrase-not-nfc-normalised"
                    ELSE "", spec.val)

(* ---- new EC-multiplied key ---- *)
JNew(r) ==
    LET F    == r.facts
        spec == CreateNew(F, r.inter, r.comp, r.seed, AddrVersion[r.net])
    IN IF spec.st = "need" THEN Ask(spec.need)
       ELSE IF spec.st = "err" THEN (IF r.got.ok THEN Verdict("new-invalid-request-accepted", "", <<>>) ELSE Good)
       ELSE IF ~r.got.ok THEN Verdict("new-refused", "", spec.val.tok)
       ELSE IF r.got.tok # spec.val.tok THEN Verdict("new-token", "", spec.val.tok)
       ELSE IF r.got.conf # spec.val.conf THEN Verdict("new-confirmation-code", "", spec.val.conf)
       ELSE IF r.got.pub # spec.val.pub THEN Verdict("new-public-key", "", spec.val.pub)
       ELSE IF r.got.addr # spec.val.addr THEN Verdict("new-address", "", spec.val.addr)
       ELSE Good

(* ---- a published test vector of the BIP (self-validation of this specification, no implementation involved):    *)
(*      token, passphrase, key, compression, lot/sequence, intermediate code and confirmation code where published.   *)
(*      The generator's entropy is recovered by decryption and the token is then rebuilt from it.                      *)
JVector(r) ==
    LET F == r.facts
        d == Decrypt(F, r.tok, PW(r), 0, TRUE)
    IN IF d.st = "need" THEN Ask(d.need)
       ELSE IF ~(d.st = "ok" /\ d.val.priv = r.priv /\ d.val.comp = r.comp /\ d.val.lot = r.lot /\ d.val.seq = r.seq)
            THEN Verdict("vector-decrypt", "", KeyAsSeq(d))
       ELSE IF ~d.val.ec THEN
            LET e == EncryptNonEC(F, r.priv, r.comp, 0, PW(r), TRUE) IN
            IF e.st = "need" THEN Ask(e.need)
            ELSE IF e.st = "ok" /\ e.val = r.tok THEN Good ELSE Verdict("vector-encrypt", "", e.val)
       ELSE LET hasLot == r.lot # 0
                it == Intermediate(F, PW(r), IF hasLot THEN <<r.lot, r.seq>> ELSE <<>>,
                                   IF hasLot THEN SubSeq(d.val.oe, 1, 4) ELSE d.val.oe, TRUE)
            IN IF it.st = "need" THEN Ask(it.need)
               ELSE IF ~(it.st = "ok" /\ (r.pcode = <<>> \/ it.val = r.pcode)) THEN Verdict("vector-intermediate", "", it.val)
               ELSE LET nw == CreateNew(F, it.val, r.comp, d.val.seed, 0) IN
                    IF nw.st = "need" THEN Ask(nw.need)
                    ELSE IF nw.st # "ok" \/ nw.val.tok # r.tok THEN Verdict("vector-new-token", "", IF nw.st = "ok" THEN nw.val.tok ELSE <<>>)
                    ELSE IF r.conf # <<>> /\ nw.val.conf # r.conf THEN Verdict("vector-confirmation-code", "", nw.val.conf)
                    ELSE Good

(* ---- generation requests of one process, validated against the entropy ledger ---- *)
\* what a request drew: for intermediate codes the owner salt is read out of the returned code
Drawn(e) ==
    IF e.code = <<>> THEN e.out
    ELSE IF ~IsB58(e.code) \/ Len(B58Dec(e.code)) # 53 THEN <<>>
    ELSE LET raw == B58Dec(e.code) IN
         IF SubSeq(raw, 1, 8) = MagicLot THEN SubSeq(raw, 9, 12) ELSE SubSeq(raw, 9, 16)
Event(e) == LET hasLot == e.code # <<>> /\ IsB58(e.code) /\ SubSeq(B58Dec(e.code), 1, 8) = MagicLot IN
            [op |-> e.op, explicit |-> e.explicit, out |-> Drawn(e),
             arg |-> IF hasLot THEN Take(e.arg, 4) ELSE e.arg]

RECURSIVE Run(_, _, _, _)
Run(S, evs, i, devs) ==
    IF i > Len(evs) THEN [v |-> "ok", dev |-> "", exp |-> <<>>, need |-> <<>>, at |-> 0, devs |-> devs]
    ELSE LET e == Event(evs[i])
             N == UNION {GenSucc(s, e) : s \in S}
         IN IF N # {} THEN Run(N, evs, i + 1, devs)
            ELSE LET D == UNION {GenSuccDevDrawnOnce(s, e) : s \in S}
                 IN IF D # {} THEN Run(D, evs, i + 1, IF \E k \in 1..Len(devs) : devs[k] = "generator-entropy-drawn-once-per-process"
                                                     THEN devs ELSE Append(devs, "generator-entropy-drawn-once-per-process"))
                    ELSE [v |-> IF e.explicit THEN "explicit-entropy-not-honoured" ELSE "entropy-reused",
                          dev |-> "", exp |-> <<>>, need |-> <<>>, at |-> i, devs |-> devs]

(* ---- the environment of generation requests (Bip38Env) ---- *)
\* (G) the behaviours to replay, each with the model's answer whether a generator drawing from the ambient state is exposed
\* kind of the first request on which the ambient-drawing generator is caught ("" if never)
ExposedKind(b) == LET evs == EnvEvents(EnvInit, b, 1, "ambient")
                      k   == FirstBlame(EnvJudge(evs))
                  IN IF k = 0 THEN "" ELSE evs[k].op
JEnvGen(r) == [v |-> "ok", dev |-> "", exp |-> <<>>, need |-> <<>>, at |-> 0, devs |-> <<>>,
               behs |-> {[b |-> b, exposes |-> Exposes(b), kind |-> ExposedKind(b)] : b \in Behaviours(r.L)}]
\* (V) one replayed behaviour: the recorded requests judged by the ledgers of entropy and of outputs
JEnv(r) ==
    LET evs == [i \in 1..Len(r.events) |-> [op |-> r.events[i].op, explicit |-> r.events[i].explicit, arg |-> Event(r.events[i]).arg,
                                            out |-> Drawn(r.events[i]), outs |-> r.events[i].outs]]
        fs  == EnvJudge(evs)
        k   == FirstBlame(fs)
    IN IF k = 0 THEN Good ELSE [v |-> fs[k], dev |-> "", exp |-> <<>>, need |-> <<>>, at |-> k, devs |-> <<>>]

(* ---- histories of calls within one process (Bip38Hist) ---- *)
\* (G) the histories to replay: every history of two calls, and the longer ones that expose some implementation with memory,
\* each with the set of such implementations it exposes.  (V) is done call by call with the record kinds above: the answer
\* to every call of a replayed history must be the function of its own arguments.
JHistGen(r) == [v |-> "ok", dev |-> "", exp |-> <<>>, need |-> <<>>, at |-> 0, devs |-> <<>>,
                hists |-> {[h |-> h, exposed |-> HExposed(h)] :
                              h \in {x \in UNION {Histories(n) : n \in 2..r.L} : Len(x) = 2 \/ HExposed(x) # {}}}]

Judge(r) ==
    CASE r.k = "enc"   -> JEnc(r)
      [] r.k = "dec"   -> JDec(r)
      [] r.k = "inter" -> JInter(r)
      [] r.k = "new"   -> JNew(r)
      [] r.k = "rt"    -> JRoundTrip(r)
      [] r.k = "envgen" -> JEnvGen(r)
      [] r.k = "histgen" -> JHistGen(r)
      [] r.k = "env"   -> JEnv(r)
      [] r.k = "trace" -> Run({LedgerInit}, r.events, 1, <<>>)
      [] r.k = "vector" -> JVector(r)
      [] OTHER -> Verdict("unknown-record-kind", "", <<>>)

Out == [i \in 1..Len(Recs) |-> Judge(Recs[i])]
ASSUME ndJsonSerialize(IOEnv.OUT_FILE, Out)
=============================================================================
