SPECIFICATION TraceSpec
CONSTANTS
  Providers = {"p1", "p2", "p3", "p4"}
  MaxProvidersRange = {1, 2, 3}
  MaxErrorsRange = {1, 2, 3, 4}
INVARIANT Accepted
CHECK_DEADLOCK FALSE
