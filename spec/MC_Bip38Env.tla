---------------------------- MODULE MC_Bip38Env ----------------------------
(***************************************************************************)
(* Bounded model of Bip38Env: every interleaving of the environment's      *)
(* actions (Seed, SaveState, RestoreState, fork) with generation requests, *)
(* for the specification's generator (OS entropy) and for a generator that *)
(* draws owner salt / seed / key from the ambient pseudo-random generator. *)
(***************************************************************************)
EXTENDS Bip38Env
CONSTANTS MaxSteps
VARIABLES gen, st, led, seen, hist, blamed, steps
vars == <<gen, st, led, seen, hist, blamed, steps>>

\* the primitives of Bip38 are not used by the environment model
NoHas(F, q) == FALSE
NoVal(F, q) == <<>>

Init == /\ gen \in {"spec", "ambient"}
        /\ st = EnvInit /\ led = LedgerInit /\ seen = {} /\ hist = <<>> /\ blamed = FALSE /\ steps = 0

Step(a) ==
    /\ steps < MaxSteps
    /\ (a = "restore") => st.saved # <<>>
    /\ \E x \in {EnvStep(st, a, gen)} :
         /\ st' = x.st
         /\ steps' = steps + 1
         /\ IF x.ev = <<>> THEN UNCHANGED <<led, seen, hist, blamed>>
            ELSE \E ev \in {x.ev[1]} :
                   /\ hist' = Append(hist, ev)
                   /\ led' = (IF GenSucc(led, ev) = {} THEN led ELSE CHOOSE n \in GenSucc(led, ev) : TRUE)
                   /\ seen' = (IF ev.explicit THEN seen ELSE seen \cup OutKeys(ev))
                   /\ blamed' = (blamed \/ EnvFail(led, seen, ev) # "")
    /\ UNCHANGED gen
EnvAction == \E a \in {"seed1", "seed2", "save", "restore"} : Step(a)
Request == \E a \in {"inter", "interlot", "new", "newx", "key", "hdkey"} : Step(a)
ForkRequest == Step("forknew")
Next == EnvAction \/ Request \/ ForkRequest
Spec == Init /\ [][Next]_vars

\* the specification's generator is never blamed, whatever the environment does between the requests
SpecGeneratorNeverBlamed == gen = "spec" => ~blamed
\* the judge blames exactly the histories in which two drawing requests of one kind share their entropy
HistFresh(h) == \A i, j \in 1..Len(h) : (i < j /\ ~h[i].explicit /\ ~h[j].explicit /\ h[i].op = h[j].op) => h[i].out # h[j].out
JudgeExact == blamed <=> ~HistFresh(hist)
\* the incremental judge of the model and the judge of recorded behaviours agree
SameJudge == blamed = Blamed(EnvJudge(hist))
\* supplied entropy may repeat and is never blamed
ExplicitNeverBlamed == \A i \in 1..Len(hist) : hist[i].explicit => EnvJudge(hist)[i] = ""

\* each way of repeating the ambient state exposes the ambient generator within the replayed behaviours, none blames the
\* specification's generator, and behaviours that leave the ambient state alone expose nothing
Exposing == { <<"seed1", "new", "seed1", "new">>, <<"save", "new", "restore", "new">>, <<"forknew", "new">>,
              <<"seed2", "forknew", "forknew">>, <<"seed1", "inter", "seed1", "inter">>,
              <<"save", "interlot", "restore", "interlot">>, <<"seed2", "key", "seed2", "key">>,
              <<"seed1", "new", "newx", "seed1", "forknew">> }
Quiet == { <<"new", "new">>, <<"seed1", "new", "new">>, <<"seed1", "inter", "seed2", "inter">>, <<"seed1", "inter", "seed1", "new", "new">>,
           <<"newx", "newx", "new", "new">> }
ASSUME \A b \in Exposing : Exposes(b) /\ ~Blamed(EnvJudge(EnvEvents(EnvInit, b, 1, "spec"))) /\ b \in Behaviours(Len(b))
ASSUME \A b \in Quiet : ~Exposes(b) /\ ~Blamed(EnvJudge(EnvEvents(EnvInit, b, 1, "spec"))) /\ b \in Behaviours(Len(b))
ASSUME \A b \in Behaviours(3) : ~Blamed(EnvJudge(EnvEvents(EnvInit, b, 1, "spec")))
=============================================================================
