SPECIFICATION Spec
CONSTANTS
  HashBytes = {0, 15, 16, 55, 85, 128, 170, 255}
  BitPositions = {1, 2, 4, 8, 16, 32, 64, 128}
  SubstituteEverything = FALSE
INVARIANT Shape
INVARIANT LeadingZeros
INVARIANT RoundTrip
INVARIANT AcceptedIsImage
INVARIANT Mutated
CHECK_DEADLOCK FALSE
