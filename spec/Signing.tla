------------------------------- MODULE Signing -------------------------------
(***************************************************************************)
(* Signing and verification of transaction inputs as a state machine       *)
(* (C02).  Abstract state per input j (configuration cfg[j] = [n, m,       *)
(* segwit]: n listed keys, threshold m, witness input or not):             *)
(*   valid[j] : set of key positions 1..n that have a signature in the     *)
(*              transaction which is intact and made over the input's      *)
(*              *current* digest                                           *)
(*   junk[j]  : number of other signatures present (corrupted, by a key    *)
(*              outside the list, duplicates, or stale: made before a      *)
(*              committed field changed)                                   *)
(* Actions: what a user or an adversary can do to a transaction object.    *)
(* Verification verdict (what Transaction.verify() may answer):            *)
(*   MustFail : some input has fewer than m distinct valid signatures      *)
(*              (soundness: "only if every input carries at least m        *)
(*              signatures, each valid for a distinct listed key")         *)
(*   MustPass : every input has >= m and nothing else was put in           *)
(*              (completeness: "signed with the correct keys verifies")    *)
(*   otherwise either answer is allowed.                                   *)
(* Which fields a signature commits to is taken from SigHash (C01): all    *)
(* of them except, for non-witness inputs, the input amount.               *)
(***************************************************************************)
EXTENDS Naturals, Sequences, FiniteSets

TamperFields == {"out.value", "out.script", "outpoint", "sequence", "locktime", "version", "amount"}
\* does a signature of input j commit to field f (f concerns input k where applicable)?
Commits(cfg, j, f, k) == IF f = "amount" THEN (j = k /\ cfg[j].segwit) ELSE TRUE

InitS(cfg) == [valid |-> [j \in 1..Len(cfg) |-> {}], junk |-> [j \in 1..Len(cfg) |-> 0]]

\* a = [op, j, keys (sequence of key positions; 0 = a key outside the list), f, pos]
Act(cfg, s, a) ==
  CASE a.op = "sign" ->          \* sign(keys, index_n=j): listed keys that have not signed yet get a valid signature
         [s EXCEPT !.valid[a.j] = @ \cup {a.keys[i] : i \in {x \in 1..Len(a.keys) : a.keys[x] # 0}}]
    [] a.op = "tamper" ->        \* a field changes after signing: signatures committing to it become stale
         [valid |-> [j \in 1..Len(cfg) |-> IF Commits(cfg, j, a.f, a.j) THEN {} ELSE s.valid[j]],
          junk  |-> [j \in 1..Len(cfg) |-> IF Commits(cfg, j, a.f, a.j) THEN s.junk[j] + Cardinality(s.valid[j]) ELSE s.junk[j]]]
    [] a.op = "corrupt" ->       \* one bit of the signature of key position a.pos is flipped
         IF a.pos \in s.valid[a.j] THEN [s EXCEPT !.valid[a.j] = @ \ {a.pos}, !.junk[a.j] = @ + 1] ELSE s
    [] a.op = "drop" ->          \* the signature of key position a.pos is removed
         [s EXCEPT !.valid[a.j] = @ \ {a.pos}]
    [] a.op = "foreign" ->       \* a correct signature by a key outside the input's key list is added
         [s EXCEPT !.junk[a.j] = @ + 1]
    [] a.op = "duplicate" ->     \* an existing valid signature is added once more
         IF s.valid[a.j] # {} THEN [s EXCEPT !.junk[a.j] = @ + 1] ELSE s
    [] OTHER -> s                \* "roundtrip" (serialize + parse), "verify": no change of what is signed

MustFail(cfg, s) == \E j \in 1..Len(cfg) : Cardinality(s.valid[j]) < cfg[j].m
MustPass(cfg, s) == \A j \in 1..Len(cfg) : Cardinality(s.valid[j]) >= cfg[j].m /\ s.junk[j] = 0
\* named deviation (known finding, see C10): raw() omits the signatures of a multisig input that has fewer than m of them,
\* so a round trip loses partial signatures
RoundTripDev(cfg, s) == [s EXCEPT !.valid = [j \in 1..Len(cfg) |->
                            IF cfg[j].n > 1 /\ Cardinality(s.valid[j]) + s.junk[j] < cfg[j].m THEN {} ELSE s.valid[j]],
                                   !.junk = [j \in 1..Len(cfg) |->
                            IF cfg[j].n > 1 /\ Cardinality(s.valid[j]) + s.junk[j] < cfg[j].m THEN 0 ELSE s.junk[j]]]

\* Serialization keeps exactly m signatures of a multisig input (a CHECKMULTISIG spend carries m signatures); which ones,
\* when more were collected, is the serializer's choice: every possibility is a candidate state after a round trip.
Card(S) == Cardinality(S)
RoundTripSet(cfg, s) ==
    { [valid |-> v, junk |-> [j \in 1..Len(cfg) |-> IF Card(s.valid[j]) + s.junk[j] <= cfg[j].m THEN s.junk[j]
                                                     ELSE cfg[j].m - Card(v[j])]] :
      v \in { w \in [1..Len(cfg) -> SUBSET (1..3)] :
                \A j \in 1..Len(cfg) :
                   IF Card(s.valid[j]) + s.junk[j] <= cfg[j].m THEN w[j] = s.valid[j]
                   ELSE /\ w[j] \subseteq s.valid[j] /\ Card(w[j]) <= cfg[j].m
                        /\ Card(w[j]) + s.junk[j] >= cfg[j].m } }
=============================================================================
