-------------------------------- MODULE Leak --------------------------------
(***************************************************************************)
(* C16 - public views and default exports never contain private key        *)
(* material.                                                               *)
(*                                                                         *)
(* Private key material of a key k is any ENCODING of its scalar:          *)
(*   raw (32 bytes), hex, int (the number), wif (Base58Check WIF, any      *)
(*   version byte, compressed or not), xprv (extended private key, any     *)
(*   version bytes).  Anything else that decodes to the scalar is "b58".   *)
(*                                                                         *)
(* A SUBJECT is an object a user holds: a key, an extended key, a          *)
(* signature, a transaction.  Its state says which encodings of the        *)
(* private key the object graph holds and why:                             *)
(*   scalar : held in the slots that make a private key a private key      *)
(*   cache  : held in slots filled as a side effect of earlier calls       *)
(*   sig    : held by signature objects made with the key                  *)
(*   given  : held because the caller handed a private key object in       *)
(*   private: the subject is a private object (the holder expects it to    *)
(*            contain the key); everything else is a PUBLIC object.        *)
(*                                                                         *)
(* A call has an effect on the subject (possibly a new subject: the        *)
(* public copy, a child, a signature, a transaction) and an output.  The   *)
(* output is a PRIVATE VIEW only if the subject is private and the call    *)
(* is one of the explicitly private calls; every other output is a PUBLIC  *)
(* VIEW.  Property (NoLeak): a public view and the object graph / pickle / *)
(* copy of a public object contain no encoding of any private key in play, *)
(* after every history of earlier calls.                                   *)
(*                                                                         *)
(* Named deviations (what the implementation does instead); D is the set   *)
(* of deviations in force, D = {} is the property:                         *)
(*  public-keeps-wif-cache        public() clears the scalar slots only;   *)
(*        the WIF cached by an earlier wif() / wif_key() / info() / (Key)  *)
(*        as_dict(include_private) survives in the public copy             *)
(*  signature-keeps-secret        a signature made by signing stores the   *)
(*        signer's scalar as a number                                      *)
(*  tx-save-pickles-private-keys  save() of a transaction writes a pickle  *)
(*        of the object including the private key objects of its inputs    *)
(*  sign-stores-private-key-in-input  sign(key) on an input that was built *)
(*        without keys stores the private key object in the input          *)
(*  bare-public-path-returns-receiver  subkey_for_path('M') (the public    *)
(*        root without further levels) returns the private receiver itself *)
(*  walletkey-repr-prints-private-wif  repr() of a wallet key / key row of *)
(*        a private key prints the private extended key                    *)
(***************************************************************************)
EXTENDS Naturals, Sequences, FiniteSets

Enc == {"raw", "hex", "int", "wif", "xprv"}
ScalarEnc == {"raw", "hex", "int"}
AllDeviations == {"public-keeps-wif-cache", "signature-keeps-secret", "tx-save-pickles-private-keys",
                  "sign-stores-private-key-in-input", "bare-public-path-returns-receiver",
                  "walletkey-repr-prints-private-wif"}

KeyKinds == {"key", "hdkey"}
Kinds == KeyKinds \cup {"sig", "tx"}

NewKey(kind) == [kind |-> kind, private |-> TRUE, scalar |-> ScalarEnc, cache |-> {}, sig |-> {}, given |-> {}]
Clean(kind)  == [kind |-> kind, private |-> FALSE, scalar |-> {}, cache |-> {}, sig |-> {}, given |-> {}]
Held(s) == s.scalar \cup s.cache \cup s.sig \cup s.given

\* ----- calls ---------------------------------------------------------------------------------------------------------
\* ("repr" stands for every default form: repr, str, bytes, hex, address data and the Address object; "copy" for a deep
\* copy, a shallow copy or a pickle round trip, after which the copy is the subject)
\* "reflect": EVERY attribute of the subject and every method of it that can be called without arguments, found by
\* reflection (so that an accessor added later is covered); on a private object that is a private view
KeyCalls == {"wif", "as_dict", "as_dict_priv", "repr", "info", "encrypt", "sign", "public", "copy",
             "mktx_pub", "mktx_addr", "mktx_priv", "reflect"}
\* public_path: subkey_for_path with the public root 'M' followed by levels of any shape (non-hardened, ending or
\* starting with hardened levels, every marker spelling, string or list); public_root: the bare path 'M'
HDOnlyCalls == {"wif_public", "wif_private", "child_priv", "child_pub", "public_master", "public_master_priv",
                "public_path", "public_root"}
\* calls documented to return a PUBLIC object (or to refuse): whatever the receiver, nothing private comes back
PublicObjectCalls == {"public", "child_pub", "public_master", "public_path", "public_root"}
SigCalls == {"repr", "as_der", "copy", "reflect"}
TxCalls == {"as_dict", "repr", "info", "raw", "copy", "save", "load", "reparse", "reflect"}
NeedPrivate == {"sign", "mktx_pub", "mktx_addr", "mktx_priv"}            \* cannot be performed with a public key
CallsOf(s) == CASE s.kind = "key" -> IF s.private THEN KeyCalls ELSE KeyCalls \ NeedPrivate
                [] s.kind = "hdkey" -> IF s.private THEN KeyCalls \cup HDOnlyCalls ELSE (KeyCalls \cup HDOnlyCalls) \ NeedPrivate
                [] s.kind = "sig" -> SigCalls
                [] OTHER -> TxCalls

\* explicitly private views: the caller asks for the private key
PrivateCalls == {"wif", "as_dict_priv", "info", "wif_private", "reflect"}
ViewOf(s, c) == IF s.private /\ ((s.kind \in KeyKinds /\ c \in PrivateCalls) \/ c = "reflect") THEN "private" ELSE "public"

\* ----- optional arguments of the export calls -------------------------------------------------------------------------
\* Every export call is made with every combination of its optional arguments; none of them turns a public view into a
\* private one (the only way to ask for the private key is the call itself: wif_private / wif(is_private=True) / ...).
\*   prefix: version bytes given explicitly, as bytes or as hex string (of any key type, witness type, network)
\*   witness_type / multisig: serialization variant;  account: account number of the public master
\*   form: the generic method with flags ("flags", e.g. wif(is_private=False, ...)) or the named wrapper ("named")
WitnessTypes == {"legacy", "segwit", "p2sh-segwit"}
NoArgs == [prefix |-> "none", witness_type |-> "none", multisig |-> "none", account |-> "none", form |-> "named"]
ArgSpace(c) ==
  CASE c \in {"wif_public", "wif_private"} ->
         [prefix : {"none", "bytes", "hex"}, witness_type : {"none"} \cup WitnessTypes, multisig : {"none", "true", "false"},
          account : {"none"}, form : {"flags", "named"}]
    [] c = "wif" -> [prefix : {"none", "bytes", "hex"}, witness_type : {"none"}, multisig : {"none"}, account : {"none"}, form : {"named"}]
    [] c \in {"public_master", "public_master_priv"} ->
         [prefix : {"none"}, witness_type : {"none"} \cup WitnessTypes, multisig : {"none", "true", "false"},
          account : {"none", "0", "3"}, form : {"flags", "named"}]
    [] OTHER -> {NoArgs}
CallsWithArgs == {"wif", "wif_public", "wif_private", "public_master", "public_master_priv"}

\* calls during which the implementation caches the WIF in the key object (a private object may cache what it likes)
CachingCalls(kind) == IF kind = "key" THEN {"wif", "as_dict_priv", "info"} ELSE {"wif", "info"}

Public(D, s) == [s EXCEPT !.private = FALSE, !.scalar = {},
                          !.cache = IF "public-keeps-wif-cache" \in D THEN s.cache ELSE {}]
SigSecret(D) == IF "signature-keeps-secret" \in D THEN {"int"} ELSE {}
\* what a pickle of the subject carries / what save() writes
SaveOut(D, s) == s.scalar \cup s.cache \cup s.sig \cup (IF "tx-save-pickles-private-keys" \in D THEN s.given ELSE {})

\* Act(D, s, c) = [st |-> subject after the call, view |-> "public" | "private", out |-> private material in the output
\*                 of a public view].  A call that cannot be performed (refused) leaves the subject as it is.
Act(D, s, c) ==
  LET same == [st |-> s, view |-> ViewOf(s, c), out |-> {}] IN
  CASE s.kind \in KeyKinds /\ c \in {"wif", "as_dict_priv", "info"} ->
         [same EXCEPT !.st = IF s.private /\ c \in CachingCalls(s.kind) THEN [s EXCEPT !.cache = @ \cup {"wif"}] ELSE s]
    [] s.kind \in KeyKinds /\ c = "public" -> [same EXCEPT !.st = Public(D, s)]
    [] s.kind = "hdkey" /\ c \in {"child_pub", "public_master", "public_path"} -> [same EXCEPT !.st = Clean("hdkey")]   \* a new object
    [] s.kind = "hdkey" /\ c = "public_root" ->
         [same EXCEPT !.st = IF "bare-public-path-returns-receiver" \in D THEN s ELSE Public(D, s)]
    [] s.kind = "hdkey" /\ c \in {"child_priv", "public_master_priv"} ->
         \* from a public key: refused, or (non-hardened path) the public child - never a private object
         [same EXCEPT !.st = IF s.private THEN NewKey("hdkey") ELSE Clean("hdkey")]
    [] s.kind \in KeyKinds /\ c = "sign" /\ s.private ->
         \* the signature object refers to the public copy of the signing key
         [same EXCEPT !.st = [Clean("sig") EXCEPT !.sig = SigSecret(D), !.cache = Public(D, s).cache]]
    [] s.kind \in KeyKinds /\ c = "mktx_pub" /\ s.private ->
         \* inputs built from the public copy of the key, signed with the private key passed to sign()
         [same EXCEPT !.st = [Clean("tx") EXCEPT !.sig = SigSecret(D), !.cache = Public(D, s).cache]]
    [] s.kind \in KeyKinds /\ c = "mktx_addr" /\ s.private ->
         \* inputs built from the address only (no key objects), signed with the private key passed to sign(): still a
         \* public object - the caller gave the key to sign(), not to the transaction
         [same EXCEPT !.st = [Clean("tx") EXCEPT !.sig = SigSecret(D), !.cache = Public(D, s).cache,
                                                  !.given = IF "sign-stores-private-key-in-input" \in D
                                                            THEN s.scalar \cup s.cache ELSE {}]]
    [] s.kind \in KeyKinds /\ c = "mktx_priv" /\ s.private ->
         \* the caller hands the private key object to the input: the transaction object is a private object, its
         \* default forms and its save() file are public views all the same
         [same EXCEPT !.st = [Clean("tx") EXCEPT !.private = TRUE, !.sig = SigSecret(D), !.cache = Public(D, s).cache,
                                                  !.given = s.scalar \cup s.cache]]
    [] c = "reflect" -> [same EXCEPT !.out = Held(s),          \* reflection shows whatever the object holds
                                     !.st = IF s.private /\ s.kind \in KeyKinds THEN [s EXCEPT !.cache = @ \cup {"wif"}] ELSE s]
    [] s.kind = "tx" /\ c = "save" -> [same EXCEPT !.out = SaveOut(D, s)]
    [] s.kind = "tx" /\ c = "load" ->
         [same EXCEPT !.st = [s EXCEPT !.private = FALSE,
                                       !.given = IF "tx-save-pickles-private-keys" \in D THEN s.given ELSE {}]]
    [] s.kind = "tx" /\ c = "reparse" -> [same EXCEPT !.st = Clean("tx")]           \* parsed from the serialization
    [] OTHER -> same                                                                  \* no effect on what is held

\* ----- wallets -------------------------------------------------------------------------------------------------------
\* (The wallet may have been created by any route: from a master key, an extended key string, a passphrase, a private
\* ACCOUNT key at the depth of the public master, a key path without hardened levels, a single key in any format, any
\* mix of private and public co-signer keys.  What it hands out as public - public_master() of every account and
\* witness type, wif(is_private=False), as_dict / as_json, keys(as_dict), repr / str of everything returned, and a
\* watch-only wallet built from those exports - is a public view on every route, on the handle the history left and
\* on a freshly opened one.)
\* A wallet call yields ITEMS (one per key / transaction / exported object it shows); item facts: priv = the key(s) the
\* item is about are private keys of this wallet, signed = the transaction was signed by this wallet.  A watch-only
\* wallet (created from the public export) has nothing private: every call on it is a public view.
WPrivateCalls == {"wif_priv", "as_dict_priv", "keys_priv", "mainkey_key"}
WView(watch, c) == IF ~watch /\ c \in WPrivateCalls THEN "private" ELSE "public"
\* own-key material expected in an item of a public view
WOut(D, c, item) ==
  CASE c = "wk_repr" -> IF item.priv /\ "walletkey-repr-prints-private-wif" \in D THEN {"xprv"} ELSE {}
    [] c = "tx_save" -> (IF item.priv /\ "tx-save-pickles-private-keys" \in D THEN ScalarEnc ELSE {})
                        \cup (IF item.signed THEN SigSecret(D) ELSE {})
    [] OTHER -> {}

\* ----- encrypted database --------------------------------------------------------------------------------------------
\* with field encryption switched on (mode "key" or "password") the database files hold no plaintext encoding
DbOut(mode) == IF mode \in {"key", "password"} THEN {} ELSE Enc
=============================================================================
