----------------------------- MODULE CosignEval -----------------------------
(***************************************************************************)
(* Binding of Cosign.tla to observations of real cosigner wallets.         *)
(*                                                                         *)
(* Records (ndjson):                                                       *)
(*  kind "agree":    one key request (path) of one cosigner group          *)
(*     m, wt, net, sorted, listing, pubs (the n public keys at that path   *)
(*     in cosigner order: oracle facts from an independent BIP32           *)
(*     derivation), obs: what each wallet (created from some listing order *)
(*     and private holder) reports: address, child keys, path.             *)
(*  kind "ceremony": one signing ceremony on real wallets                  *)
(*     m, wt, net, sorted, listing, pubs, holder, funds (the outputs of    *)
(*     the common address: outpoint and amount), events (action +          *)
(*     what the wallet's transaction object reported after it), txs (the   *)
(*     distinct raw serializations seen).                                  *)
(* Primitives stay outside TLC: a record carries `facts`, a list of        *)
(* [f, x, y] = "primitive f applied to the byte strings x gives y"         *)
(* (sha256, sha256d, hash160, ecdsa).  TLC builds every byte string itself *)
(* and looks the value up; what is missing is returned as terms in `need`  *)
(* (the harness evaluates them with harness/ref.py and asks again).        *)
(*                                                                         *)
(* The concrete redeem script is the abstract one of Cosign.tla with       *)
(* rank = lexicographic order of the public keys (BIP67):                  *)
(*     OP_m <keys in rank order> OP_n OP_CHECKMULTISIG   (SigHash!MultisigScript)*)
(* the address is the P2SH / P2SH-P2WSH / P2WSH address of it (AddrScript).*)
(* A transaction is valid when its single kind of input satisfies the      *)
(* consensus rules for that output: BIP16/BIP141 script hashes match, the  *)
(* stack is dummy + exactly m signatures, CHECKMULTISIG pairs signatures   *)
(* with keys in script order over the SIGHASH_ALL digest of SigHash.tla.   *)
(***************************************************************************)
EXTENDS Cosign, SigHash, AddrScript, Json, IOUtils, TLC

Recs == ndJsonDeserialize(IOEnv.IN_FILE)

\* ------------------------------------------------------------------ oracle facts and terms
Lookup(facts, f, x) ==
    LET I == {i \in 1..Len(facts) : facts[i].f = f /\ facts[i].x = x} IN
    IF I = {} THEN [ok |-> FALSE, b |-> <<>>] ELSE [ok |-> TRUE, b |-> facts[CHOOSE i \in I : TRUE].y]
HN(f, args) == [t |-> "h", f |-> f, b |-> <<>>, s |-> args]          \* primitive with several arguments
RECURSIVE EvalT(_, _)
EvalT(t, facts) ==
    IF t.t = "b" THEN [ok |-> TRUE, b |-> t.b]
    ELSE LET parts == [i \in 1..Len(t.s) |-> EvalT(t.s[i], facts)] IN
         IF \E i \in 1..Len(parts) : ~parts[i].ok THEN [ok |-> FALSE, b |-> <<>>]
         ELSE IF t.t = "cat" THEN [ok |-> TRUE, b |-> Concat([i \in 1..Len(parts) |-> parts[i].b])]
         ELSE Lookup(facts, t.f, [i \in 1..Len(parts) |-> parts[i].b])
Missing(terms, facts) == SelectSeq(terms, LAMBDA t : ~EvalT(t, facts).ok)

\* ------------------------------------------------------------------ script and address of a cosigner group
RECURSIVE LexLess(_, _)
LexLess(a, b) == IF b = <<>> THEN FALSE ELSE IF a = <<>> THEN TRUE
                 ELSE IF a[1] # b[1] THEN a[1] < b[1] ELSE LexLess(Tail(a), Tail(b))
\* BIP67 rank of the keys (distinct keys)
RankOf(pubs) == [k \in 1..Len(pubs) |-> Cardinality({j \in 1..Len(pubs) : LexLess(pubs[j], pubs[k])}) + 1]
Cfg(r) == [n |-> Len(r.pubs), m |-> r.m, holder |-> IF "holder" \in DOMAIN r THEN r.holder ELSE <<>>,
           afs |-> IF "afs" \in DOMAIN r THEN r.afs ELSE <<>>, height |-> IF "height" \in DOMAIN r THEN r.height ELSE <<>>,
           knows |-> IF "knows" \in DOMAIN r THEN r.knows ELSE <<>>]
\* keys in script order: BIP67 order (wallets created with sort_keys) or, for wallets created with sort_keys=False,
\* the order in which all of them were given the keys (r.listing)
\* (one key set per address of the group: the child keys at that address's path)
ScriptKeysOf(r, pubs) ==
                 IF r.sorted THEN LET sc == TheScript(Cfg(r), RankOf(pubs)) IN [i \in 1..Len(sc.keys) |-> pubs[sc.keys[i]]]
                 ELSE [i \in 1..Len(r.listing) |-> pubs[r.listing[i]]]
ScriptKeys(r) == ScriptKeysOf(r, r.pubs)
ScriptBytes(r) == MultisigScript(r.m, ScriptKeys(r))
\* the funded output an input spends (r.funds: [txid, vout, amount] in wire byte order), 0 if there is none
FundOf(r, in) == LET I == {k \in 1..Len(r.funds) : r.funds[k].txid = in.txid /\ r.funds[k].vout = in.vout} IN
                 IF I = {} THEN 0 ELSE CHOOSE k \in I : TRUE
\* ceremony records: r.groups = the key sets of the addresses the spend may draw on, r.funds[k].g = the address of output k
KeysOfFund(r, k) == ScriptKeysOf(r, r.groups[r.funds[k].g])
ScriptOfFund(r, k) == MultisigScript(r.m, KeysOfFund(r, k))
Kind(wt) == IF wt = "legacy" THEN "p2sh-multisig" ELSE IF wt = "segwit" THEN "p2wsh-multisig" ELSE "p2sh-p2wsh-multisig"
WitnessProgram(rs) == Cat(<<B(<<0, 32>>), H("sha256", B(rs))>>)           \* OP_0 <sha256(witness script)>
\* payload term of the destination and the destination built from its value
PayloadTerm(wt, rs) == IF wt = "legacy" THEN H("hash160", B(rs))
                       ELSE IF wt = "segwit" THEN H("sha256", B(rs))
                       ELSE H("hash160", WitnessProgram(rs))
DestOf(wt, payload) == IF wt = "segwit" THEN Wit(0, payload) ELSE SH(payload)
ChkTerm(net, wt, rs) == H("sha256d", Cat(<<B(<<NetOf(net).sh>>), PayloadTerm(wt, rs)>>))
AddrTerms(net, wt, rs) == IF wt = "segwit" THEN <<PayloadTerm(wt, rs)>> ELSE <<PayloadTerm(wt, rs), ChkTerm(net, wt, rs)>>
ExpAddr(net, wt, rs, facts) ==
    LET p == EvalT(PayloadTerm(wt, rs), facts)
        c == IF wt = "segwit" THEN [ok |-> TRUE, b |-> <<0, 0, 0, 0>>] ELSE EvalT(ChkTerm(net, wt, rs), facts) IN
    IF ~p.ok \/ ~c.ok THEN [ok |-> FALSE, a |-> <<>>]
    ELSE [ok |-> TRUE, a |-> AddrOf(net, DestOf(wt, p.b), SubSeq(c.b, 1, 4))]

\* ------------------------------------------------------------------ kind "agree"
SetOf(q) == {q[i] : i \in 1..Len(q)}
ObsWhy(r, o, exp) ==
    IF o.addr # exp.a THEN "address-differs-from-reference"
    ELSE IF SetOf(o.keys) # SetOf(r.pubs) \/ Len(o.keys) # Len(r.pubs) THEN "key-set-differs"
    ELSE IF o.path # r.obs[1].path THEN "path-differs"
    ELSE "ok"
JudgeAgree(r) ==
    LET rs == ScriptBytes(r)
        need == Missing(AddrTerms(r.net, r.wt, rs), r.facts) IN
    IF need # <<>> THEN [v |-> "need", need |-> need, bad |-> <<>>, exp |-> <<>>, rs |-> rs]
    ELSE LET exp == ExpAddr(r.net, r.wt, rs, r.facts)
             I == {i \in 1..Len(r.obs) : ObsWhy(r, r.obs[i], exp) # "ok"} IN
         [v |-> IF I = {} THEN "ok" ELSE "fail", need |-> <<>>,
          bad |-> [k \in 1..Cardinality(I) |->
                     LET i == CHOOSE x \in I : Cardinality({y \in I : y < x}) = k - 1 IN
                     [at |-> i, clause |-> ObsWhy(r, r.obs[i], exp)]],
          exp |-> exp.a, rs |-> rs]

\* ------------------------------------------------------------------ consensus validity of a raw transaction
DerErr == [ok |-> FALSE, r |-> <<>>, s |-> <<>>, ht |-> 0]
Scalar32(x) == LET t == TrimLead(x) IN IF Len(t) > 32 THEN <<>> ELSE PadBE(t, 32)
\* 30 L 02 lr r 02 ls s hashtype (shape only; strictness of the encoding is C13's subject)
ParseDer(sig) ==
    IF Len(sig) < 9 \/ sig[1] # 48 \/ sig[2] # Len(sig) - 3 \/ sig[3] # 2 THEN DerErr
    ELSE LET lr == sig[4] IN
         IF lr < 1 \/ 6 + lr > Len(sig) - 1 \/ sig[5 + lr] # 2 THEN DerErr
         ELSE LET ls == sig[6 + lr] IN
              IF ls < 1 \/ 6 + lr + ls # Len(sig) - 1 THEN DerErr
              ELSE LET r == Scalar32(SubSeq(sig, 5, 4 + lr))
                       s == Scalar32(SubSeq(sig, 7 + lr, 6 + lr + ls)) IN
                   IF r = <<>> \/ s = <<>> THEN DerErr ELSE [ok |-> TRUE, r |-> r, s |-> s, ht |-> sig[Len(sig)]]

NoSigs == [why |-> "", sigs |-> <<>>]
\* the signature items of input `in` spending the group's output, or why the input cannot satisfy it
InputSigs(wt, in, rs, facts) ==
    IF wt = "legacy" THEN
        LET ps == ParseScript(in.script) IN
        IF in.wit # <<>> THEN [NoSigs EXCEPT !.why = "witness-on-a-legacy-input"]
        ELSE IF ~ps.ok THEN [NoSigs EXCEPT !.why = "scriptsig-unparsable"]
        ELSE IF Len(ps.items) < 2 THEN [NoSigs EXCEPT !.why = "no-signatures"]
        ELSE IF ps.items[Len(ps.items)] # Data(rs) THEN [NoSigs EXCEPT !.why = "redeemscript-in-transaction-differs"]
        ELSE IF ps.items[1] # Op(0) THEN [NoSigs EXCEPT !.why = "checkmultisig-dummy-missing"]
        ELSE IF \E i \in 2..(Len(ps.items) - 1) : ps.items[i].t # "data" THEN [NoSigs EXCEPT !.why = "scriptsig-not-push-only"]
        ELSE [why |-> "", sigs |-> [i \in 1..(Len(ps.items) - 2) |-> ps.items[i + 1].d]]
    ELSE
        LET prog == EvalT(WitnessProgram(rs), facts)
            st == in.wit IN
        IF wt = "segwit" /\ in.script # <<>> THEN [NoSigs EXCEPT !.why = "scriptsig-on-a-native-witness-input"]
        \* (while the hash is still being asked for, see JudgeInput, the comparison is postponed)
        ELSE IF wt = "p2sh-segwit" /\ prog.ok /\ in.script # Push(prog.b) THEN [NoSigs EXCEPT !.why = "scriptsig-is-not-the-witness-program"]
        ELSE IF Len(st) < 2 THEN [NoSigs EXCEPT !.why = "no-signatures"]
        ELSE IF st[Len(st)] # rs THEN [NoSigs EXCEPT !.why = "redeemscript-in-transaction-differs"]
        ELSE IF st[1] # <<>> THEN [NoSigs EXCEPT !.why = "checkmultisig-dummy-missing"]
        ELSE [why |-> "", sigs |-> [i \in 1..(Len(st) - 2) |-> st[i + 1]]]

\* CHECKMULTISIG: signatures and keys are walked in script order, every signature must match a later key than the last
RECURSIVE CMS(_, _, _, _, _)
CMS(ok, ns, nk, i, j) == IF i > ns THEN TRUE
                         ELSE IF j > nk \/ (ns - i) > (nk - j) THEN FALSE
                         ELSE IF ok[i][j] THEN CMS(ok, ns, nk, i + 1, j + 1) ELSE CMS(ok, ns, nk, i, j + 1)

EcdsaTerm(key, digest, d) == HN("ecdsa", <<B(key), digest, B(d.r), B(d.s)>>)
JudgeInput(r, tx, i, rs, keys) ==
    LET in == tx.ins[i]
        pre == IF r.wt = "legacy" THEN <<>> ELSE Missing(<<WitnessProgram(rs)>>, r.facts) IN
    LET g == InputSigs(r.wt, in, rs, r.facts) IN
    IF g.why # "" THEN [v |-> g.why, need |-> <<>>]
    ELSE IF Len(g.sigs) < r.m THEN [v |-> "fewer-than-m-signatures", need |-> <<>>]
    ELSE IF Len(g.sigs) > r.m THEN [v |-> "more-than-m-signatures", need |-> <<>>]
    ELSE LET ders == [k \in 1..Len(g.sigs) |-> ParseDer(g.sigs[k])] IN
    IF \E k \in 1..Len(ders) : ~ders[k].ok \/ ders[k].ht # 1 THEN [v |-> "signature-not-der-sighash-all", need |-> <<>>]
    ELSE LET digest == Digest(tx, i)
             terms == [k \in 1..(Len(ders) * Len(keys)) |->
                          EcdsaTerm(keys[((k - 1) % Len(keys)) + 1], digest, ders[((k - 1) \div Len(keys)) + 1])]
             need == pre \o Missing(terms, r.facts) IN
    IF need # <<>> THEN [v |-> "need", need |-> need]
    ELSE LET ok == [a \in 1..Len(ders) |-> [b \in 1..Len(keys) |-> EvalT(EcdsaTerm(keys[b], digest, ders[a]), r.facts).b = <<1>>]] IN
         [v |-> IF CMS(ok, Len(ders), Len(keys), 1, 1) THEN "valid" ELSE "checkmultisig-fails", need |-> <<>>]

\* everything a SIGHASH_ALL signature of this transaction commits to apart from the spent output itself
BodyOf(p) == IF ~p.ok THEN NoBody
             ELSE [version |-> p.tx.version, locktime |-> p.tx.locktime,
                   ins |-> [i \in 1..Len(p.tx.ins) |-> [txid |-> p.tx.ins[i].txid, vout |-> p.tx.ins[i].vout, seq |-> p.tx.ins[i].seq]],
                   outs |-> p.tx.outs]
JudgeParsed(r, p) ==
    IF ~p.ok THEN [v |-> "unparsable", need |-> <<>>]
    ELSE IF \E i \in 1..Len(p.tx.ins) : FundOf(r, p.tx.ins[i]) = 0
    THEN [v |-> "spends-an-outpoint-that-is-not-an-output-of-the-common-address", need |-> <<>>]
    ELSE IF \E i, j \in 1..Len(p.tx.ins) : i # j /\ p.tx.ins[i].txid = p.tx.ins[j].txid /\ p.tx.ins[i].vout = p.tx.ins[j].vout
    THEN [v |-> "spends-an-outpoint-twice", need |-> <<>>]
    ELSE LET keysOf == [i \in 1..Len(p.tx.ins) |-> KeysOfFund(r, FundOf(r, p.tx.ins[i]))]
             tx == [p.tx EXCEPT !.ins = [i \in 1..Len(p.tx.ins) |->
                       [txid |-> p.tx.ins[i].txid, vout |-> p.tx.ins[i].vout, script |-> p.tx.ins[i].script,
                        seq |-> p.tx.ins[i].seq, wit |-> p.tx.ins[i].wit, kind |-> Kind(r.wt),
                        amount |-> r.funds[FundOf(r, p.tx.ins[i])].amount,
                        pkh |-> <<>>, pub |-> <<>>, keys |-> keysOf[i], m |-> r.m]]]
             js == [i \in 1..Len(tx.ins) |-> JudgeInput(r, tx, i, MultisigScript(r.m, keysOf[i]), keysOf[i])]
             need == Concat([i \in 1..Len(js) |-> js[i].need]) IN
         IF need # <<>> THEN [v |-> "need", need |-> need]
         ELSE IF \A i \in 1..Len(js) : js[i].v = "valid" THEN [v |-> "valid", need |-> <<>>]
         ELSE [v |-> js[CHOOSE i \in 1..Len(js) : js[i].v # "valid"].v, need |-> <<>>]
JudgeTx(r, raw) == LET p == ParseTx(raw)
                       j == JudgeParsed(r, p) IN [v |-> j.v, need |-> j.need, body |-> BodyOf(p)]

\* ------------------------------------------------------------------ kind "ceremony"
\* the event as an action of Cosign.tla; the body a proposer chose is what its transaction shows
A(e, cons) == [op |-> e.a.op, w |-> e.a.w, v |-> e.a.v, form |-> e.a.form, ins |-> SetOf(e.a.ins), key |-> e.a.key,
               body |-> IF e.tx > 0 THEN cons[e.tx].body ELSE NoBody]
\* first clause in which the observation e of the target wallet differs from candidate state st ("" = consistent)
\* cons: verdicts of JudgeTx per distinct raw transaction
Why(r, cfg, st, e, cons, rs) ==
    LET cp == st.copy[TargetOf(e.a)]
        valid == Valid(cfg, cp)
        sendop == e.a.op \in {"send", "send_to"} IN
    IF e.tx > 0 /\ cons[e.tx].body # cp.body
    THEN (IF e.a.op = "handoff" THEN "hand-off-changes-what-the-signatures-commit-to: " \o e.a.form
          ELSE "action-changes-what-the-signatures-commit-to")
    ELSE IF e.nsig # NSig(cp) THEN "signature-count"
    ELSE IF (e.verified \/ e.verify) /\ ~valid THEN "verifies-with-fewer-than-m-signers"
    ELSE IF ~(e.verified /\ e.verify) /\ valid THEN "m-signers-do-not-verify"
    ELSE IF \E i \in 1..Len(e.rs) : i <= Len(cp.body.ins) /\ FundOf(r, cp.body.ins[i]) > 0
                                     /\ e.rs[i] # ScriptOfFund(r, FundOf(r, cp.body.ins[i]))
         THEN "redeemscript-differs-from-reference"
    ELSE IF e.tx > 0 /\ cons[e.tx].v = "valid" /\ ~valid THEN "network-valid-with-fewer-than-m-signers"
    ELSE IF e.tx > 0 /\ cons[e.tx].v # "valid" /\ valid THEN "m-signers-but-not-network-valid: " \o cons[e.tx].v
    ELSE IF e.pushed /\ ~(sendop /\ valid) THEN "broadcast-without-m-signers"
    ELSE IF sendop /\ valid /\ ~e.pushed THEN "valid-transaction-not-broadcast"
    ELSE IF sendop /\ (e.err # ~e.pushed) THEN "error-flag-inconsistent"
    ELSE ""

Dev == "raw-omits-partial-multisig"
DevDict == "dict-import-send-raises"
DevSign == "resign-scrambles-unattributed-signatures"
\* how the copy that wallet w holds after event i arrived there: "dict" when it descends from a dictionary import
\* through object / file hand-offs only (those pass the stored serialization on; a raw import or a new proposal does not)
RECURSIVE ArrivedAs(_, _, _)
ArrivedAs(evs, i, w) == IF i < 1 THEN "new"
                        ELSE IF evs[i].a.op = "handoff" /\ evs[i].a.v = w
                             THEN (IF evs[i].a.form \in {"object", "file"} THEN ArrivedAs(evs, i - 1, evs[i].a.w) ELSE evs[i].a.form)
                        ELSE IF evs[i].a.op \in {"propose", "send_to"} /\ evs[i].a.w = w THEN "new"
                        ELSE ArrivedAs(evs, i - 1, w)
\* C: candidate specification states [st, dev] consistent with everything observed so far; dev = the deviations
\* that explanation needs (a sequence of names).  T: wallets whose copy descends from a Sign in the input class of
\* DevSign (its signature list may be corrupted).  TB: wallets whose copy descends from a hand-off that rewrote the body
\* (DevRawLt, DevDictSeq: the signatures it carries are stale).  What such copies show about their signatures is
\* attributed to those deviations; their body is still judged.
DevRawLt == "raw-import-applies-importer-locktime"
DevDictSeq == "dict-import-resets-sequences"
DevOffDict == "offline-dict-import-forgets-multisig"
\* the deviation sets under which an action has other successors than under the property semantics
DevSetsFor(a) == IF a.op # "handoff" THEN {}
                 ELSE IF a.form = "raw" THEN {{Dev}, {DevRawLt}, {Dev, DevRawLt}}
                 ELSE IF a.form = "dict" THEN {{DevDictSeq}} ELSE {}
DevsOf(S) == IF \E c \in S : c.dev = <<>> THEN <<>> ELSE (CHOOSE c \in S : TRUE).dev
RECURSIVE AddNames(_, _)
AddNames(q, D) == IF D = {} THEN q
                  ELSE LET d == CHOOSE x \in D : TRUE IN AddNames(IF d \in SetOf(q) THEN q ELSE Append(q, d), D \ {d})
\* TD: wallets whose copy descends from a dictionary import by a wallet that knows only the keys (DevOffDict)
RECURSIVE Walk(_, _, _, _, _, _, _, _, _)
Walk(r, cfg, C, cons, rs, i, T, TB, TD) ==
    IF i > Len(r.events) THEN [v |-> "ok", at |-> 0, dev |-> DevsOf(C)]
    ELSE LET e == r.events[i]
             a == A(e, cons)
             tgt == TargetOf(a)
             N == UNION { {[st |-> x, dev |-> c.dev] : x \in Act(cfg, c.st, a, {})}
                          \cup UNION { {[st |-> x, dev |-> AddNames(c.dev, D)] : x \in Act(cfg, c.st, a, D) \ Act(cfg, c.st, a, {})} :
                                         D \in DevSetsFor(a) } : c \in C }
             K == {c \in N : Why(r, cfg, c.st, e, cons, rs) = ""}
             via == ArrivedAs(r.events, i - 1, a.w)
             \* the call raised: only the listed deviation explains that (the ceremony ends there)
             D == {c \in C : a.op = "send" /\ e.pushed /\ SendRaises(cfg, c.st, a.w, via, {DevDict})}
             T1 == CASE a.op = "sign" /\ (\E c \in C : SignScrambles(cfg, c.st, a.w, via, {DevSign})) -> T \cup {a.w}
                     [] a.op = "handoff" -> IF a.w \in T THEN T \cup {a.v} ELSE T \ {a.v}
                     [] a.op \in {"propose", "send_to"} -> T \ {a.w}
                     [] OTHER -> T
             \* the body some candidate predicts for the target is the body observed
             bodyok == e.tx = 0 \/ \E c \in N : c.st.copy[tgt].body = cons[e.tx].body
             rewritten == a.op = "handoff" /\ e.tx > 0 /\ \A c \in C : c.st.copy[a.w].body # cons[e.tx].body
             TB1 == CASE a.op = "handoff" -> IF a.w \in TB \/ rewritten THEN TB \cup {a.v} ELSE TB \ {a.v}
                      [] a.op \in {"propose", "send_to"} -> TB \ {a.w}
                      [] OTHER -> TB
             TD1 == CASE a.op = "handoff" -> IF a.w \in TD \/ OfflineDictBreaks(cfg, a.v, a.form, {DevOffDict}) THEN TD \cup {a.v} ELSE TD \ {a.v}
                      [] a.op \in {"propose", "send_to"} -> TD \ {a.w}
                      [] OTHER -> TD
             P == {c \in N : c.dev = <<>>}
             c0 == CHOOSE c \in (IF P # {} THEN P ELSE N) : TRUE IN
         IF N = {} THEN [v |-> "action-not-enabled-in-the-specification", at |-> i, dev |-> <<>>]
         \* a refused import where the importer may refuse: nothing changes
         ELSE IF ~e.ok /\ a.op = "handoff" /\ MayRefuse(cfg, a.v, a.form) THEN Walk(r, cfg, C, cons, rs, i + 1, T, TB, TD)
         \* ... or fails in the input class of DevOffDict (the rebuilt input is no multisig input: size estimation gives up)
         ELSE IF ~e.ok /\ a.op = "handoff" /\ OfflineDictBreaks(cfg, a.v, a.form, {DevOffDict})
              THEN Walk(r, cfg, {[st |-> c.st, dev |-> AddNames(c.dev, {DevOffDict})] : c \in C}, cons, rs, i + 1, T, TB, TD)
         ELSE IF ~e.ok THEN (IF D # {} /\ i = Len(r.events)
                             THEN [v |-> "ok", at |-> 0, dev |-> Append(DevsOf(D), DevDict)]
                             ELSE [v |-> "action-raised", at |-> i, dev |-> <<>>])
         ELSE IF K # {} THEN Walk(r, cfg, K, cons, rs, i + 1, T1, TB1, TD1)
         ELSE IF ~bodyok THEN [v |-> Why(r, cfg, c0.st, e, cons, rs), at |-> i, dev |-> <<>>]
         \* stale or possibly corrupted signatures: nothing further of this ceremony is judged
         ELSE IF tgt \in TB1 THEN [v |-> "ok", at |-> 0,
                                    dev |-> DevsOf(IF e.tx > 0 THEN {c \in N : c.st.copy[tgt].body = cons[e.tx].body} ELSE N)]
         ELSE IF tgt \in TD1 THEN [v |-> "ok", at |-> 0, dev |-> Append(DevsOf(C), DevOffDict)]
         ELSE IF tgt \in T1 THEN [v |-> "ok", at |-> 0, dev |-> Append(DevsOf(C), DevSign)]
         ELSE [v |-> Why(r, cfg, c0.st, e, cons, rs), at |-> i, dev |-> <<>>]

JudgeCeremony(r) ==
    LET cons == [k \in 1..Len(r.txs) |-> JudgeTx(r, r.txs[k])]
        need == Concat([k \in 1..Len(cons) |-> cons[k].need]) IN
    IF need # <<>> THEN [v |-> "need", at |-> 0, dev |-> <<>>, need |-> need, cons |-> <<>>]
    ELSE LET cfg == Cfg(r)
             res == Walk(r, cfg, {[st |-> InitS(cfg), dev |-> <<>>]}, cons, ScriptBytes(r), 1, {}, {}, {}) IN
         [v |-> res.v, at |-> res.at, dev |-> res.dev, need |-> <<>>, cons |-> [k \in 1..Len(cons) |-> cons[k].v]]

Judge(r) == IF r.kind = "agree" THEN JudgeAgree(r) ELSE JudgeCeremony(r)
Out == [k \in 1..Len(Recs) |-> Judge(Recs[k])]
ASSUME ndJsonSerialize(IOEnv.OUT_FILE, Out)
=============================================================================
