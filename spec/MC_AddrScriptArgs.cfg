SPECIFICATION Spec
INVARIANT AgreeingKeepsBase
INVARIANT FullSourceDecides
INVARIANT CandidatesNamed
INVARIANT OtherExcludesBase
INVARIANT ForeignRefused
INVARIANT TypedHashDecides
CHECK_DEADLOCK FALSE
INVARIANT HintIsNoSource
