SPECIFICATION Spec
CONSTANTS
  NIn = 2
  MaxSteps = 3
INVARIANT RefusedUnchanged
INVARIANT RelBlocksMeaning
INVARIANT RelTimeMeaning
INVARIANT RelRefusal
INVARIANT AbsMeaning
INVARIANT AbsFrame
CHECK_DEADLOCK FALSE
