------------------------------ MODULE FeeBump ------------------------------
(***************************************************************************)
(* Raising the fee of a transaction (Transaction.bumpfee), as a rule on    *)
(* what may come out - not the algorithm: the extra fee is taken from      *)
(* change outputs only.                                                    *)
(*   pre, post: [ins: total input value, outs: Seq([v, change])]           *)
(*   q: [fee (new total fee asked for, or -1), extra (extra fee, or -1)]   *)
(* old fee = ins - sum(pre.outs).  Result "refused" is always allowed.     *)
(***************************************************************************)
EXTENDS Naturals, Integers, Sequences
RECURSIVE SumOuts(_, _)
SumOuts(o, i) == IF i > Len(o) THEN 0 ELSE o[i].v + SumOuts(o, i + 1)
Fee(t) == t.ins - SumOuts(t.outs, 1)
Payments(t) == SelectSeq(t.outs, LAMBDA o : ~o.change)
\* the change outputs of post are those of pre, each kept with at most its value or removed, in the same order
RECURSIVE Shrunk(_, _)
Shrunk(a, b) == \* b obtainable from a by removing outputs and lowering values
    IF Len(b) = 0 THEN TRUE
    ELSE IF Len(a) = 0 THEN FALSE
    ELSE (b[1].v <= a[1].v /\ Shrunk(Tail(a), Tail(b))) \/ Shrunk(Tail(a), b)
Wanted(pre, q) == IF q.fee >= 0 THEN q.fee ELSE IF q.extra >= 0 THEN Fee(pre) + q.extra ELSE Fee(pre) + 1
BumpWhy(pre, post, q) ==
    IF post.ins # pre.ins THEN "inputs-changed"
    ELSE IF \E i \in 1..Len(post.outs) : post.outs[i].v < 0 THEN "negative-output"
    ELSE IF Payments(post) # Payments(pre) THEN "payment-outputs-changed"
    ELSE IF ~Shrunk(SelectSeq(pre.outs, LAMBDA o : o.change), SelectSeq(post.outs, LAMBDA o : o.change)) THEN "change-outputs-grew-or-appeared"
    ELSE IF Fee(post) < Wanted(pre, q) THEN "fee-below-requested"
    \* nothing is burnt beyond what removing whole (small) change outputs forces: the fee rises by less than
    \* the request plus the change outputs that disappeared
    \* (with neither a fee nor an extra fee given the increase is the library's own formula: any increase will do)
    ELSE IF (q.fee >= 0 \/ q.extra >= 0) /\ Fee(post) > Wanted(pre, q) /\ Len(post.outs) = Len(pre.outs)
         THEN "fee-above-requested-without-removing-an-output"
    ELSE "ok"
\* refusing is required when the change outputs cannot pay the increase
MustRefuse(pre, q) == SumOuts(SelectSeq(pre.outs, LAMBDA o : o.change), 1) < Wanted(pre, q) - Fee(pre)
=============================================================================
