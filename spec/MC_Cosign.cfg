SPECIFICATION Spec
CONSTANTS
  MaxHandoffs = 3
  Big = FALSE
INVARIANT Agreement
INVARIANT FundedScript
INVARIANT ValidIffMDistinctSigners
INVARIANT NoForgery
INVARIANT OneIncompleteInputSuffices
INVARIANT PushedOnlyValid
INVARIANT RefusedIsNoop
INVARIANT HandOffKeeps
INVARIANT CommitmentPreserved
INVARIANT OfflineSignerSuffices
PROPERTY FundAgrees
PROPERTY PushedStable
PROPERTY SigningOnlyAdds
CHECK_DEADLOCK FALSE
