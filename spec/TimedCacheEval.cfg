CONSTANTS
  TtlCount = 60
  TtlFee = 600
