------------------------- MODULE ServiceFailoverGen -------------------------
(* (G) behaviour generation: every terminal state of ServiceFailover is printed as one JSON line; the harness   *)
(* replays each one (response assignment, order, limits) into bitcoinlib's Service and compares what it observes. *)
EXTENDS ServiceFailover, Json
Emit == (pc = "Done") =>
          PrintT(<<"TERM", ToJson([order |-> order, resp |-> resp, mp |-> maxProviders, me |-> maxErrors,
                                    inst |-> inst, called |-> called, results |-> results, errors |-> errors,
                                    rc |-> resultcount, outcome |-> outcome, retval |-> retval,
                                    views |-> MethodViews(outcome)])>>)
=============================================================================
