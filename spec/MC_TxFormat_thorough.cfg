SPECIFICATION Spec
INVARIANT WF
INVARIANT RoundTrip
INVARIANT RoundTripStripped
INVARIANT TxidIgnoresWitness
INVARIANT ExtendedIffWitness
INVARIANT TruncationRejected
INVARIANT BlockRoundTrip
INVARIANT WeightRule
INVARIANT TargetGenesis
CHECK_DEADLOCK FALSE
