CONSTANTS
  Has <- FactHas
  Val <- FactVal
  OrderN <- Secp256k1N
  W <- ScalarBytes
