------------------------------- MODULE Bytes -------------------------------
(***************************************************************************)
(* Byte and digit sequences.  TLC integers are 32 bit, so every protocol   *)
(* quantity that can exceed 2^31-1 (amounts, CompactSize values, sequence  *)
(* numbers, 256-bit scalars) is a sequence of bytes (Seq(0..255)) or of    *)
(* digits in some base; this module supplies the arithmetic on them.       *)
(* Big numbers are little-endian digit sequences ("LE"), minimal when they *)
(* have no trailing zero digit (the value 0 is the empty sequence).        *)
(***************************************************************************)
EXTENDS Naturals, Integers, Sequences

Byte == 0..255

Rev(s) == [i \in 1..Len(s) |-> s[Len(s) + 1 - i]]

Rep(x, n) == [i \in 1..n |-> x]

Take(s, n) == SubSeq(s, 1, IF n < Len(s) THEN n ELSE Len(s))
Drop(s, n) == SubSeq(s, n + 1, Len(s))

RECURSIVE Concat(_)
Concat(ss) == IF ss = <<>> THEN <<>> ELSE Head(ss) \o Concat(Tail(ss))

(* strip trailing zero digits: minimal little-endian form *)
RECURSIVE Trim(_)
Trim(s) == IF s = <<>> THEN <<>> ELSE IF s[Len(s)] = 0 THEN Trim(SubSeq(s, 1, Len(s) - 1)) ELSE s

(* strip leading zero digits: minimal big-endian form *)
RECURSIVE TrimLead(_)
TrimLead(s) == IF s = <<>> THEN <<>> ELSE IF s[1] = 0 THEN TrimLead(Tail(s)) ELSE s

PadLE(s, w) == IF Len(s) >= w THEN s ELSE s \o Rep(0, w - Len(s))
PadBE(s, w) == IF Len(s) >= w THEN s ELSE Rep(0, w - Len(s)) \o s

(* small naturals (< 2^31) <-> little-endian digits in base b *)
RECURSIVE NatToLE(_, _)
NatToLE(n, b) == IF n = 0 THEN <<>> ELSE <<n % b>> \o NatToLE(n \div b, b)

RECURSIVE LEToNat(_, _)
LEToNat(s, b) == IF s = <<>> THEN 0 ELSE s[1] + b * LEToNat(Tail(s), b)

LE(n, w) == PadLE(NatToLE(n, 256), w)      \* w-byte little-endian encoding of a small natural
BE(n, w) == Rev(LE(n, w))
LEVal(s) == LEToNat(s, 256)                 \* only for values < 2^31
BEVal(s) == LEToNat(Rev(s), 256)

(* ---------- big numbers: LE digit sequences in base b ------------------ *)

(* compare minimal LE numbers: -1, 0, 1 *)
RECURSIVE CmpBE(_, _)
CmpBE(x, y) == IF x = <<>> THEN 0
               ELSE IF x[1] < y[1] THEN -1 ELSE IF x[1] > y[1] THEN 1 ELSE CmpBE(Tail(x), Tail(y))
CmpLE(a, b) == LET x == Trim(a) y == Trim(b) IN
               IF Len(x) < Len(y) THEN -1 ELSE IF Len(x) > Len(y) THEN 1 ELSE CmpBE(Rev(x), Rev(y))

RECURSIVE AddLEc(_, _, _, _)
AddLEc(x, y, c, b) ==
    IF x = <<>> /\ y = <<>> THEN (IF c = 0 THEN <<>> ELSE <<c>>)
    ELSE LET dx == IF x = <<>> THEN 0 ELSE x[1]
             dy == IF y = <<>> THEN 0 ELSE y[1]
             t  == dx + dy + c
         IN <<t % b>> \o AddLEc(IF x = <<>> THEN x ELSE Tail(x), IF y = <<>> THEN y ELSE Tail(y), t \div b, b)
AddLE(x, y, b) == Trim(AddLEc(x, y, 0, b))

(* x - y for x >= y *)
RECURSIVE SubLEc(_, _, _, _)
SubLEc(x, y, c, b) ==
    IF x = <<>> THEN <<>>
    ELSE LET dy == IF y = <<>> THEN 0 ELSE y[1]
             t  == x[1] - dy - c
         IN IF t < 0 THEN <<t + b>> \o SubLEc(Tail(x), IF y = <<>> THEN y ELSE Tail(y), 1, b)
                     ELSE <<t>> \o SubLEc(Tail(x), IF y = <<>> THEN y ELSE Tail(y), 0, b)
SubLE(x, y, b) == Trim(SubLEc(x, y, 0, b))

(* multiply LE number by small m and add small c (m*b + c < 2^31) *)
RECURSIVE MulSmallC(_, _, _, _)
MulSmallC(x, m, c, b) ==
    IF x = <<>> THEN NatToLE(c, b)
    ELSE LET t == x[1] * m + c IN <<t % b>> \o MulSmallC(Tail(x), m, t \div b, b)
MulSmall(x, m, c, b) == Trim(MulSmallC(x, m, c, b))

(* divide BE digit sequence by small d: <<quotient (BE, same length), remainder>> *)
RECURSIVE DivSmallBE(_, _, _, _)
DivSmallBE(x, d, r, b) ==
    IF x = <<>> THEN <<<<>>, r>>
    ELSE LET t == r * b + x[1]
             rest == DivSmallBE(Tail(x), d, t % d, b)
         IN <<(<<t \div d>>) \o rest[1], rest[2]>>

(* base conversion of a big number: BE digits in base `from` -> LE digits in base `to` *)
RECURSIVE ConvBEtoLE(_, _, _)
ConvBEtoLE(x, from, to) ==
    LET y == TrimLead(x) IN
    IF y = <<>> THEN <<>>
    ELSE LET qr == DivSmallBE(y, to, 0, from) IN <<qr[2]>> \o ConvBEtoLE(qr[1], from, to)

(* bits, most significant first *)
ByteBits(v) == <<(v \div 128) % 2, (v \div 64) % 2, (v \div 32) % 2, (v \div 16) % 2,
                 (v \div 8) % 2, (v \div 4) % 2, (v \div 2) % 2, v % 2>>
RECURSIVE BytesBits(_)
BytesBits(s) == IF s = <<>> THEN <<>> ELSE ByteBits(s[1]) \o BytesBits(Tail(s))

RECURSIVE BitsVal(_)
BitsVal(bits) == IF bits = <<>> THEN 0 ELSE bits[Len(bits)] + 2 * BitsVal(SubSeq(bits, 1, Len(bits) - 1))

(* regroup a bit sequence (length multiple of k) into k-bit values *)
RECURSIVE Group(_, _)
Group(bits, k) == IF Len(bits) < k THEN <<>> ELSE <<BitsVal(SubSeq(bits, 1, k))>> \o Group(Drop(bits, k), k)

IsBytes(s) == \A i \in 1..Len(s) : s[i] \in Byte
=============================================================================
