SPECIFICATION Spec
CONSTANTS
  SmallMax = 40
  DecSet <- QuickDecs
INVARIANT RoundTrip
INVARIANT Envelope
INVARIANT TextReads
INVARIANT NonNegInt
INVARIANT UnitUnique
INVARIANT Placed
INVARIANT SufficientIsEnough
CHECK_DEADLOCK FALSE
