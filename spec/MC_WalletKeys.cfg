SPECIFICATION Spec
CONSTANTS
  MaxSteps = 3
  MaxIdx = 3
  Watch = FALSE
  Ms = FALSE
INVARIANT NoGaps
INVARIANT WellFormed
INVARIANT AddressesDistinct
INVARIANT WatchOnlyOwnAccount
INVARIANT ObjectUntouched
PROPERTY NoRepeat
PROPERTY UsedNotHandedOut
PROPERTY KeysPersist
PROPERTY Refusals
PROPERTY DeviationsAreViolations
CHECK_DEADLOCK FALSE
