SPECIFICATION Spec
CONSTANTS
  MaxLen = 4
INVARIANT TypeOK
INVARIANT SuccessRule
PROPERTY FailureIsFinal
PROPERTY SkippedBranchInert
PROPERTY CondOnlyByFlow
PROPERTY NumericResultsMinimal
CHECK_DEADLOCK FALSE
