--------------------------- MODULE MC_ServiceCache ---------------------------
(* Bounded model: every sequence of queries with every provider behaviour and every outcome the specification      *)
(* allows.  Invariants: the cache only ever holds provider answers (CacheFaithful), nothing is learnt from a         *)
(* failed query (NoStoreOnFailure), a value is never served for something nobody answered (NoFabrication).          *)
EXTENDS ServiceCache
CONSTANTS Limits, Pages, FeeVals, Groups
MCTxs == {<<"t", 1>>, <<"t", 2>>}
VARIABLES s, last, answered, answeredQ, n
vars == <<s, last, answered, answeredQ, n>>
UFull == << <<"h", 1>>, <<"h", 2>> >>

Events == [op : {"tx"}, t : Txs, prov : {"ok", "fail"}, ok : BOOLEAN, ret : Txs]
   \cup   [op : {"raw"}, t : Txs, prov : {"ok", "fail"}, ok : BOOLEAN, ret : Txs]
   \cup   [op : {"block"}, page : Pages, limit : Limits, parse : BOOLEAN, prov : {"ok", "fail"}, ok : BOOLEAN,
           ret : {PageSeq(p, l) : p \in Pages, l \in Limits}]
   \cup   [op : {"txs"}, after : {0}, a : {"a1"}, full : {<< <<"t", 1>>, <<"t", 2>> >>}, prov : {"ok", "fail"}, ok : BOOLEAN,
           ret : {<< <<"t", 1>>, <<"t", 2>> >>, << <<"t", 1>> >>}]
   \cup   [op : {"fee"}, g : Groups, prov : {"ok", "fail"}, pval : FeeVals, ok : BOOLEAN, ret : FeeVals]
   \cup   [op : {"utxos"}, a : {"a1", "a2"}, full : {UFull}, prov : {"ok", "fail"}, ok : BOOLEAN, ret : {UFull, << <<"h", 1>> >>}]
   \cup   [op : {"balance"}, as : {<<"a1">>, <<"a1", "a2">>}, val : {7}, prov : {"ok", "fail"}, ok : BOOLEAN, ret : {7, 0}]
   \cup   [op : {"isspent"}, t : {"t1"}, n : {0, 1}, truth : {TRUE}, prov : {"ok", "fail"}, ok : BOOLEAN, ret : BOOLEAN]
   \cup   [op : {"count"}, val : {100}, prov : {"ok", "fail"}, ok : BOOLEAN, ret : {100, 99}]

Init == s = InitState /\ last = [op |-> "none", prov |-> "ok", ok |-> FALSE] /\ answered = {} /\ answeredQ = {} /\ n = 0
Next == \E e \in Events : /\ Succ(s, e) # {}
                          /\ s' \in Succ(s, e)
                          /\ last' = e
                          /\ n' = n + 1
                          /\ answered' = IF e.prov = "ok" /\ e.ok
                                         THEN answered \cup (CASE e.op = "tx" -> {e.t}
                                                               [] e.op = "txs" -> {e.full[i] : i \in 1..Len(e.full)}
                                                               [] e.op = "block" -> IF e.parse THEN {BlockTx(i) : i \in PageIdx(e.page, e.limit)} ELSE {}
                                                               [] OTHER -> {})
                                         ELSE answered
                          /\ answeredQ' = IF e.prov = "ok" /\ e.ok
                                          THEN answeredQ \cup (CASE e.op = "tx" -> {<<"S", TN(e.t), 0>>, <<"S", TN(e.t), 1>>}
                                                                 [] e.op = "utxos" -> {<<"U", e.a, 0>>, <<"B", e.a, 0>>}
                                                                 [] e.op = "balance" -> {<<"B", e.as[i], 0>> : i \in 1..Len(e.as)}
                                                                 [] e.op = "txs" -> {<<"B", e.a, 0>>}
                                                                 [] e.op = "isspent" -> {<<"S", e.t, e.n>>}
                                                                 [] e.op = "count" -> {<<"C", "", 0>>}
                                                                 [] OTHER -> {})
                                          ELSE answeredQ
Spec == Init /\ [][Next]_vars
Bound == n <= 3

CacheFaithful == s.known \subseteq answered
NoStoreOnFailure == [][last'.prov = "fail" => s' = s]_vars
NoFabrication == (last.op \in {"tx", "raw"} /\ last.ok /\ last.prov = "fail") => last.t \in answered
\* a history served while the providers fail is one that was answered in full before
HistoryNotFabricated == (last.op = "txs" /\ last.ok /\ last.prov = "fail") => (last.ret = last.full /\ last.a \in s.addrs)
\* the four mutable-looking queries: what the cache layer knows was answered by a provider, and what is served while the
\* providers fail was answered before and is the truth
QueriesFaithful == /\ \A a \in s.utx : <<"U", a, 0>> \in answeredQ
                   /\ \A a \in s.bal : <<"B", a, 0>> \in answeredQ
                   /\ \A o \in s.spent : <<"S", o[1], o[2]>> \in answeredQ
                   /\ s.count => <<"C", "", 0>> \in answeredQ
QueriesNotFabricated == (last.ok /\ last.prov = "fail") =>
    CASE last.op = "utxos" -> last.ret = last.full /\ <<"U", last.a, 0>> \in answeredQ
      [] last.op = "balance" -> last.ret = last.val /\ \A i \in 1..Len(last.as) : <<"B", last.as[i], 0>> \in answeredQ
      [] last.op = "isspent" -> last.ret = last.truth /\ <<"S", last.t, last.n>> \in answeredQ
      [] last.op = "count" -> last.ret = last.val /\ <<"C", "", 0>> \in answeredQ
      [] OTHER -> TRUE
ValueIsRequested == (last.op \in {"tx", "raw"} /\ last.ok) => last.ret = last.t
=============================================================================
