--------------------------- MODULE MC_ServiceCache ---------------------------
(* Bounded model: every sequence of queries with every provider behaviour and every outcome the specification      *)
(* allows.  Invariants: the cache only ever holds provider answers (CacheFaithful), nothing is learnt from a         *)
(* failed query (NoStoreOnFailure), a value is never served for something nobody answered (NoFabrication).          *)
EXTENDS ServiceCache
CONSTANTS Limits, Pages, FeeVals, Groups
MCTxs == {<<"t", 1>>, <<"t", 2>>}
VARIABLES s, last, answered, n
vars == <<s, last, answered, n>>

Events == [op : {"tx"}, t : Txs, prov : {"ok", "fail"}, ok : BOOLEAN, ret : Txs]
   \cup   [op : {"raw"}, t : Txs, prov : {"ok", "fail"}, ok : BOOLEAN, ret : Txs]
   \cup   [op : {"block"}, page : Pages, limit : Limits, parse : BOOLEAN, prov : {"ok", "fail"}, ok : BOOLEAN,
           ret : {PageSeq(p, l) : p \in Pages, l \in Limits}]
   \cup   [op : {"txs"}, a : {"a1"}, full : {<< <<"t", 1>>, <<"t", 2>> >>}, prov : {"ok", "fail"}, ok : BOOLEAN,
           ret : {<< <<"t", 1>>, <<"t", 2>> >>, << <<"t", 1>> >>}]
   \cup   [op : {"fee"}, g : Groups, prov : {"ok", "fail"}, pval : FeeVals, ok : BOOLEAN, ret : FeeVals]

Init == s = InitState /\ last = [op |-> "none", prov |-> "ok", ok |-> FALSE] /\ answered = {} /\ n = 0
Next == \E e \in Events : /\ Succ(s, e) # {}
                          /\ s' \in Succ(s, e)
                          /\ last' = e
                          /\ n' = n + 1
                          /\ answered' = IF e.prov = "ok" /\ e.ok
                                         THEN answered \cup (CASE e.op = "tx" -> {e.t}
                                                               [] e.op = "txs" -> {e.full[i] : i \in 1..Len(e.full)}
                                                               [] e.op = "block" -> IF e.parse THEN {BlockTx(i) : i \in PageIdx(e.page, e.limit)} ELSE {}
                                                               [] OTHER -> {})
                                         ELSE answered
Spec == Init /\ [][Next]_vars
Bound == n <= 3

CacheFaithful == s.known \subseteq answered
NoStoreOnFailure == [][last'.prov = "fail" => s' = s]_vars
NoFabrication == (last.op \in {"tx", "raw"} /\ last.ok /\ last.prov = "fail") => last.t \in answered
\* a history served while the providers fail is one that was answered in full before
HistoryNotFabricated == (last.op = "txs" /\ last.ok /\ last.prov = "fail") => (last.ret = last.full /\ last.a \in s.addrs)
ValueIsRequested == (last.op \in {"tx", "raw"} /\ last.ok) => last.ret = last.t
=============================================================================
