--------------------------- MODULE MC_KeyFormats ---------------------------
(***************************************************************************)
(* Bounded model of C12: every configuration (network x witness type x     *)
(* multisig) x private/public x secret class x compression x format x hint *)
(* set is exported and read back by a *reference importer* that sees only  *)
(* the representation and the hints (never the key).  The invariants are   *)
(* the design statements of the property: the reference importer's answer  *)
(* satisfies the constraint the conformance check applies to the           *)
(* implementation (so the constraint never demands what a representation   *)
(* cannot carry), detection of the self-describing formats is exact on     *)
(* private/public, the key's own configuration is always among the allowed *)
(* ones, complete hints decide the configuration, and the SLIP-132         *)
(* versions of the bitcoin families decide witness type and multisig.      *)
(* secp256k1 is replaced by a toy point function (x = reverse of the       *)
(* secret, y = secret), which keeps "02/03 by parity of y" meaningful.     *)
(***************************************************************************)
EXTENDS KeyFormats, TLC
CONSTANTS MCNets,        \* networks enumerated
          MCHints,       \* hint sets enumerated for the other networks
          MCTargets,     \* networks a key is moved to by network_change
          MCMaxOps,      \* calls made on an object before the export
          MCPlain        \* networks with full variety: all secret classes, plain and HD keys, all 32 hint sets

ToyX(s) == Rev(s)
ToyY(s) == s
ToyLift(x) == Rev(x)          \* "decompression": y from x

Secrets == << [i \in 1..32 |-> (i * 37 + 11) % 256],                      \* generic
              <<0, 0>> \o [i \in 1..30 |-> (i * 5 + 1) % 256],            \* two leading zero bytes (73 decimal digits)
              <<2>> \o [i \in 1..30 |-> (i * 3 + 7) % 256] \o <<1>>,      \* looks like a public key with +01
              <<255>> \o [i \in 1..31 |-> 254],                          \* 78 decimal digits
              [i \in 1..32 |-> IF i % 3 = 0 THEN 97 + (i % 6) ELSE 48 + (i % 10)] >>   \* bytes that read as hex text

MkKey(c, priv, si, comp, hd) ==
    [priv |-> priv, secret |-> IF priv THEN Secrets[si] ELSE <<>>, x |-> ToyX(Secrets[si]), y |-> ToyY(Secrets[si]),
     compressed |-> comp, network |-> c[1], wt |-> c[2], ms |-> c[3], hd |-> hd,
     depth |-> IF hd THEN 255 ELSE 0,
     \* the key with the text-looking secret has text-looking chain data too: "0x1f", "12ab", 32 ASCII digits
     index |-> IF ~hd THEN <<0, 0, 0, 0>> ELSE IF si = 5 THEN <<48, 120, 49, 102>> ELSE <<128, 0, 1, 0>>,
     fp |-> IF ~hd THEN <<0, 0, 0, 0>> ELSE IF si = 5 THEN <<49, 50, 97, 98>> ELSE <<0, 7, 0, 9>>,
     chain |-> IF ~hd THEN Rep(0, 32) ELSE IF si = 5 THEN [i \in 1..32 |-> 48 + (i % 10)]
               ELSE <<0>> \o [i \in 1..31 |-> (i * 11) % 256]]

\* full variety (all secret classes, plain and HD keys) for the networks in MCPlain, one HD key shape elsewhere
Variety(n) == IF n \in MCPlain THEN ((1..Len(Secrets)) \X BOOLEAN) \ {<<2, FALSE>>, <<4, FALSE>>, <<5, FALSE>>} ELSE {<<1, TRUE>>}
MCKeys == UNION { {MkKey(c, priv, v[1], comp, v[2]) : priv \in BOOLEAN, comp \in BOOLEAN, v \in Variety(c[1])} :
                  c \in {d \in DefConfigs : d[1] \in MCNets} }
CoreHints == {NoHints, AllHints} \cup {[NoHints EXCEPT ![f] = TRUE] : f \in {"net", "priv", "comp", "wt", "ms"}}
                                \cup {[AllHints EXCEPT ![f] = FALSE] : f \in {"net", "priv", "comp", "wt", "ms"}}

(* ---------------- the reference importer ---------------- *)
HexVal(c) == IF c \in 48..57 THEN c - 48 ELSE IF c \in 97..102 THEN c - 87 ELSE IF c \in 65..70 THEN c - 55 ELSE 0 - 1
IsHex(s) == \A i \in 1..Len(s) : HexVal(s[i]) >= 0
UnHex(s) == [i \in 1..(Len(s) \div 2) |-> 16 * HexVal(s[2 * i - 1]) + HexVal(s[2 * i])]
IsDec(s) == \A i \in 1..Len(s) : s[i] \in 48..57

\* hint values: what the importer is told; "" / "N" = nothing
HintVals(k, h) == [net |-> IF h.net THEN k.network ELSE "", wt |-> IF h.wt THEN k.wt ELSE "",
                   ms |-> IF h.ms THEN (IF k.ms THEN "T" ELSE "F") ELSE "N",
                   comp |-> IF h.comp THEN (IF k.compressed THEN "T" ELSE "F") ELSE "N",
                   priv |-> "N"]
HintValsP(k, h, fmt) == [HintVals(k, h) EXCEPT !.priv = IF h.priv THEN (IF FmtPrivate(fmt) THEN "T" ELSE "F") ELSE "N"]

\* shape analysis: [kind, priv, secret, pub (SEC1 bytes or <<>>), x, y, comp ("T","F","N"), cands, ext, body]
NoParse == [kind |-> "none", priv |-> FALSE, secret |-> <<>>, x |-> <<>>, y |-> <<>>, comp |-> "N", cands |-> Configs,
            ext |-> FALSE, body |-> <<>>]
FromSecret(s, comp) == [NoParse EXCEPT !.kind = "secret", !.priv = TRUE, !.secret = s, !.x = ToyX(s), !.y = ToyY(s), !.comp = comp]
FromPub(b) == IF Len(b) = 33 THEN [NoParse EXCEPT !.kind = "pub", !.x = Tail(b), !.y = ToyLift(Tail(b)), !.comp = "T"]
              ELSE [NoParse EXCEPT !.kind = "pub", !.x = SubSeq(b, 2, 33), !.y = SubSeq(b, 34, 65), !.comp = "F"]
FromBlob(b, hp) ==
    IF Len(b) = 32 THEN FromSecret(b, "N")
    ELSE IF Len(b) = 33 /\ b[1] \in {2, 3} /\ hp # "T" THEN FromPub(b)
    ELSE IF Len(b) = 33 /\ b[33] = 1 /\ hp # "F" THEN FromSecret(SubSeq(b, 1, 32), "T")
    ELSE IF Len(b) = 65 /\ b[1] = 4 THEN FromPub(b)
    ELSE NoParse
Parse(r, hp) ==
    CASE r.t = "bytes" -> FromBlob(r.v, hp)
      [] r.t = "str" -> IF Len(r.v) \in {64, 66, 130} /\ IsHex(r.v) THEN FromBlob(UnHex(r.v), hp)
                        ELSE IF IsDec(r.v) /\ Len(r.v) \in 71..78
                             THEN FromSecret(PadBE(DecToBytes([i \in 1..Len(r.v) |-> r.v[i] - 48]), 32), "N")
                             ELSE NoParse
      [] r.t = "int" -> FromSecret(PadBE(r.v, 32), "N")
      [] r.t = "point" -> [NoParse EXCEPT !.kind = "pub", !.x = r.v, !.y = r.w]
      [] r.t = "b58c" ->
            IF Len(r.v) \in {33, 34} /\ r.v[1] \in WifVersions /\ (Len(r.v) = 34 => r.v[34] = 1)
            THEN [FromSecret(SubSeq(r.v, 2, 33), IF Len(r.v) = 34 THEN "T" ELSE "F")
                     EXCEPT !.kind = "wif", !.cands = {c \in Configs : c[1] \in WifCandidates(r.v[1])}]
            ELSE IF Len(r.v) = 78 /\ SubSeq(r.v, 1, 4) \in XPrvVersions /\ r.v[46] = 0
            THEN [FromSecret(SubSeq(r.v, 47, 78), "N")
                     EXCEPT !.kind = "xprv", !.cands = XCandidates(SubSeq(r.v, 1, 4), TRUE), !.ext = TRUE, !.body = SubSeq(r.v, 5, 45)]
            ELSE IF Len(r.v) = 78 /\ SubSeq(r.v, 1, 4) \in XPubVersions /\ r.v[46] \in {2, 3}
            THEN [FromPub(SubSeq(r.v, 46, 78))
                     EXCEPT !.kind = "xpub", !.cands = XCandidates(SubSeq(r.v, 1, 4), FALSE), !.ext = TRUE, !.body = SubSeq(r.v, 5, 45)]
            ELSE NoParse
      [] OTHER -> NoParse

Refused == [ok |-> FALSE, priv |-> FALSE, sec |-> <<>>, sec2 |-> <<>>, sec3 |-> <<>>, x |-> <<>>, y |-> <<>>, pub |-> <<>>,
            comp |-> FALSE, net |-> "", hd |-> FALSE, wt |-> "", ms |-> FALSE, depth |-> 0, index |-> <<>>, fp |-> <<>>,
            chain |-> <<>>, rewif |-> <<>>]

RefImport(r, hv) ==
    LET p  == Parse(r, hv.priv)
        cs == {c \in p.cands : /\ hv.net # "" => c[1] = hv.net
                               /\ hv.wt # "" => c[2] = hv.wt
                               /\ hv.ms # "N" => c[3] = (hv.ms = "T")}
    IN IF p.kind = "none" \/ cs = {} THEN Refused
       ELSE LET c    == CHOOSE c \in cs : TRUE
                comp == IF p.comp # "N" THEN p.comp = "T" ELSE IF hv.comp # "N" THEN hv.comp = "T" ELSE TRUE
                kk   == [priv |-> p.priv, secret |-> p.secret, x |-> p.x, y |-> p.y, compressed |-> comp,
                         network |-> c[1], wt |-> c[2], ms |-> c[3], hd |-> TRUE,
                         depth |-> IF p.ext THEN p.body[1] ELSE 0,
                         fp |-> IF p.ext THEN SubSeq(p.body, 2, 5) ELSE <<0, 0, 0, 0>>,
                         index |-> IF p.ext THEN SubSeq(p.body, 6, 9) ELSE <<0, 0, 0, 0>>,
                         chain |-> IF p.ext THEN SubSeq(p.body, 10, 41) ELSE Rep(0, 32)]
            IN [ok |-> TRUE, priv |-> kk.priv, sec |-> kk.secret, sec2 |-> kk.secret, sec3 |-> kk.secret, x |-> kk.x, y |-> kk.y,
                pub |-> SerP(kk, comp), comp |-> comp, net |-> kk.network, hd |-> TRUE, wt |-> kk.wt, ms |-> kk.ms,
                depth |-> kk.depth, index |-> kk.index, fp |-> kk.fp, chain |-> kk.chain,
                rewif |-> IF p.ext THEN XPayload(kk, kk.priv) ELSE <<>>]

(* ---------------- state machine: choose, export, import ---------------- *)
\* memo: the WIF payload a reference object remembers from an earlier wif() call (<<>>: none); nops: calls made so far
VARIABLES phase, k, fmt, h, repr, res, memo, nops
vars == <<phase, k, fmt, h, repr, res, memo, nops>>

Init == /\ phase = "key"
        /\ k \in MCKeys
        /\ fmt = "none"
        /\ h = NoHints
        /\ repr = Repr("none", <<>>, <<>>)
        /\ res = Refused
        /\ memo = <<>>
        /\ nops = 0

\* calls on the same object before the export (for one key shape per configuration): wif() fills the memo,
\* network_change moves the key to another network and leaves the memo alone
HistKey == k.hd /\ k.compressed /\ k.secret \in {<<>>, Secrets[1]} /\ k.x = ToyX(Secrets[1])
DoOp == /\ phase = "key" /\ HistKey /\ nops < MCMaxOps
        /\ \/ /\ k.priv
              /\ memo' = WifPayload(Apply(k, [op |-> "wif", n |-> ""]))
              /\ k' = Apply(k, [op |-> "wif", n |-> ""])
           \/ \E n \in MCTargets \ {k.network} :
                 /\ k' = Apply(k, [op |-> "network_change", n |-> n])
                 /\ memo' = memo
        /\ nops' = nops + 1
        /\ UNCHANGED <<phase, fmt, h, repr, res>>

\* the reference object's WIF export: the memo serves only if it was made for the version byte that is asked for now
MemoWif == IF memo # <<>> /\ memo[1] = WifVersion(k.network) THEN memo ELSE WifPayload(k)

Choose == /\ phase = "key"
          /\ phase' = "chosen"
          /\ fmt' \in {f \in (IF nops > 0 THEN {"wif", "xprv", "xpub", "hex"}
                            ELSE (CoreFmts \ {"bip38"}) \cup (IF k.network \in MCPlain THEN ConvFmts ELSE {})) : CanExport(k, f)}
          /\ h' \in (IF nops > 0 THEN {NoHints, AllHints}
                     ELSE IF k.network \in MCPlain /\ ~(fmt' \in ConvFmts) THEN HintSets ELSE MCHints)
          /\ UNCHANGED <<k, repr, res, memo, nops>>

DoExport == /\ phase = "chosen"
            /\ phase' = "exported"
            /\ repr' = IF fmt = "wif" THEN Repr("b58c", MemoWif, <<>>) ELSE Export(k, fmt)
            /\ UNCHANGED <<k, fmt, h, res, memo, nops>>
DoImport == /\ phase = "exported"
            /\ phase' = "imported"
            /\ res' = RefImport(repr, HintValsP(k, h, fmt))
            /\ UNCHANGED <<k, fmt, h, repr, memo, nops>>
Next == DoOp \/ Choose \/ DoExport \/ DoImport
Spec == Init /\ [][Next]_vars

(* ---------------- invariants ---------------- *)
\* binary fields are opaque: bytes that happen to read as text come back byte for byte (implied by RoundTrip for the key
\* with the text-looking secret and chain data; stated on its own for the fields of the extended formats)
BinaryFieldsOpaque == (phase = "imported" /\ fmt \in ExtFmts /\ res.ok) =>
                         res.fp = k.fp /\ res.chain = k.chain /\ res.index = k.index /\ (fmt = "xprv" => res.sec = k.secret)
ASSUME TextKeyPresent == \E kk \in MCKeys : {"fp:hex-digits", "chain:digits", "index:0x-prefix", "secret:hex-digits"} \subseteq
                                        FieldClasses(kk, {"fp", "chain", "index", "secret"})
\* every public key has both encodings, and they read back to the same point with the flag the encoding shows
ConversionIdentity == (phase = "imported" /\ fmt \in ConvFmts) =>
                         /\ res.ok /\ ~res.priv /\ res.x = k.x /\ res.y = k.y
                         /\ res.comp = (fmt \in {"pubhex_c", "pubbytes_c"})
\* a public-only object made by a route denotes the point of the key it was made from
RoutesKeepPoint == phase = "key" =>
                      \A rt \in {[r |-> "public", fmt |-> "", ep |-> ""]} \cup
                                 {[r |-> "import", fmt |-> f, ep |-> e] : f \in {"pubhex_c", "pubbytes_u", "point", "xpub"}, e \in {"key", "hd"}} :
                          LET o == Routed(k, rt) IN o.x = k.x /\ o.y = k.y /\ ~o.priv /\ o.secret = <<>>
\* an export shows the key's current attributes only: what the object remembers from earlier calls never shows through
\* (the memo is keyed by the version byte it was made for, and nothing else the WIF depends on can change)
ExportIsCurrent == phase \in {"exported", "imported"} => repr = Export(k, fmt)
\* observers leave the abstract key alone; network_change changes the network and nothing else
OpsEffect == phase = "key" =>
                /\ \A o \in ObserverOps : Apply(k, [op |-> o, n |-> ""]) = k
                /\ \A n \in MCTargets : Apply(k, [op |-> "network_change", n |-> n]) = [k EXCEPT !.network = n]
\* the reference importer (which never sees the key) meets the constraint; it refuses only unsupported decimal strings
RoundTrip == phase = "imported" =>
                /\ Judge(k, fmt, "hd", res, Constraint(k, fmt, "hd", h, {}), repr.v) = "ok"
                /\ (res.ok \/ (fmt = "dec" /\ ~DecSupported(k)))
\* without the is_private hint the ambiguous shape is read as a public key, with it as the private key
AmbiguityRule == (phase = "imported" /\ LooksPublic(k, fmt)) => (res.priv = h.priv)
\* self-describing formats: private / public and the format family are read off the representation alone
DetectExact == (phase \in {"exported", "imported"} /\ fmt \in SelfDescribing) =>
                  LET p == Parse(repr, "N") IN p.kind = fmt /\ p.priv = FmtPrivate(fmt)
TruthAllowed == phase = "chosen" => Cfg(k) \in Allowed(k, fmt, h)
HintsDecide  == (phase = "chosen" /\ h.net /\ h.wt /\ h.ms) => Allowed(k, fmt, h) = {Cfg(k)}
NoRefusalWhenTold == (phase = "chosen" /\ h.net /\ h.priv /\ h.wt) => (~MayRefuse(k, fmt, "hd", h) \/ (fmt = "dec" /\ ~DecSupported(k)))
\* SLIP-132: in the bitcoin families (and the library's test network) the version of a segwit extended key decides
\* witness type and multisig; every version decides private / public
SlipDecides == (phase = "chosen" /\ fmt \in ExtFmts /\ Family(k.network) \in {"btc", "tbtc", "blt"} /\ k.wt # "legacy") =>
                  \A c \in Allowed(k, fmt, NoHints) : c[2] = k.wt /\ c[3] = k.ms
ASSUME VersionsDisjoint == XPrvVersions \cap XPubVersions = {}
\* exported payloads have the protocol lengths; leading zero bytes of the secret survive every text form
Lengths == phase \in {"exported", "imported"} =>
              CASE fmt = "wif" -> Len(repr.v) = (IF k.compressed THEN 34 ELSE 33)
                [] fmt \in ExtFmts -> Len(repr.v) = 78
                [] fmt = "hex" -> Len(repr.v) = 64
                [] fmt = "hex01" -> Len(repr.v) = 66
                [] fmt = "pubhex" -> Len(repr.v) = (IF k.compressed THEN 66 ELSE 130)
                [] fmt = "pubhex_c" -> Len(repr.v) = 66
                [] fmt = "pubhex_u" -> Len(repr.v) = 130
                [] fmt = "pubbytes_c" -> Len(repr.v) = 33
                [] fmt = "pubbytes_u" -> Len(repr.v) = 65
                [] OTHER -> TRUE
=============================================================================
