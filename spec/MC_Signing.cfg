SPECIFICATION Spec
CONSTANTS
  MaxSteps = 3
INVARIANT VerdictConsistent
INVARIANT Complete
INVARIANT EmptyFails
PROPERTY SigningMonotone
CHECK_DEADLOCK FALSE
