------------------------------ MODULE MC_Bip38 ------------------------------
(***************************************************************************)
(* Bounded model of Bip38: the byte-level functions of the specification   *)
(* themselves (not an abstraction of them) run as a state machine          *)
(*   Encrypt(key, compression, network, passphrase)                        *)
(*   Generate / GenerateExplicit (intermediate code + new EC-multiplied    *)
(*       key from drawn / supplied entropy)                                *)
(*   DecryptAct(passphrase, network)                                       *)
(* with the primitives bound to toy interpretations that have exactly the  *)
(* laws the design relies on: AES decryption inverts encryption under the  *)
(* same key, k*(j*G) = (k*j mod n)*G, hashes and the KDF are functions.    *)
(* Base58, UTF-8, flag bytes, XOR, slicing, range checks are the real ones.*)
(* Invariants = the design-level statements of C15: RoundTrip (same        *)
(* passphrase up to normalisation: same key, compression flag, lot and     *)
(* sequence), WrongPassFails (an error, never another key), Fresh (no two  *)
(* drawing requests of one process yield the same entropy or token),       *)
(* TokenShape (6PR / 6PY / 6Pf.. / 6Pn.. prefixes of the BIP).             *)
(***************************************************************************)
EXTENDS Bip38, TLC

CONSTANTS Keys,       \* private keys (32-byte sequences)
          Nets,       \* network names
          PWs,        \* passphrases (code point sequences)
          Pool,       \* entropy values a request may draw (24-byte sequences)
          LotSeqs,    \* <<>> or <<lot, sequence>>
          MaxGen      \* generation requests per behaviour

VARIABLES cur, led, hist, last
vars == <<cur, led, hist, last>>

(* ------------------------- toy primitives -------------------------------- *)
TQ == 46337                                     \* prime, TQ^2 < 2^31: order of the toy group

\* toy hash: four differently weighted sums of the input; output byte i mixes two of them, so that any 4 consecutive
\* bytes (the address hash!) carry all four sums
RECURSIVE TSum(_, _, _)
TSum(x, i, k) == IF i > Len(x) THEN 0 ELSE (x[i] * (((i * (2 * k + 1) + k * k) % 251) + 1) + TSum(x, i + 1, k)) % 65521

ToyHashS(s, n, tag, len) == [i \in 1..n |-> (s[((i - 1) % 4) + 1] + (i \div 4) * s[(i % 4) + 1] + i * tag + 7 * len) % 256]
ToyHash(x, n, tag) == ToyHashS(<<TSum(x, 1, 0), TSum(x, 1, 1), TSum(x, 1, 2), TSum(x, 1, 3)>>, n, tag, Len(x))

RECURSIVE ScalarMod(_, _)
ScalarMod(s, acc) == IF s = <<>> THEN acc ELSE ScalarMod(Tail(s), (acc * 256 + s[1]) % TQ)

Scalar32(v) == Rep(0, 30) \o <<v \div 256, v % 256>>
ToyPoint(v) == IF v = 0 THEN <<>> ELSE Scalar32(v) \o Rep(0, 30) \o <<(v * 7) % 256, (v \div 3) % 256>>
PointVal(sec) == sec[32] * 256 + sec[33]      \* of a SEC1 point built by Sec(ToyPoint(v), _)

ToyNfc(cps) == IF cps = <<97, 776>> THEN <<228>> ELSE cps       \* a + combining diaeresis -> a-umlaut
PassKey(pw) == IF pw.text THEN Utf8(ToyNfc(pw.s)) ELSE pw.s      \* what two passphrases must share to be "the same"

ToyHas(F, q) == TRUE
ToyVal(F, q) ==
    CASE q.f = "nfc"       -> ToyNfc(q.a[1])
      [] q.f = "sha256d"   -> ToyHash(q.a[1], 32, 1)
      [] q.f = "hash160"   -> ToyHash(q.a[1], 20, 2)
      [] q.f = "scrypt"    -> ToyHash(q.a[1] \o <<255>> \o q.a[2] \o <<q.a[3][1] % 256, q.a[4][1], q.a[5][1]>>, q.a[6][1], 3)
      [] q.f = "aes256enc" -> [i \in 1..16 |-> (q.a[2][i] + q.a[1][i] + q.a[1][16 + i]) % 256]
      [] q.f = "aes256dec" -> [i \in 1..16 |-> (q.a[2][i] + 512 - q.a[1][i] - q.a[1][16 + i]) % 256]
      [] q.f = "ec_mul_g"  -> ToyPoint(ScalarMod(q.a[1], 0))
      [] q.f = "ec_mul"    -> ToyPoint((PointVal(q.a[1]) * ScalarMod(q.a[2], 0)) % TQ)
      [] q.f = "mulmod_n"  -> Scalar32((ScalarMod(q.a[1], 0) * ScalarMod(q.a[2], 0)) % TQ)

T == <<>>                                       \* the (unused) oracle table

(* ------------------------- model values ---------------------------------- *)
MCKeys == { Rep(0, 31) \o <<1>>, [i \in 1..32 |-> (i * 37 + 11) % 256], <<127>> \o Rep(255, 31) }
MCPool == { [i \in 1..24 |-> (i * 29 + 3) % 256], [i \in 1..24 |-> (i * 31 + 5) % 256] }
ExplicitEntropy == [i \in 1..24 |-> (i * 29 + 3) % 256]      \* the entropy a caller supplies (also drawable)
\* a-umlaut, its decomposed form, another letter, and the raw bytes of a-umlaut's UTF-8 (same passphrase as the first two)
MCPWs == { Txt(<<228>>), Txt(<<97, 776>>), Txt(<<98>>), Raw(<<195, 164>>) }
\* ... plus: a, empty, NUL + astral characters, the text "12" and the byte 0x12 (its hexadecimal reading: another passphrase),
\* the text "12" given as bytes (the same passphrase as the text)
MCPWsThorough == { Txt(<<228>>), Txt(<<97, 776>>), Txt(<<98>>), Raw(<<195, 164>>), Txt(<<97>>), Txt(<<>>),
                   Txt(<<120, 0, 66560, 128169>>), Txt(<<49, 50>>), Raw(<<18>>), Raw(<<49, 50>>) }
MCLotSeqs == { <<>>, <<100000, 1>> }
MCLotSeqsThorough == { <<>>, <<100000, 1>>, <<999999, 4095>>, <<524288, 0>> }

NoTok == [tok |-> <<>>, priv |-> <<>>, addr |-> <<>>, comp |-> FALSE, net |-> "bitcoin", pwn |-> <<>>, ec |-> FALSE,
          lotseq |-> <<>>]

Init == cur = NoTok /\ led = LedgerInit /\ hist = <<>> /\ last = [op |-> "none"]

\* (results are computed once, as elements of singleton sets: TLC does not cache LET definitions inside actions)
EncResult(priv, comp, net, pw) ==
    LET ver == AddrVersion[net]
        r   == EncryptNonEC(T, priv, comp, ver, pw, TRUE)
        a   == AddrOfPriv(T, priv, comp, ver)
    IN [ok  |-> r.st = "ok" /\ a.st = "ok",
        cur |-> [tok |-> r.val, priv |-> priv, addr |-> a.val, comp |-> comp, net |-> net, pwn |-> PassKey(pw),
                 ec |-> FALSE, lotseq |-> <<>>]]

Encrypt(priv, comp, net, pw) ==
    /\ cur = NoTok /\ hist = <<>> /\ last.op = "none"
    /\ \E g \in {EncResult(priv, comp, net, pw)} : g.ok /\ cur' = g.cur
    /\ last' = [op |-> "enc"]
    /\ UNCHANGED <<led, hist>>

\* one generation request: owner salt and seed come from the entropy e
GenResult(pw, ls, comp, net, e) ==
    LET inter == Intermediate(T, pw, ls, SubSeq(e, 1, IF ls = <<>> THEN 8 ELSE 4), TRUE)
        nw    == CreateNew(T, inter.val, comp, e, AddrVersion[net])
    IN IF inter.st # "ok" \/ nw.st # "ok" THEN [ok |-> FALSE]
       ELSE [ok  |-> TRUE, tok |-> nw.val.tok,
             cur |-> [tok |-> nw.val.tok, priv |-> <<>>, addr |-> nw.val.addr, comp |-> comp, net |-> net,
                      pwn |-> PassKey(pw), ec |-> TRUE, lotseq |-> ls]]

Gen(pw, ls, comp, net, e, explicit) ==
    /\ Len(hist) < MaxGen /\ last.op \in {"none", "gen"}
    /\ hist # <<>> => hist[1].par = <<pw, ls, comp, net>>          \* the same request, repeated
    /\ LET ev == [op |-> "new", explicit |-> explicit, arg |-> IF explicit THEN e ELSE <<>>, out |-> e]
       IN /\ GenSucc(led, ev) # {}
          /\ led' \in GenSucc(led, ev)
          /\ \E g \in {GenResult(pw, ls, comp, net, e)} :
                /\ g.ok
                /\ cur' = g.cur
                /\ hist' = Append(hist, [ev |-> ev, tok |-> g.tok, par |-> <<pw, ls, comp, net>>])
    /\ last' = [op |-> "gen"]

Generate(pw, ls, comp, net, e)         == Gen(pw, ls, comp, net, e, FALSE)
GenerateExplicit(pw, ls, comp, net, e) == e = ExplicitEntropy /\ Gen(pw, ls, comp, net, e, TRUE)

\* decryption attempts end a behaviour (they change nothing); tokens of the first request are the ones tried
DecryptAct(pw, net) ==
    /\ cur # NoTok /\ last.op \in {"enc", "gen"} /\ Len(hist) <= 1
    /\ last' = [op |-> "dec", pw |-> pw, net |-> net, r |-> Decrypt(T, cur.tok, pw, AddrVersion[net], TRUE)]
    /\ UNCHANGED <<cur, led, hist>>

Next == \/ \E priv \in Keys, comp \in BOOLEAN, net \in Nets, pw \in PWs : Encrypt(priv, comp, net, pw)
        \/ \E pw \in PWs, ls \in LotSeqs, comp \in BOOLEAN, net \in Nets, e \in Pool : Generate(pw, ls, comp, net, e)
        \/ \E pw \in PWs, ls \in LotSeqs, comp \in BOOLEAN, net \in Nets, e \in Pool : GenerateExplicit(pw, ls, comp, net, e)
        \/ \E pw \in PWs, net \in Nets : DecryptAct(pw, net)
Spec == Init /\ [][Next]_vars

(* ------------------------- invariants ------------------------------------ *)
SamePass == last.op = "dec" /\ PassKey(last.pw) = cur.pwn /\ AddrVersion[last.net] = AddrVersion[cur.net]

RoundTrip == SamePass =>
    /\ last.r.st = "ok"
    /\ last.r.val.comp = cur.comp /\ last.r.val.ec = cur.ec
    /\ cur.priv # <<>> => last.r.val.priv = cur.priv
    /\ AddrOfPriv(T, last.r.val.priv, cur.comp, AddrVersion[cur.net]).val = cur.addr
    /\ cur.lotseq # <<>> => last.r.val.lot = cur.lotseq[1] /\ last.r.val.seq = cur.lotseq[2]
    /\ cur.ec => \E i \in 1..Len(hist) : hist[i].tok = cur.tok /\ hist[i].ev.out = last.r.val.seed

WrongPassFails == (last.op = "dec" /\ ~SamePass) => last.r.st = "err"

Fresh == \A i, j \in 1..Len(hist) :
            (i < j /\ ~hist[i].ev.explicit /\ ~hist[j].ev.explicit)
                => hist[i].ev.out # hist[j].ev.out /\ hist[i].tok # hist[j].tok

ExplicitHonoured == \A i, j \in 1..Len(hist) :
            (hist[i].ev.explicit /\ hist[i].ev.out = hist[j].ev.out) => hist[i].tok = hist[j].tok

TokenShape == cur # NoTok =>
    /\ Len(cur.tok) = 58 /\ cur.tok[1] = 54 /\ cur.tok[2] = 80                        \* "6P"
    /\ ~cur.ec => cur.tok[3] = (IF cur.comp THEN 89 ELSE 82)                           \* "Y" / "R"
    /\ cur.ec => cur.tok[3] \in (IF cur.comp THEN {110, 111} ELSE {102, 103})          \* "n","o" / "f","g"
=============================================================================
