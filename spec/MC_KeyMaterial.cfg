SPECIFICATION Spec
CONSTANTS
  DeriveScalars = {1, 2, 78}
  YSamples = {0, 1, 22, 45, 66, 67, 200}
INVARIANT Total
INVARIANT ScalarRule
INVARIANT PubRule
INVARIANT SamePoint
INVARIANT AddrRule
INVARIANT NestedRule
INVARIANT NoStandardForm
INVARIANT CompressionMatters
CHECK_DEADLOCK FALSE
