---------------------------- MODULE ServiceCache ----------------------------
(***************************************************************************)
(* The caching layer in front of the provider fail-over                    *)
(* (Service.gettransaction / getrawtransaction / getblock / estimatefee    *)
(* with the Cache class).  The abstract state is what providers have answered so   *)
(* far; a query may be answered from the cache only with such an answer,   *)
(* and otherwise is the answer of the fail-over loop (ServiceFailover) or  *)
(* a failure.  Successor-set style: Succ(s, e) is the set of states the    *)
(* specification allows after event e (query + what was observed); the     *)
(* empty set means the event is not allowed.  The same operator drives the *)
(* model checker (MC_ServiceCache) and the trace validation.               *)
(*                                                                         *)
(* Transactions are immutable (confirmed), identified by abstract ids;     *)
(* block transactions are "b0".."b<N-1>"; a page (page, limit) of the      *)
(* block is the index range [(page-1)*limit, page*limit) \cap [0, N).      *)
(***************************************************************************)
EXTENDS Naturals, Sequences, FiniteSets, TLC

CONSTANTS Txs,        \* ids of stand-alone transactions
          NBlock      \* number of transactions in the one block

BlockTx(i) == <<"b", i>>
PageIdx(page, limit) == {i \in 0..(NBlock - 1) : i >= (page - 1) * limit /\ i < page * limit}
\* the page as a provider answers it: transactions in index order
RECURSIVE PageSeqFrom(_, _)
PageSeqFrom(i, to) == IF i >= to \/ i >= NBlock THEN <<>> ELSE <<BlockTx(i)>> \o PageSeqFrom(i + 1, to)
PageSeq(page, limit) == PageSeqFrom((page - 1) * limit, page * limit)

InitState == [known |-> {},         \* transactions some provider has answered in full (cacheable)
              addrs |-> {},          \* addresses whose complete history some provider has answered
              utx |-> {},            \* addresses whose complete unspent-output list some provider has answered
              bal |-> {},            \* addresses whose balance some provider has answered (directly or as a complete list)
              spent |-> {},          \* outputs <<t, n>> whose spent flag some provider has answered
              count |-> FALSE,       \* the block count has been answered
              blockKnown |-> FALSE,  \* block header answered
              alone |-> {},          \* transactions answered by a query for that single transaction (their place in a block is not known to the cache)
              fee |-> <<>>]          \* fee group -> value answered and stored  (function with domain \subseteq groups)

HasFee(s, g) == g \in DOMAIN s.fee
\* name of a transaction in isspent queries, and its outputs (transactions of this model have at most two)
TN(t) == t[1] \o ToString(t[2])
TxOutputs(t) == {<<TN(t), 0>>, <<TN(t), 1>>}

\* e = [op, prov ("ok" | "fail"), ok (a value was returned), ret (the value), ...]
Succ(s, e) ==
  CASE e.op = "tx" ->        \* gettransaction(e.t)
         IF ~e.ok THEN (IF e.prov = "fail" THEN {s} ELSE {})
         ELSE IF e.ret # e.t THEN {}                                   \* someone else's / corrupted transaction
         \* storing is the cache's choice; a transaction answered in full carries the spent flags of its outputs
         ELSE IF e.prov = "ok" THEN {[s EXCEPT !.known = @ \cup {e.t}, !.alone = @ \cup {e.t}, !.spent = @ \cup TxOutputs(e.t)],
                                    [s EXCEPT !.known = @ \cup {e.t}, !.alone = @ \cup {e.t}], s}
         ELSE IF e.t \in s.known THEN {s} ELSE {}                      \* nobody answered now or earlier: fabricated
    [] e.op = "raw" ->       \* getrawtransaction(e.t)
         IF ~e.ok THEN (IF e.prov = "fail" THEN {s} ELSE {})
         ELSE IF e.ret # e.t THEN {}
         ELSE IF e.prov = "ok" \/ e.t \in s.known THEN {s} ELSE {}
    [] e.op = "block" ->     \* getblock(height, parse, page, limit): ret = sequence of block transaction ids
         IF ~e.ok THEN (IF e.prov = "fail" THEN {s} ELSE {})
         ELSE IF e.ret # PageSeq(e.page, e.limit) THEN {}              \* not the page a provider answered / stored
         ELSE IF e.prov = "ok"
              THEN {[s EXCEPT !.blockKnown = TRUE,
                              !.known = IF e.parse THEN @ \cup {BlockTx(i) : i \in PageIdx(e.page, e.limit)} ELSE @], s,
                    [s EXCEPT !.blockKnown = TRUE]}
         ELSE IF s.blockKnown /\ \A i \in PageIdx(e.page, e.limit) : BlockTx(i) \in s.known THEN {s} ELSE {}
    [] e.op = "txs" ->       \* gettransactions(address e.a): e.full = the complete history a provider answers (old to new)
         IF ~e.ok THEN (IF e.prov = "fail" THEN {s} ELSE {})
         ELSE IF e.ret # e.full THEN {}                                \* a partial or foreign history is not an answer
         ELSE IF e.prov = "ok"
              \* (e.after > 0: only the transactions after a given one were asked for - e.full is that suffix, and the answer
              \* does not make the address's history known in full)
              THEN IF e.after = 0
                   THEN {[s EXCEPT !.known = @ \cup {e.full[i] : i \in 1..Len(e.full)}, !.addrs = @ \cup {e.a}], s,
                         [s EXCEPT !.addrs = @ \cup {e.a}]}
                   ELSE {[s EXCEPT !.known = @ \cup {e.full[i] : i \in 1..Len(e.full)}], s}
         ELSE IF e.a \in s.addrs THEN {s} ELSE {}                      \* only a history answered in full before
    \* The world of a recorded history is static: the truth of every query is a field of the event (e.full, e.val,
    \* e.truth) and an answer is allowed only if it equals the truth AND a provider has answered it, now or before.
    [] e.op = "utxos" ->     \* getutxos(address e.a): e.full = the complete list a provider answers (old to new)
         IF ~e.ok THEN (IF e.prov = "fail" THEN {s} ELSE {})
         ELSE IF e.ret # e.full THEN {}                                \* missing, repeated, foreign or spent outputs
         ELSE IF e.prov = "ok" THEN {[s EXCEPT !.utx = @ \cup {e.a}, !.bal = @ \cup {e.a}], [s EXCEPT !.utx = @ \cup {e.a}], s}
         ELSE IF e.a \in s.utx THEN {s} ELSE {}
    [] e.op = "balance" ->   \* getbalance(list of addresses e.as): e.val = sum of their balances
         IF ~e.ok THEN (IF e.prov = "fail" THEN {s} ELSE {})
         ELSE IF e.ret # e.val THEN {}
         ELSE IF e.prov = "ok" THEN {[s EXCEPT !.bal = @ \cup {e.as[i] : i \in 1..Len(e.as)}], s}
         ELSE IF \A i \in 1..Len(e.as) : e.as[i] \in s.bal \/ e.as[i] \in s.addrs THEN {s} ELSE {}
    [] e.op = "isspent" ->   \* isspent(transaction e.t, output e.n): e.truth
         IF ~e.ok THEN (IF e.prov = "fail" THEN {s} ELSE {})
         ELSE IF e.ret # e.truth THEN {}
         ELSE IF e.prov = "ok" THEN {[s EXCEPT !.spent = @ \cup {<<e.t, e.n>>}], s}
         ELSE IF <<e.t, e.n>> \in s.spent THEN {s} ELSE {}
    [] e.op = "count" ->     \* blockcount(): e.val
         IF ~e.ok THEN (IF e.prov = "fail" THEN {s} ELSE {})
         ELSE IF e.ret # e.val THEN {}
         ELSE IF e.prov = "ok" THEN {[s EXCEPT !.count = TRUE], s}
         ELSE IF s.count THEN {s} ELSE {}
    [] e.op = "fee" ->       \* estimatefee(group): e.pval = what the provider would answer now
         IF ~e.ok THEN (IF e.prov = "fail" THEN {s} ELSE {})
         ELSE IF HasFee(s, e.g) /\ e.ret = s.fee[e.g] THEN {s}         \* served from the cache: equals the stored value
         ELSE IF e.prov = "ok" /\ e.ret = e.pval
              THEN {[s EXCEPT !.fee = [x \in (DOMAIN @) \cup {e.g} |-> IF x = e.g THEN e.pval ELSE @[x]]], s}
         ELSE {}
    [] OTHER -> {}

\* named deviation (see ServiceFailover!DevOnFalse): the network default fee is returned and cached on failure
SuccDevFeeDefault(s, e) ==
    IF e.op = "fee" /\ e.prov = "fail" /\ e.ret = e.default /\ ~HasFee(s, e.g)
    THEN {[s EXCEPT !.fee = [x \in (DOMAIN @) \cup {e.g} |-> IF x = e.g THEN e.default ELSE @[x]]]}
    ELSE {}
\* named deviations of ServiceFailover!DevOnFalse seen through the cache layer: the failure of the fail-over loop is
\* turned into the answer "0" / "unspent"
\* named deviation: the cache keeps ONE order number per transaction and uses it both as position in the block and as
\* position in an address's history, filled in as transactions happen to arrive; several transactions of one address in the
\* SAME block can therefore come out in another order than the provider's, and "the transactions after t" for a t inside
\* that block is answered with another part of the block (e.sameblock: the address's transactions in the block of t)
SetOf(q) == {q[i] : i \in 1..Len(q)}
SuccDevAfterInsideBlock(s, e) ==
    IF /\ e.op = "txs" /\ e.ok /\ e.after > 0 /\ e.ret # e.full /\ "sameblock" \in DOMAIN e
       /\ ((SetOf(e.ret) \ SetOf(e.full)) \cup (SetOf(e.full) \ SetOf(e.ret))) \subseteq SetOf(e.sameblock)
       /\ (SetOf(e.ret) \cup SetOf(e.full)) \subseteq s.known \cup SetOf(e.full)
       \* the unchanged tree gets the order wrong only where a transaction of that block came into the cache on its own
       /\ SetOf(e.sameblock) \cap s.alone # {}
    THEN {s} ELSE {}
SuccDevBalanceZero(s, e) == IF e.op = "balance" /\ e.prov = "fail" /\ e.ok /\ e.ret = 0 THEN {s} ELSE {}
SuccDevIsSpentFalse(s, e) == IF e.op = "isspent" /\ e.prov = "fail" /\ e.ok /\ e.ret = FALSE THEN {s} ELSE {}
=============================================================================
