SPECIFICATION Spec
CONSTANTS
  MaxSteps = 4
INVARIANT VerdictConsistent
INVARIANT Complete
INVARIANT EmptyFails
PROPERTY SigningMonotone
CHECK_DEADLOCK FALSE
