SPECIFICATION Spec
INVARIANT TableWellFormed
INVARIANT NamesUnique
INVARIANT ByValueExact
INVARIANT SearchSound
INVARIANT SearchComplete
INVARIANT SearchLimitedIsUnambiguous
INVARIANT WifPrefixRoundTrip
INVARIANT EveryNetworkHasLegacyVersions
CHECK_DEADLOCK FALSE
