--------------------------- MODULE MC_BlockReaders ---------------------------
EXTENDS BlockReaders, TLC
CONSTANTS N, MaxSteps
VARIABLES parsed, listed, steps
vars == <<parsed, listed, steps>>
Actions == {[op |-> "one", limit |-> 0], [op |-> "dict", limit |-> 0], [op |-> "serialize", limit |-> 0]}
           \cup {[op |-> "many", limit |-> l] : l \in 0..2}
Init == parsed \in 0..N /\ listed = Range(1, parsed) /\ steps = 0      \* parse-time limit k consumes k transactions
Next == /\ steps < MaxSteps
        /\ \E a \in Actions : LET r == Act(N, parsed, a) IN
              /\ r.ok
              /\ parsed' = r.parsed
              /\ listed' = IF a.op \in {"one", "many"} THEN listed \o r.out ELSE listed
              /\ steps' = steps + 1
Spec == Init /\ [][Next]_vars
\* the block's transaction list is always the consumed prefix, in block order, without repeats
ListedIsPrefix == listed = Range(1, parsed)
Monotone == [][parsed' >= parsed]_vars
DictDoesNotConsume == [][\A a \in Actions : a.op = "dict" => Act(N, parsed, a).parsed = parsed]_vars
=============================================================================
