SPECIFICATION Spec
CONSTANTS
  MaxLen = 3
  Deviations = {}
INVARIANT TypeOK
INVARIANT NoLeak
INVARIANT PublicViewsClean
INVARIANT PrivateViewsListed
PROPERTY PublicAbsorbing
CHECK_DEADLOCK FALSE
