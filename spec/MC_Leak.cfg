SPECIFICATION Spec
CONSTANTS
  MaxLen = 3
  Deviations = {}
INVARIANT TypeOK
INVARIANT NoLeak
INVARIANT PublicViewsClean
INVARIANT PrivateViewsListed
PROPERTY PublicAbsorbing
PROPERTY PublicRequestedIsPublic
CHECK_DEADLOCK FALSE
