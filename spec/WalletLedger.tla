---------------------------- MODULE WalletLedger ----------------------------
(***************************************************************************)
(* The ledger of an HD / single-key / multisig wallet (C07, C08).          *)
(*                                                                         *)
(* State s:                                                                *)
(*   coins : set of [t, n, v, key, conf, spent]   outputs paying keys of   *)
(*           this wallet (t: transaction number, n: output index, v:       *)
(*           value, key: key id, conf: confirmations)                      *)
(*   txs   : set of [t, ins (set of <<t, n>>)]    transactions stored in   *)
(*           the wallet database together with the outpoints they spend    *)
(*   keys  : set of [id, change, acct]            keys of the wallet       *)
(* Reported quantities are *derived*: Balance, Utxos, KeyBalance.          *)
(*                                                                         *)
(* Successor-set style: Succ(s, e) is the set of states allowed after      *)
(* event e (an API call with its arguments and everything it returned);    *)
(* {} means the specification does not allow what was returned, and        *)
(* Why(s, e) names the violated clause.  The creation of a transaction is  *)
(* nondeterministic in the choice of inputs, number and size of change     *)
(* outputs and fee within the stated rules: the event carries the choice   *)
(* the implementation made and the rules are checked on it.                *)
(***************************************************************************)
EXTENDS Naturals, Integers, Sequences, FiniteSets

Coin(s, t, n) == {c \in s.coins : c.t = t /\ c.n = n}
Unspent(s) == {c \in s.coins : ~c.spent}
RECURSIVE SumV(_)
SumV(S) == IF S = {} THEN 0 ELSE LET c == CHOOSE x \in S : TRUE IN c.v + SumV(S \ {c})
Balance(s) == SumV(Unspent(s))
KeyBalance(s, k) == SumV({c \in Unspent(s) : c.key = k})
SpentInDb(s, t, n) == \E x \in s.txs : <<t, n>> \in x.ins
RECURSIVE SumSeq(_, _)
SumSeq(q, i) == IF i > Len(q) THEN 0 ELSE q[i].v + SumSeq(q, i + 1)

InitS == [coins |-> {}, txs |-> {}, keys |-> {}]
\* accounts: a key belongs to one account (keys: [id, change, acct]); \* the per-account quantities a wallet reports are derived the same way as the totals
AcctOf(s, kid) == LET K == {k \in s.keys : k.id = kid} IN IF K = {} THEN 0 ELSE (CHOOSE k \in K : TRUE).acct
UnspentA(s, a) == {c \in Unspent(s) : AcctOf(s, c.key) = a}
BalanceA(s, a) == SumV(UnspentA(s, a))


\* ---- receiving: one reported unspent output (utxo_add / one element of utxos_update)
AddReported(s, r) ==
    LET old == Coin(s, r.t, r.n)
        sp == SpentInDb(s, r.t, r.n) IN
    \* confirmations belong to the transaction: every known output of transaction r.t takes the reported count
    [s EXCEPT !.coins = {[c EXCEPT !.conf = IF c.t = r.t THEN r.conf ELSE @] : c \in (@ \ old)}
                         \cup {[t |-> r.t, n |-> r.n, v |-> r.v, key |-> r.key, conf |-> r.conf, spent |-> sp]},
              \* ... also a transaction the wallet stored itself (its change output reported as confirmed)
              !.txs = {IF y.t = r.t THEN [y EXCEPT !.conf = r.conf] ELSE y : y \in @}]
RECURSIVE AddAll(_, _, _)
AddAll(s, rep, i) == IF i > Len(rep) THEN s ELSE AddAll(AddReported(s, rep[i]), rep, i + 1)
\* a full update: the report is the truth - everything not reported is spent, and an output the wallet has itself
\* spent in a stored transaction stays spent even if the report still lists it
UtxosUpdate(s, rep, rescan) ==
    AddAll(IF rescan THEN [s EXCEPT !.coins = {[c EXCEPT !.spent = TRUE] : c \in @}] ELSE s, rep, 1)

\* a full update asked for one account touches the outputs of that account only
UtxosUpdateA(s, rep, rescan, a) ==
    AddAll(IF rescan THEN [s EXCEPT !.coins = {IF AcctOf(s, c.key) = a THEN [c EXCEPT !.spent = TRUE] ELSE c : c \in @}] ELSE s, rep, 1)

\* ---- receiving whole transactions (transactions_update: what the service layer hands to the wallet).
\* r = [t, conf, ins: Seq([t, n]), outs: Seq([n, v, key])] - outs lists the outputs paying keys of this wallet.
\* The outputs it spends are spent (whoever made the transaction), its outputs to own keys are coins with its
\* confirmations; a transaction the wallet already stores (its own, now mined) only has its confirmations refreshed.
ApplyTx(s, r) ==
    LET inset == {<<r.ins[i].t, r.ins[i].n>> : i \in 1..Len(r.ins)}
        s1 == [s EXCEPT !.txs = {y \in @ : y.t # r.t} \cup {[t |-> r.t, ins |-> inset, conf |-> r.conf]}]
        marked == {IF <<c.t, c.n>> \in inset THEN [c EXCEPT !.spent = TRUE] ELSE c : c \in s.coins}
        Listed(c) == c.t = r.t /\ \E i \in 1..Len(r.outs) : r.outs[i].n = c.n
        news == {[t |-> r.t, n |-> r.outs[i].n, v |-> r.outs[i].v, key |-> r.outs[i].key, conf |-> r.conf,
                  spent |-> SpentInDb(s1, r.t, r.outs[i].n) \/ \E c \in marked : c.t = r.t /\ c.n = r.outs[i].n /\ c.spent]
                 : i \in 1..Len(r.outs)}
        kept == {[c EXCEPT !.conf = IF c.t = r.t THEN r.conf ELSE @] : c \in {d \in marked : ~Listed(d)}}
    IN [s1 EXCEPT !.coins = kept \cup news]
RECURSIVE TxsUpdateFrom(_, _, _)
TxsUpdateFrom(s, rep, i) == IF i > Len(rep) THEN s ELSE TxsUpdateFrom(ApplyTx(s, rep[i]), rep, i + 1)
TxsUpdate(s, rep) == TxsUpdateFrom(s, rep, 1)
\* a successful update also refreshes the confirmations of every transaction already known as confirmed
\* (confs: sequence of [t, conf], the chain as it is now)
Refresh(s, confs) ==
    [s EXCEPT !.coins = {IF c.conf > 0 /\ \E i \in 1..Len(confs) : confs[i].t = c.t
                         THEN [c EXCEPT !.conf = confs[CHOOSE i \in 1..Len(confs) : confs[i].t = c.t].conf] ELSE c : c \in @},
              !.txs = {IF y.conf > 0 /\ \E i \in 1..Len(confs) : confs[i].t = y.t
                       THEN [y EXCEPT !.conf = confs[CHOOSE i \in 1..Len(confs) : confs[i].t = y.t].conf] ELSE y : y \in @}]

\* another wallet holding the same keys in the same database broadcasts a transaction: the outputs it spends are spent for
\* this wallet too, but the transaction is not one this wallet stores (a later full report may list them again)
MarkSpent(s, outpoints) == [s EXCEPT !.coins = {IF <<c.t, c.n>> \in outpoints THEN [c EXCEPT !.spent = TRUE] ELSE c : c \in @}]

\* ---- creating a transaction.  q: the request, x: the transaction returned
\* q = [recips: Seq([id, v]), fee (explicit, or -1), minconf, inkeys (set of key ids, {} = any), sweep: BOOLEAN,
\*      feemin, feemax, nexplicit, explicit (set of <<t, n>>), above, acct, named]
\* x = [ins: Seq([t, n, v]), outs: Seq([v, key (own key id or 0), rid (index into recips or 0)]), fee, vsize]
\* (the property asks for unspent outputs "of this wallet": an input drawn from another account of the same wallet - as
\* bumpfee does when it adds an input - is allowed; q.acct only says which account the request named)
Spendable(s, q) == {c \in Unspent(s) : c.conf >= q.minconf /\ (q.inkeys = {} \/ c.key \in q.inkeys)}
ReqTotal(q) == SumSeq(q.recips, 1)
InsDistinct(x) == \A i, j \in 1..Len(x.ins) : i # j => <<x.ins[i].t, x.ins[i].n>> # <<x.ins[j].t, x.ins[j].n>>
InputOK(s, q, in) == \E c \in Spendable(s, q) : c.t = in.t /\ c.n = in.n /\ c.v = in.v
\* explicit input list (q.nexplicit > 0, q.explicit: set of <<t, n>>): the transaction spends exactly the listed outpoints;
\* they are subject to the same rules (distinct, unspent, of this wallet) - only min_confirms is documented as ignored
OutPts(x) == {<<x.ins[i].t, x.ins[i].n>> : i \in 1..Len(x.ins)}
TxWhyG(s, q, x, InOK(_), maxtol, mintol) ==
    IF Len(x.ins) = 0 THEN "no-inputs"
    ELSE IF ~InsDistinct(x) THEN "input-used-twice"
    ELSE IF q.nexplicit > 0 /\ OutPts(x) # q.explicit THEN "inputs-differ-from-the-explicit-list"
    ELSE IF \E i \in 1..Len(x.ins) : ~InOK(x.ins[i]) THEN "input-not-an-unspent-confirmed-output-of-this-wallet"
    ELSE IF \E i \in 1..Len(x.outs) : x.outs[i].v < 0 THEN "negative-output"
    ELSE IF x.fee < 0 THEN "negative-fee"
    ELSE IF SumSeq(x.ins, 1) # SumSeq(x.outs, 1) + x.fee THEN "conservation"
    ELSE IF \E r \in 1..Len(q.recips) : Cardinality({i \in 1..Len(x.outs) : x.outs[i].rid = r}) # 1 THEN "recipient-missing-or-repeated"
    ELSE IF \E i \in 1..Len(x.outs) : x.outs[i].rid # 0 /\ q.recips[x.outs[i].rid].v > 0 /\ x.outs[i].v # q.recips[x.outs[i].rid].v THEN "recipient-amount"
    ELSE IF \E i \in 1..Len(x.outs) : x.outs[i].rid = 0 /\ ~(\E k \in s.keys : k.id = x.outs[i].key /\ k.change = 1)
         THEN "other-output-not-a-change-address-of-this-wallet"
    ELSE IF q.fee >= 0 /\ ~q.sweep /\ x.fee < q.fee THEN "fee-below-requested"
    \* a fee bump / replacement (q.above = fee of the transaction replaced) pays more than what it replaces
    ELSE IF q.above >= 0 /\ x.fee <= q.above THEN "bumped-fee-not-higher"
    \* fee rate limits (per 1000 vbytes), with 3% tolerance for the difference between estimated and final size;
    \* q.feemin / q.feemax = 0: limit not checked (value outside this model's integer range)
    ELSE IF x.vsize > 0 /\ q.feemin > 0 /\ x.fee < ((q.feemin \div 1000) * x.vsize * mintol + 99) \div 100 THEN "fee-rate-below-network-minimum"
    ELSE IF x.vsize > 0 /\ q.feemax > 0 /\ x.fee > ((q.feemax \div 1000) * x.vsize * maxtol) \div 100 THEN "fee-rate-above-network-maximum"
    ELSE "ok"
TxWhy(s, q, x) == TxWhyG(s, q, x, LAMBDA in : InputOK(s, q, in), 103, 97)
\* named deviations
\*   "explicit-input-already-spent": an explicitly listed outpoint is taken without looking at the ledger's spent flag (an
\*      output of this wallet with that value, spent by a stored transaction of this wallet or by a report)
\*   "fee-limit-on-estimated-size": the upper fee-rate limit is enforced on the size estimated before signing, which
\*      for witness inputs is up to a third larger than the final virtual size - a fee up to 35% above the limit passes
\*   "named-fee-computed-before-the-inputs-are-known": a fee asked for by name ('low', 'normal', 'high'; q.named) is the
\*      provider's rate times the size estimated BEFORE the inputs are chosen; with several inputs, multisig inputs or a
\*      random number of change outputs the rate actually paid falls below the network minimum
KnownCoin(s, in) == \E c \in s.coins : c.t = in.t /\ c.n = in.n /\ c.v = in.v
\* the fewest named deviations that explain the transaction: e \in {0,1} explicit inputs taken without the spent flag,
\* m \in {0,1} upper limit on the estimated size, n \in {0,1} named fee not held to the minimum rate
TxWhyDev(s, q, x, e, m, n) ==
    TxWhyG(s, q, x, LAMBDA in : IF e = 1 THEN KnownCoin(s, in) ELSE InputOK(s, q, in),
           IF m = 1 THEN 135 ELSE 103, IF n = 1 THEN 0 ELSE 97)
DevName(e, m, n) ==
    LET a == IF e = 1 THEN <<"explicit-input-already-spent">> ELSE <<>>
        b == IF m = 1 THEN <<"fee-limit-on-estimated-size">> ELSE <<>>
        c == IF n = 1 THEN <<"named-fee-computed-before-the-inputs-are-known">> ELSE <<>>
        l == a \o b \o c
    IN IF Len(l) = 1 THEN l[1] ELSE IF Len(l) = 2 THEN l[1] \o "+" \o l[2] ELSE l[1] \o "+" \o l[2] \o "+" \o l[3]
TxDev(s, q, x) ==
    IF TxWhy(s, q, x) = "ok" THEN ""
    ELSE LET C == {c \in {0, 1} \X {0, 1} \X {0, 1} : /\ c # <<0, 0, 0>>
                                                      /\ (c[1] = 1 => q.nexplicit > 0) /\ (c[3] = 1 => q.named)
                                                      /\ TxWhyDev(s, q, x, c[1], c[2], c[3]) = "ok"}
         IN IF C = {} THEN ""
            ELSE LET best == CHOOSE c \in C : \A d \in C : c[1] + c[2] + c[3] < d[1] + d[2] + d[3]
                                                             \/ (c[1] + c[2] + c[3] = d[1] + d[2] + d[3] /\ c[1] * 4 + c[2] * 2 + c[3] >= d[1] * 4 + d[2] * 2 + d[3])
                 IN DevName(best[1], best[2], best[3])
\* (with an explicit input list: the listed outputs; whether they may be spent at all is judged by TxWhy)
Pool(s, q) == IF q.nexplicit > 0 THEN {c \in s.coins : <<c.t, c.n>> \in q.explicit} ELSE Spendable(s, q)
Insufficient(s, q) == SumV(Pool(s, q)) < ReqTotal(q) + (IF q.fee > 0 THEN q.fee ELSE 0)

\* ---- effect of broadcasting / storing a transaction: inputs spent, outputs to own keys become (unconfirmed) coins
Broadcast(s, x, tnum) ==
    [s EXCEPT !.coins = {IF \E i \in 1..Len(x.ins) : x.ins[i].t = c.t /\ x.ins[i].n = c.n THEN [c EXCEPT !.spent = TRUE] ELSE c : c \in @}
                          \cup {[t |-> tnum, n |-> i - 1, v |-> x.outs[i].v, key |-> x.outs[i].key, conf |-> 0, spent |-> FALSE]
                                : i \in {j \in 1..Len(x.outs) : x.outs[j].key # 0}},
              !.txs = @ \cup {[t |-> tnum, ins |-> {<<x.ins[i].t, x.ins[i].n>> : i \in 1..Len(x.ins)}, conf |-> 0]}]
\* deleting a transaction from the wallet database: its outputs disappear; if it is a transaction the wallet stored with
\* its inputs (a sent transaction), the outputs it spent are unspent again.  Deleting a funding transaction leaves the
\* stored transactions that spent its outputs in place: such an output, reported again, is still spent (AddReported).
Delete(s, tnum) ==
    IF \E y \in s.txs : y.t = tnum
    THEN LET x == CHOOSE y \in s.txs : y.t = tnum IN
         [s EXCEPT !.coins = {IF <<c.t, c.n>> \in x.ins THEN [c EXCEPT !.spent = FALSE] ELSE c : c \in {d \in @ : d.t # tnum}},
                   !.txs = @ \ {x}]
    ELSE [s EXCEPT !.coins = {d \in @ : d.t # tnum}]
\* pushing a transaction again that the wallet stores already: what the wallet has learnt about the transaction itself -
\* its confirmations - stays, and so does every other transaction's output.  Its own outputs are written again as the
\* object knows them (store(): "it stays spent" if a stored transaction spends it, else the source's knowledge - unspent
\* for a transaction made by this wallet).  Pushing one the wallet does not store (any more) is a broadcast.
Resend(s, x, tnum) ==
    IF \E y \in s.txs : y.t = tnum
    THEN [s EXCEPT !.coins = {IF c.t = tnum THEN [c EXCEPT !.spent = SpentInDb(s, tnum, c.n)] ELSE c : c \in @}]
    ELSE Broadcast(s, x, tnum)
\* transactions_remove_unconfirmed(): "removes all unconfirmed transactions from this wallet and updates related
\* transactions / utxos" - every transaction known with 0 confirmations is deleted (Delete), received or sent
Unconfirmed(s) == {y.t : y \in {z \in s.txs : z.conf = 0}} \cup {c.t : c \in {d \in s.coins : d.conf = 0}}
RECURSIVE DeleteAll(_, _)
DeleteAll(s, T) == IF T = {} THEN s ELSE LET t == CHOOSE x \in T : \A y \in T : x <= y IN DeleteAll(Delete(s, t), T \ {t})
RemoveUnconfirmed(s) == DeleteAll(s, Unconfirmed(s))
=============================================================================
