SPECIFICATION Spec
CONSTANTS
  NumBound = 70000
  MaxItems = 3
  ItemDomain <- MCItems
INVARIANT CSRoundTrip
INVARIANT CSShortest
INVARIANT CSTrailing
INVARIANT NumRoundTrip
INVARIANT ScriptPrefix
INVARIANT ScriptDone
INVARIANT ParserNeverStuck
CHECK_DEADLOCK FALSE
