--------------------------- MODULE MC_TimedCache ---------------------------
(* Bounded model: a design of the cache (one row per question: value and expiry time; served while expiry > now;   *)
(* refreshed from the provider otherwise) in a moving world, every interleaving of clock ticks, world changes and     *)
(* queries.  Invariants: every step of the design is a step TimedCache!Succ allows (DesignConforms); what is served    *)
(* was true less than Ttl ago (NeverStalerThanTtl); an answer is never taken from another question's row               *)
(* (AnswersOwnQuestion).                                                                                              *)
EXTENDS TimedCache, TLC
CONSTANTS MaxTime, Vals
VARIABLES s, row, truth, was, last, conforms
vars == <<s, row, truth, was, last, conforms>>
None == [v |-> 0, exp |-> 0]
Qs == {"blockcount", "fee_high"}

Init == /\ s = InitState /\ row = [x \in Qs |-> None] /\ truth = [x \in Qs |-> 1]
        /\ was = [x \in Qs |-> [v \in Vals |-> IF v = 1 THEN 1 ELSE 0]]   \* 1 + the latest time v was the truth of x (0 = never)
        /\ last = [ok |-> FALSE, x |-> "blockcount", ret |-> 0] /\ conforms = TRUE

\* the clock advances with the next query (e.dt); the world changes at the current time
WorldChanges == \E x \in Qs, v \in Vals :
    /\ v # truth[x]
    /\ truth' = [truth EXCEPT ![x] = v]
    /\ was' = [was EXCEPT ![x] = [@ EXCEPT ![v] = s.now + 1, ![truth[x]] = s.now + 1]]
    /\ UNCHANGED <<s, row, last, conforms>>

Query == \E x \in Qs, dt \in 0..2, prov \in {"ok", "fail"} :
    LET now == s.now + dt
        hit == row[x].exp > now
        e == IF hit THEN [x |-> x, dt |-> dt, asked |-> FALSE, prov |-> prov, pval |-> truth[x], ok |-> TRUE, ret |-> row[x].v]
             ELSE IF prov = "ok" THEN [x |-> x, dt |-> dt, asked |-> TRUE, prov |-> prov, pval |-> truth[x], ok |-> TRUE, ret |-> truth[x]]
             ELSE [x |-> x, dt |-> dt, asked |-> TRUE, prov |-> prov, pval |-> truth[x], ok |-> FALSE, ret |-> 0]
        nxt == Succ(s, e)
    IN /\ now <= MaxTime
       /\ row' = IF ~hit /\ prov = "ok" THEN [row EXCEPT ![x] = [v |-> truth[x], exp |-> now + Ttl(x)]] ELSE row
       /\ conforms' = (nxt # {})
       /\ s' = IF nxt = {} THEN [s EXCEPT !.now = now]
               ELSE CHOOSE n \in nxt : \A m \in nxt : Cardinality(m.seen) <= Cardinality(n.seen)
       \* the world's record moves with the clock: the current truth is also true at the time of this query
       /\ was' = [y \in Qs |-> [was[y] EXCEPT ![truth[y]] = now + 1]]
       /\ last' = [ok |-> e.ok, x |-> x, ret |-> e.ret]
       /\ UNCHANGED truth
Next == WorldChanges \/ Query
Spec == Init /\ [][Next]_vars

DesignConforms == conforms
NeverStalerThanTtl == last.ok => (was[last.x][last.ret] > 0 /\ s.now - (was[last.x][last.ret] - 1) < Ttl(last.x))
AnswersOwnQuestion == last.ok => \E r \in s.seen : r.x = last.x /\ r.v = last.ret
=============================================================================
